// Package sched is the controlled scheduler (E4): cooperative threads on goroutines, exactly one
// runs at a time; scheduling points are lock acquisitions of the vsync shim and instrumented table
// accesses made without holding a lock. Every thread carries a vector clock; release->acquire
// edges of the modelled locks order accesses; two accesses to the same table, at least one a write,
// that are unordered by happens-before are a data race.
package sched

import (
	"fmt"
	"sort"

	verifrt "github.com/Syuparn/pangaea/verifrt"
)

type vc []int

func (a vc) join(b vc) {
	for i := range b {
		if i < len(a) && b[i] > a[i] {
			a[i] = b[i]
		}
	}
}

func (a vc) copy() vc { return append(vc(nil), a...) }

type opKind int

const (
	opStart opKind = iota
	opLock
	opAccess
)

type pendingOp struct {
	kind  opKind
	m     interface{}
	write bool
	name  string
}

type thread struct {
	id      int
	fn      func()
	resume  chan struct{}
	done    bool
	pending *pendingOp
	clock   vc
	held    map[interface{}]int // lock -> 1 read, 2 write
	panicV  interface{}
}

type lockState struct {
	writer  int // thread id or -1
	readers map[int]int
	relAll  vc // join of all releases
	relW    vc // join of write releases
}

type access struct {
	tid   int
	clock vc
}

type tableState struct {
	lastWrite *access
	reads     map[int]*access
}

// Race describes one detected data race.
type Race struct {
	Table string
	A, B  string
}

// Result of one scheduled execution.
type Result struct {
	Races     []Race
	Deadlock  bool
	Panics    []string
	Steps     int
	Switches  int
	Conflicts int // cross-thread access pairs on the same table with at least one write (ordered or not)
	Trace     []string
}

// Session runs a set of thread bodies under the controlled scheduler.
type Session struct {
	threads []*thread
	cur     int
	ctrl    chan int
	locks   map[interface{}]*lockState
	tables  map[string]*tableState
	res     Result
	n       int
	trace   bool
	objIDs  map[interface{}]int // objects seen by Observe, numbered in order of first appearance
}

// New creates a session for the given thread bodies.
func New(bodies []func(), trace bool) *Session {
	s := &Session{ctrl: make(chan int), locks: map[interface{}]*lockState{}, tables: map[string]*tableState{}, n: len(bodies), trace: trace}
	for i, b := range bodies {
		t := &thread{id: i, fn: b, resume: make(chan struct{}), clock: make(vc, len(bodies)), held: map[interface{}]int{}}
		t.clock[i] = 1
		t.pending = &pendingOp{kind: opStart}
		s.threads = append(s.threads, t)
	}
	return s
}

func (s *Session) lock(m interface{}) *lockState {
	l := s.locks[m]
	if l == nil {
		l = &lockState{writer: -1, readers: map[int]int{}, relAll: make(vc, s.n), relW: make(vc, s.n)}
		s.locks[m] = l
	}
	return l
}

func (s *Session) enabled(t *thread) bool {
	if t.done {
		return false
	}
	p := t.pending
	if p == nil {
		return false
	}
	if p.kind == opLock {
		l := s.lock(p.m)
		if p.write {
			return l.writer == -1 && len(l.readers) == 0
		}
		return l.writer == -1
	}
	return true
}

// Run executes the threads until all finish (or deadlock). choose picks among n alternatives
// (alternative 0 = keep running the current thread if it is enabled, else the lowest id).
func (s *Session) Run(choose func(site string, n int) int) Result {
	verifrt.SetSession(s)
	defer verifrt.SetSession(nil)
	for _, t := range s.threads {
		go s.threadMain(t)
	}
	s.cur = -1
	for {
		var en []int
		if s.cur >= 0 && s.enabled(s.threads[s.cur]) {
			en = append(en, s.cur)
		}
		for _, t := range s.threads {
			if t.id != s.cur && s.enabled(t) {
				en = append(en, t.id)
			}
		}
		if len(en) == 0 {
			for _, t := range s.threads {
				if !t.done {
					s.res.Deadlock = true
				}
			}
			break
		}
		pick := 0
		if len(en) > 1 {
			pick = choose("sched", len(en))
		}
		next := en[pick]
		if s.cur >= 0 && next != s.cur {
			s.res.Switches++
		}
		s.cur = next
		t := s.threads[next]
		s.grant(t)
		s.res.Steps++
		t.resume <- struct{}{}
		<-s.ctrl // the thread reached its next point or finished
	}
	if s.res.Deadlock {
		// leave blocked goroutines parked forever; they hold no OS resources
	}
	return s.res
}

func (s *Session) grant(t *thread) {
	p := t.pending
	t.pending = nil
	if p == nil {
		return
	}
	switch p.kind {
	case opLock:
		l := s.lock(p.m)
		if p.write {
			l.writer = t.id
			t.held[p.m] = 2
			t.clock.join(l.relAll)
		} else {
			l.readers[t.id]++
			t.held[p.m] = 1
			t.clock.join(l.relW)
		}
		t.clock[t.id]++
		if s.trace {
			s.res.Trace = append(s.res.Trace, fmt.Sprintf("T%d lock(write=%v)", t.id, p.write))
		}
	case opAccess:
		s.record(t, p.name, p.write, false)
	}
}

func (s *Session) threadMain(t *thread) {
	<-t.resume
	defer func() {
		if r := recover(); r != nil {
			t.panicV = r
			s.res.Panics = append(s.res.Panics, fmt.Sprintf("T%d: %v", t.id, r))
		}
		t.done = true
		// release anything still held so that others are not blocked by a panicking thread
		for m, mode := range t.held {
			s.release(t, m, mode == 2)
		}
		s.ctrl <- t.id
	}()
	t.fn()
}

func (s *Session) yield(t *thread, p *pendingOp) {
	t.pending = p
	s.ctrl <- t.id
	<-t.resume
}

func (s *Session) current() *thread {
	if s.cur < 0 {
		return nil
	}
	return s.threads[s.cur]
}

// Acquire implements verifrt.Session.
func (s *Session) Acquire(m interface{}, write bool) {
	t := s.current()
	if t == nil {
		return
	}
	s.yield(t, &pendingOp{kind: opLock, m: m, write: write})
}

// Release implements verifrt.Session.
func (s *Session) Release(m interface{}, write bool) {
	t := s.current()
	if t == nil {
		return
	}
	s.release(t, m, write)
}

func (s *Session) release(t *thread, m interface{}, write bool) {
	l := s.lock(m)
	if write {
		if l.writer == t.id {
			l.writer = -1
		}
		l.relW.join(t.clock)
	} else {
		if l.readers[t.id] > 0 {
			l.readers[t.id]--
			if l.readers[t.id] == 0 {
				delete(l.readers, t.id)
			}
		}
	}
	l.relAll.join(t.clock)
	delete(t.held, m)
	t.clock[t.id]++
	if s.trace {
		s.res.Trace = append(s.res.Trace, fmt.Sprintf("T%d unlock(write=%v)", t.id, write))
	}
}

// Access implements verifrt.Session.
func (s *Session) Access(name string, write bool) {
	t := s.current()
	if t == nil {
		return
	}
	if len(t.held) > 0 {
		s.record(t, name, write, true)
		return
	}
	// unprotected access: a scheduling point of its own
	s.yield(t, &pendingOp{kind: opAccess, name: name, write: write})
}

// Observe implements verifrt.Session: an access that is recorded for the race detection only.
func (s *Session) Observe(p interface{}, field string, write bool) {
	t := s.current()
	if t == nil {
		return
	}
	if p == nil {
		// a package-level variable: the name alone identifies it
		s.record(t, field, write, len(t.held) > 0)
		return
	}
	if s.objIDs == nil {
		s.objIDs = map[interface{}]int{}
	}
	id, ok := s.objIDs[p]
	if !ok {
		id = len(s.objIDs) + 1
		s.objIDs[p] = id
	}
	s.record(t, fmt.Sprintf("%s#%d", field, id), write, len(t.held) > 0)
}

func hb(a *access, cur vc) bool { return a.clock[a.tid] <= cur[a.tid] }

func (s *Session) record(t *thread, name string, write, locked bool) {
	ts := s.tables[name]
	if ts == nil {
		ts = &tableState{reads: map[int]*access{}}
		s.tables[name] = ts
	}
	desc := func(tid int, w, l bool) string {
		return fmt.Sprintf("T%d %s %s", tid, map[bool]string{true: "write", false: "read"}[w], map[bool]string{true: "under lock", false: "WITHOUT lock"}[l])
	}
	if s.trace {
		s.res.Trace = append(s.res.Trace, desc(t.id, write, locked)+" "+name)
	}
	if ts.lastWrite != nil && ts.lastWrite.tid != t.id {
		s.res.Conflicts++
		if !hb(ts.lastWrite, t.clock) {
			s.res.Races = append(s.res.Races, Race{Table: name, A: fmt.Sprintf("T%d write", ts.lastWrite.tid), B: desc(t.id, write, locked)})
		}
	}
	if write {
		ids := make([]int, 0, len(ts.reads))
		for id := range ts.reads {
			ids = append(ids, id)
		}
		sort.Ints(ids)
		for _, id := range ids {
			r := ts.reads[id]
			if r.tid != t.id {
				s.res.Conflicts++
				if !hb(r, t.clock) {
					s.res.Races = append(s.res.Races, Race{Table: name, A: fmt.Sprintf("T%d read", r.tid), B: desc(t.id, write, locked)})
				}
			}
		}
		ts.lastWrite = &access{tid: t.id, clock: t.clock.copy()}
		ts.reads = map[int]*access{}
	} else {
		ts.reads[t.id] = &access{tid: t.id, clock: t.clock.copy()}
	}
	// an access is an event of its own
	t.clock[t.id]++
}
