// Package panrun drives the real interpreter in-process: root environment set-up exactly as
// runscript.setup does it, guarded evaluation of one program, and batches of thunks
// (`cK := {|| body}`) parsed once and called one by one through the exported Func#call built-in.
package panrun

import (
	"bytes"
	"fmt"
	"io"
	"os"
	"runtime/debug"
	"strings"

	"github.com/Syuparn/pangaea/ast"
	"github.com/Syuparn/pangaea/di"
	"github.com/Syuparn/pangaea/evaluator"
	"github.com/Syuparn/pangaea/object"
	"github.com/Syuparn/pangaea/parser"
	verifrt "github.com/Syuparn/pangaea/verifrt"
)

// Default budgets of one case.
var (
	FuelTicks int64 = 400000
	FuelDepth int64 = 1500
)

// Obs is the observation of one guarded evaluation.
type Obs struct {
	Kind    string           `json:"kind"` // value | error | panic | discard | syntax
	Out     string           `json:"out,omitempty"`
	Repr    string           `json:"repr,omitempty"`
	ErrKind string           `json:"err_kind,omitempty"`
	ErrMsg  string           `json:"err_msg,omitempty"`
	Panic   string           `json:"panic,omitempty"`
	Stack   string           `json:"-"`
	Val     object.PanObject `json:"-"`
}

// Key is a compact comparable form of the observation (stdout + outcome).
func (o Obs) Key() string {
	switch o.Kind {
	case "value":
		return "V " + o.Repr + " | " + o.Out
	case "error":
		return "E " + o.ErrKind + ": " + o.ErrMsg + " | " + o.Out
	case "panic":
		return "P " + o.Panic + " | " + o.Out
	}
	return o.Kind + " | " + o.Out
}

// Short is Key without stdout.
func (o Obs) Short() string {
	switch o.Kind {
	case "value":
		return o.Repr
	case "error":
		return o.ErrKind + ": " + o.ErrMsg
	case "panic":
		return "PANIC " + o.Panic
	}
	return o.Kind
}

// Runner owns one root environment.
type Runner struct {
	Root   *object.Env
	callFn object.BuiltInFunc
	Props  map[string]object.PanObject
}

// New builds a root environment the way runscript.setup does.
func New() *Runner {
	env := object.NewEnvWithConsts()
	env.InjectIO(strings.NewReader(""), io.Discard)
	env.SetSourceFilePath("")
	di.InjectBuiltInProps(env)
	env.InjectFrom(object.BuiltInKernelObj)
	props := evaluator.NewPropContainer()
	return &Runner{Root: env, callFn: props["Func_call"].(*object.PanBuiltIn).Fn, Props: props}
}

// EmptyKwargs returns a fresh empty kwargs object.
func EmptyKwargs() *object.PanObj { return object.EmptyPanObjPtr() }

// Guard runs fn under the fuel guard and recover, with IO injected into env.
func (r *Runner) Guard(env *object.Env, stdin string, fn func() object.PanObject) (obs Obs) {
	var out bytes.Buffer
	if env != nil {
		env.InjectIO(strings.NewReader(stdin), &out)
	}
	defer func() {
		verifrt.StopFuel()
		if p := recover(); p != nil {
			obs.Out = out.String()
			if _, ok := p.(verifrt.FuelExhausted); ok {
				obs.Kind = "discard"
				obs.Panic = fmt.Sprint(p)
				return
			}
			obs.Kind = "panic"
			obs.Panic = firstLine(fmt.Sprint(p))
			obs.Stack = string(debug.Stack())
		}
	}()
	verifrt.StartFuel(FuelTicks, FuelDepth)
	v := fn()
	verifrt.StopFuel()
	obs = Describe(v)
	obs.Out = out.String()
	return obs
}

func firstLine(s string) string {
	if i := strings.IndexByte(s, '\n'); i >= 0 {
		return s[:i]
	}
	return s
}

// Describe classifies a result object. It calls Inspect, which the REPL would call next; a
// panic there propagates to the caller's recover.
func Describe(v object.PanObject) Obs {
	if v == nil {
		return Obs{Kind: "panic", Panic: "nil PanObject returned"}
	}
	if e, ok := v.(*object.PanErr); ok {
		return Obs{Kind: "error", ErrKind: string(e.ErrKind), ErrMsg: e.Msg, Repr: e.Inspect(), Val: v}
	}
	if Cyclic(v) {
		// Inspect would recurse until the Go stack is exhausted (fatal, not recoverable)
		return Obs{Kind: "value", Repr: CyclicRepr, Val: v}
	}
	return Obs{Kind: "value", Repr: v.Inspect(), Val: v}
}

// CyclicRepr stands for the printed form of a value that is reachable from itself.
const CyclicRepr = "<value that contains itself>"

// Cyclic reports whether a container is reachable from itself: impossible for values that never
// change after their creation, and fatal for Inspect/Repr (unbounded Go recursion).
func Cyclic(v object.PanObject) bool { return cyclic(v, map[object.PanObject]bool{}, 0) }

func cyclic(v object.PanObject, onPath map[object.PanObject]bool, depth int) bool {
	if v == nil || depth > 1000000 {
		return false // deep but (so far) not self-containing; a cycle is reported only when a container is met on its own path
	}
	var kids []object.PanObject
	switch x := v.(type) {
	case *object.PanArr:
		kids = x.Elems
	case *object.PanRange:
		kids = []object.PanObject{x.Start, x.Stop, x.Step}
	case *object.PanObj:
		if x.Pairs == nil || len(*x.Pairs) > 40 {
			return false
		}
		for _, p := range *x.Pairs {
			kids = append(kids, p.Value)
		}
	case *object.PanMap:
		if x.Pairs != nil {
			for _, p := range *x.Pairs {
				kids = append(kids, p.Key, p.Value)
			}
		}
		if x.NonHashablePairs != nil {
			for _, p := range *x.NonHashablePairs {
				kids = append(kids, p.Key, p.Value)
			}
		}
	default:
		return false
	}
	if onPath[v] {
		return true
	}
	onPath[v] = true
	defer delete(onPath, v)
	for _, k := range kids {
		if cyclic(k, onPath, depth+1) {
			return true
		}
	}
	return false
}

// Parse parses a source text (never panics: the parser recovers internally; a panic that
// escapes is reported as Kind panic).
func Parse(src string) (node *ast.Program, obs *Obs) {
	defer func() {
		if p := recover(); p != nil {
			obs = &Obs{Kind: "panic", Panic: "parser: " + firstLine(fmt.Sprint(p)), Stack: string(debug.Stack())}
		}
	}()
	n, err := parser.Parse(parser.NewReader(strings.NewReader(src), "<panmc>"))
	if err != nil {
		return nil, &Obs{Kind: "syntax", ErrMsg: err.Error()}
	}
	return n, nil
}

// EvalSrc parses and evaluates a whole program in a fresh scope enclosed in the root.
func (r *Runner) EvalSrc(src, stdin string) Obs {
	env := object.NewEnclosedEnv(r.Root)
	return r.EvalSrcIn(env, src, stdin)
}

// EvalSrcIn parses and evaluates a whole program in env.
func (r *Runner) EvalSrcIn(env *object.Env, src, stdin string) Obs {
	var perr *Obs
	var prog *parsed
	func() {
		defer func() {
			if p := recover(); p != nil {
				perr = &Obs{Kind: "panic", Panic: "parser: " + firstLine(fmt.Sprint(p)), Stack: string(debug.Stack())}
			}
		}()
		n, err := parser.Parse(parser.NewReader(strings.NewReader(src), "<panmc>"))
		if err != nil {
			perr = &Obs{Kind: "syntax", ErrMsg: err.Error()}
			return
		}
		prog = &parsed{n}
	}()
	if perr != nil {
		return *perr
	}
	return r.Guard(env, stdin, func() object.PanObject { return evaluator.Eval(prog.n, env) })
}

type parsed struct{ n *ast.Program }

// Thunks evaluates prelude + one thunk per body in a fresh scope and calls each thunk under its
// own guard. A body that does not parse gets Kind "syntax" (found by bisection).
func (r *Runner) Thunks(prelude string, bodies []string, stdin string) []Obs {
	res := make([]Obs, len(bodies))
	idx := make([]int, len(bodies))
	for i := range idx {
		idx[i] = i
	}
	r.thunks(prelude, bodies, idx, stdin, res)
	return res
}

func (r *Runner) thunks(prelude string, bodies []string, idx []int, stdin string, res []Obs) {
	if len(idx) == 0 {
		return
	}
	var sb strings.Builder
	sb.WriteString(prelude)
	sb.WriteString("\n")
	for _, i := range idx {
		fmt.Fprintf(&sb, "c%d := {|| %s\n}\n", i, bodies[i])
	}
	env := object.NewEnclosedEnv(r.Root)
	o := r.EvalSrcIn(env, sb.String(), "")
	if o.Kind != "value" {
		if len(idx) == 1 {
			if o.Kind == "syntax" {
				res[idx[0]] = o
			} else {
				o.Panic = "batch definition failed: " + o.Short()
				o.Kind = "panic"
				res[idx[0]] = o
			}
			return
		}
		if o.Kind != "syntax" {
			// the prelude itself failed: report on every case
			for _, i := range idx {
				res[i] = Obs{Kind: "panic", Panic: "prelude failed: " + o.Short()}
			}
			return
		}
		h := len(idx) / 2
		r.thunks(prelude, bodies, idx[:h], stdin, res)
		r.thunks(prelude, bodies, idx[h:], stdin, res)
		return
	}
	for _, i := range idx {
		f, ok := env.Get(object.GetSymHash(fmt.Sprintf("c%d", i)))
		if !ok {
			res[i] = Obs{Kind: "panic", Panic: "thunk not defined"}
			continue
		}
		res[i] = r.Guard(env, stdin, func() object.PanObject {
			return r.callFn(env, EmptyKwargs(), f)
		})
	}
}

// Call calls a Pangaea callable with positional arguments (no guard).
func (r *Runner) Call(env *object.Env, f object.PanObject, args ...object.PanObject) object.PanObject {
	return r.callFn(env, EmptyKwargs(), append([]object.PanObject{f}, args...)...)
}

// Debugf prints to stderr when PANMC_DEBUG is set.
func Debugf(f string, a ...interface{}) {
	if os.Getenv("PANMC_DEBUG") != "" {
		fmt.Fprintf(os.Stderr, f+"\n", a...)
	}
}
