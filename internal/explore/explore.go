// Package explore is the deviation-bounded choice explorer (E2): an execution is run with the
// default answer (0) at every choice point, then re-run with one non-default answer at each point
// reached, then two, ... Prefixes are replayed; a divergence while replaying is a hard error.
package explore

import (
	"fmt"

	verifrt "github.com/Syuparn/pangaea/verifrt"
)

// Point is one choice point reached by an execution.
type Point struct {
	Site string
	N    int
}

// Exec is the record of one execution.
type Exec struct {
	Points  []Point
	Choices []int
}

// Deviations counts non-default answers.
func (x *Exec) Deviations() int {
	d := 0
	for _, c := range x.Choices {
		if c != 0 {
			d++
		}
	}
	return d
}

// Run executes body with the given choice prefix (then defaults). expect, if non-nil, is the
// point list of the parent execution: the replayed prefix must reach the same sites.
func Run(prefix []int, expect []Point, body func()) (x *Exec, diverged string) {
	x = &Exec{}
	verifrt.Chooser = func(site string, n int) int {
		i := len(x.Points)
		x.Points = append(x.Points, Point{site, n})
		c := 0
		if i < len(prefix) {
			c = prefix[i]
			if expect != nil && (i >= len(expect) || expect[i].Site != site || expect[i].N != n) {
				if diverged == "" {
					diverged = fmt.Sprintf("choice point %d: replay reached %s/%d, recorded %v", i, site, n, at(expect, i))
				}
			}
			if c >= n {
				if diverged == "" {
					diverged = fmt.Sprintf("choice point %d: recorded answer %d out of range %d at %s", i, c, n, site)
				}
				c = 0
			}
		}
		x.Choices = append(x.Choices, c)
		return c
	}
	defer func() { verifrt.Chooser = nil }()
	body()
	return x, diverged
}

func at(p []Point, i int) interface{} {
	if i < len(p) {
		return p[i]
	}
	return "<none>"
}

// Stats of one exploration.
type Stats struct {
	Executions int
	Points     int // choice points of the default execution with >= 2 alternatives
	Capped     bool
}

// Explore enumerates every execution with at most bound deviations. visit is called for each
// execution (after body ran) and returns false to stop. filter (optional) selects which choice
// points may deviate. maxExec caps the number of executions (Capped is set when hit).
func Explore(bound int, maxExec int, filter func(Point) bool, body func(), visit func(x *Exec) bool) (Stats, string) {
	var st Stats
	var rec func(prefix []int, expect []Point) (bool, string)
	rec = func(prefix []int, expect []Point) (bool, string) {
		if maxExec > 0 && st.Executions >= maxExec {
			st.Capped = true
			return false, ""
		}
		x, div := Run(prefix, expect, body)
		st.Executions++
		if div != "" {
			return false, div
		}
		if len(prefix) == 0 {
			for _, p := range x.Points {
				if p.N >= 2 {
					st.Points++
				}
			}
		}
		if !visit(x) {
			return false, ""
		}
		if x.Deviations() >= bound {
			return true, ""
		}
		for i := len(prefix); i < len(x.Points); i++ {
			p := x.Points[i]
			if p.N < 2 || (filter != nil && !filter(p)) {
				continue
			}
			for alt := 1; alt < p.N; alt++ {
				np := append(append([]int{}, x.Choices[:i]...), alt)
				cont, d := rec(np, x.Points)
				if d != "" || !cont {
					return cont, d
				}
			}
		}
		return true, ""
	}
	_, div := rec(nil, nil)
	return st, div
}
