// Package tk: small helpers shared by the checks (batched thunk enumeration).
package tk

import (
	"panmc/internal/core"
	"panmc/internal/panrun"
)

// Batched enumerates cases with gen (deterministic order), cuts them into batches, runs the
// batches of this shard as thunk programs and hands every observation to judge.
func Batched[T any](c *core.Ctx, batchSize int, prelude string, gen func(emit func(T)), body func(T) string, judge func(T, panrun.Obs)) int {
	var batch []T
	bi, total := 0, 0
	stopped := false
	flush := func() {
		if len(batch) == 0 {
			return
		}
		if c.Mine(bi) && !stopped {
			if c.Expired() {
				c.Incomplete("enumeration stopped at the internal deadline")
				stopped = true
			} else {
				bodies := make([]string, len(batch))
				for i, t := range batch {
					bodies[i] = body(t)
				}
				obs := c.R().Thunks(prelude, bodies, "")
				for i, t := range batch {
					c.Eval(1)
					if obs[i].Kind == "discard" {
						c.Discard(1)
					}
					judge(t, obs[i])
				}
			}
		}
		bi++
		batch = batch[:0]
	}
	gen(func(t T) {
		total++
		batch = append(batch, t)
		if len(batch) >= batchSize {
			flush()
		}
	})
	flush()
	return total
}

// Sharded calls fn for the items of this shard (by item index) until the deadline.
func Sharded(c *core.Ctx, n int, fn func(i int)) {
	for i := 0; i < n; i++ {
		if !c.Mine(i) {
			continue
		}
		if c.Expired() {
			c.Incomplete("enumeration stopped at the internal deadline")
			return
		}
		fn(i)
	}
}

// Queries runs the given thunk bodies (not sharded: the caller selects its own work) in
// batches and returns one observation per body.
func Queries(c *core.Ctx, prelude string, bodies []string) []panrun.Obs {
	res := make([]panrun.Obs, 0, len(bodies))
	const B = 1500
	for i := 0; i < len(bodies); i += B {
		j := i + B
		if j > len(bodies) {
			j = len(bodies)
		}
		if c.Expired() {
			c.Incomplete("enumeration stopped at the internal deadline")
			for k := i; k < len(bodies); k++ {
				res = append(res, panrun.Obs{Kind: "skipped"})
			}
			return res
		}
		res = append(res, c.R().Thunks(prelude, bodies[i:j], "")...)
	}
	return res
}
