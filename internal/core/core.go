// Package core is the check framework: registry, shard/worker process model, result merging,
// known-findings classification, evidence and replay files, exit status.
package core

import (
	"crypto/sha1"
	"encoding/hex"
	"encoding/json"
	"fmt"
	"os"
	"os/exec"
	"path/filepath"
	"sort"
	"strconv"
	"strings"
	"sync"
	"time"

	"panmc/internal/panrun"
)

// Check describes one property check.
type Check struct {
	ID          string
	Level       string // model_checking | fault_enumeration | exploration
	Rule        string // how cases are enumerated, what counts as non-trivial
	Assumptions []string
	// Run enumerates and checks the cases of this shard.
	Run func(c *Ctx)
	// Replay re-checks one recorded case.
	Replay func(c *Ctx, raw json.RawMessage)
	// Workers overrides the number of worker processes (0 = default 16).
	Workers int
	// QuickBudget / ThoroughBudget are internal deadlines in seconds (0 = defaults).
	QuickBudget, ThoroughBudget int
	// DeathIsViolation: an unrecoverable death of a worker (fatal error, signal) is attributed to the
	// case last written with Ctx.Journal and reported as a violation (C01) instead of a harness error.
	DeathIsViolation bool
}

var registry = map[string]*Check{}

// commands are extra sub-commands of the binary (helper processes of checks).
var commands = map[string]func(args []string) int{}

// RegisterCommand adds a helper sub-command.
func RegisterCommand(name string, f func(args []string) int) { commands[name] = f }

// Register adds a check.
func Register(c *Check) { registry[c.ID] = c }

// Violation is one failing case.
type Violation struct {
	Key      string          `json:"key"`
	Case     json.RawMessage `json:"case"`
	Desc     string          `json:"desc"`
	Expected string          `json:"expected,omitempty"`
	Observed string          `json:"observed,omitempty"`
	Repro    string          `json:"repro,omitempty"` // stand-alone Pangaea program, when one exists
	Stdin    string          `json:"stdin,omitempty"`
}

// ShardResult is what one worker reports.
type ShardResult struct {
	Evaluations int64                  `json:"evaluations"`
	Nontrivial  int64                  `json:"nontrivial"`
	States      int64                  `json:"states"`
	Transitions int64                  `json:"transitions"`
	Validated   int64                  `json:"validated"`
	Discarded   int64                  `json:"discarded"`
	Outcomes    map[string]int64       `json:"outcomes"`
	Samples     []interface{}          `json:"samples"`
	Violations  map[string][]Violation `json:"violations"` // by key, at most a few each
	VioCount    map[string]int64       `json:"vio_count"`
	Notes       map[string]interface{} `json:"notes"`
	Counters    map[string]int64       `json:"counters"`
	Incomplete  []string               `json:"incomplete"`
	HarnessErr  []string               `json:"harness_err"`
}

// Ctx is handed to a check's Run.
type Ctx struct {
	Tier     string
	Shard    int
	NShards  int
	Seed     int64
	Deadline time.Time
	res      *ShardResult
	runner   *panrun.Runner
	mu       sync.Mutex
	journal  *os.File
}

// Journal records (unbuffered) the case about to run, so that an unrecoverable death of this worker
// can be attributed to it.
func (c *Ctx) Journal(line string) {
	if c.journal == nil {
		return
	}
	c.journal.Truncate(0)
	c.journal.WriteAt([]byte(line), 0)
}

// Thorough reports whether the thorough tier was requested.
func (c *Ctx) Thorough() bool { return c.Tier == "thorough" }

// Pick returns q for quick and t for thorough.
func (c *Ctx) Pick(q, t int) int {
	if c.Thorough() {
		return t
	}
	return q
}

// R returns the lazily built interpreter runner of this worker.
func (c *Ctx) R() *panrun.Runner {
	if c.runner == nil {
		c.runner = panrun.New()
	}
	return c.runner
}

// Mine reports whether work item i belongs to this shard.
func (c *Ctx) Mine(i int) bool { return i%c.NShards == c.Shard }

// Expired reports whether the internal deadline passed.
func (c *Ctx) Expired() bool { return time.Now().After(c.Deadline) }

// Incomplete records that a bound was not completed.
func (c *Ctx) Incomplete(what string) {
	c.res.Incomplete = append(c.res.Incomplete, what)
}

// HarnessError records a failure of the machinery itself (exit 2, never a VIOLATION).
func (c *Ctx) HarnessError(f string, a ...interface{}) {
	if len(c.res.HarnessErr) < 20 {
		c.res.HarnessErr = append(c.res.HarnessErr, fmt.Sprintf(f, a...))
	}
}

func (c *Ctx) Eval(n int)       { c.res.Evaluations += int64(n) }
func (c *Ctx) Nontrivial(n int) { c.res.Nontrivial += int64(n) }
func (c *Ctx) State(n int)      { c.res.States += int64(n) }
func (c *Ctx) Transition(n int) { c.res.Transitions += int64(n) }
func (c *Ctx) Validated(n int)  { c.res.Validated += int64(n) }
func (c *Ctx) Discard(n int)    { c.res.Discarded += int64(n) }

// Outcome counts an observed outcome class (the number of distinct classes exposes vacuity).
func (c *Ctx) Outcome(class string) {
	if len(class) > 120 {
		class = class[:120]
	}
	if len(c.res.Outcomes) < 5000 || c.res.Outcomes[class] > 0 {
		c.res.Outcomes[class]++
	}
}

// Counter adds to a named counter reported in the evidence.
func (c *Ctx) Counter(name string, n int64) { c.res.Counters[name] += n }

// Note records a fact (bounds, sizes) reported in the evidence.
func (c *Ctx) Note(k string, v interface{}) { c.res.Notes[k] = v }

// Sample keeps a few example cases.
func (c *Ctx) Sample(s interface{}) {
	if len(c.res.Samples) < 3 {
		c.res.Samples = append(c.res.Samples, s)
	}
}

// Violation records a failing case under a finding key.
func (c *Ctx) Violation(v Violation) {
	c.res.VioCount[v.Key]++
	l := c.res.Violations[v.Key]
	if len(l) < 3 {
		c.res.Violations[v.Key] = append(l, v)
		return
	}
	// keep the smallest examples
	worst := 0
	for i := range l {
		if len(l[i].Desc) > len(l[worst].Desc) {
			worst = i
		}
	}
	if len(v.Desc) < len(l[worst].Desc) {
		l[worst] = v
	}
}

// ViolationKeys returns the violation keys recorded so far by this worker.
func (c *Ctx) ViolationKeys() map[string]int64 { return c.res.VioCount }

// JSON marshals any value into a RawMessage.
func JSON(v interface{}) json.RawMessage {
	b, err := json.Marshal(v)
	if err != nil {
		panic(err)
	}
	return b
}

func newResult() *ShardResult {
	return &ShardResult{Outcomes: map[string]int64{}, Violations: map[string][]Violation{}, VioCount: map[string]int64{},
		Notes: map[string]interface{}{}, Counters: map[string]int64{}}
}

// ---------------------------------------------------------------- known findings

// Finding is one entry of known_findings.json.
type Finding struct {
	Property string `json:"property"`
	Key      string `json:"key"`
	Status   string `json:"status"` // known | fixed
	Commit   string `json:"commit,omitempty"`
	What     string `json:"what"`
	Example  string `json:"example,omitempty"`
}

func loadFindings(verifDir string) ([]Finding, error) {
	b, err := os.ReadFile(filepath.Join(verifDir, "known_findings.json"))
	if err != nil {
		if os.IsNotExist(err) {
			return nil, nil
		}
		return nil, err
	}
	var f struct {
		Findings []Finding `json:"findings"`
	}
	if err := json.Unmarshal(b, &f); err != nil {
		return nil, err
	}
	return f.Findings, nil
}

// ---------------------------------------------------------------- main

func verifDir() string {
	if d := os.Getenv("PANMC_VERIF"); d != "" {
		return d
	}
	return "/verif"
}

func budget(ch *Check, tier string) time.Duration {
	q, t := 240, 2400
	if ch.QuickBudget > 0 {
		q = ch.QuickBudget
	}
	if ch.ThoroughBudget > 0 {
		t = ch.ThoroughBudget
	}
	if s := os.Getenv("PANMC_BUDGET_S"); s != "" {
		if n, err := strconv.Atoi(s); err == nil {
			q, t = n, n
		}
	}
	if tier == "thorough" {
		return time.Duration(t) * time.Second
	}
	return time.Duration(q) * time.Second
}

// Main is the entry point of cmd/panmc.
func Main(args []string) int {
	if len(args) < 1 {
		fmt.Fprintln(os.Stderr, "usage: panmc check <ID> [--tier quick|thorough] | worker ... | replay <file> | list")
		return 2
	}
	switch args[0] {
	case "list":
		ids := []string{}
		for id := range registry {
			ids = append(ids, id)
		}
		sort.Strings(ids)
		fmt.Println(strings.Join(ids, " "))
		return 0
	case "check":
		return supervise(args[1:])
	case "worker":
		return worker(args[1:])
	case "replay":
		return replay(args[1:])
	}
	if f, ok := commands[args[0]]; ok {
		return f(args[1:])
	}
	fmt.Fprintln(os.Stderr, "unknown command", args[0])
	return 2
}

func parseFlags(args []string) (pos []string, flags map[string]string) {
	flags = map[string]string{}
	for i := 0; i < len(args); i++ {
		a := args[i]
		if strings.HasPrefix(a, "--") {
			k := strings.TrimPrefix(a, "--")
			if i+1 < len(args) {
				flags[k] = args[i+1]
				i++
			} else {
				flags[k] = ""
			}
		} else {
			pos = append(pos, a)
		}
	}
	return
}

func seed() int64 {
	if s := os.Getenv("VERIF_SEED"); s != "" {
		if n, err := strconv.ParseInt(s, 10, 64); err == nil {
			return n
		}
	}
	return 0
}

func worker(args []string) int {
	pos, fl := parseFlags(args)
	if len(pos) < 1 {
		return 2
	}
	ch := registry[pos[0]]
	if ch == nil {
		fmt.Fprintln(os.Stderr, "unknown check", pos[0])
		return 2
	}
	shard, _ := strconv.Atoi(fl["shard"])
	of, _ := strconv.Atoi(fl["of"])
	dl, _ := strconv.ParseInt(fl["deadline"], 10, 64)
	ctx := &Ctx{Tier: fl["tier"], Shard: shard, NShards: of, Seed: seed(), Deadline: time.Unix(dl, 0), res: newResult()}
	if j := fl["journal"]; j != "" {
		ctx.journal, _ = os.Create(j)
	}
	ch.Run(ctx)
	b, err := json.Marshal(ctx.res)
	if err != nil {
		fmt.Fprintln(os.Stderr, "marshal:", err)
		return 2
	}
	if err := os.WriteFile(fl["out"], b, 0o644); err != nil {
		fmt.Fprintln(os.Stderr, err)
		return 2
	}
	return 0
}

func supervise(args []string) int {
	pos, fl := parseFlags(args)
	if len(pos) < 1 {
		return 2
	}
	id := pos[0]
	ch := registry[id]
	if ch == nil {
		fmt.Fprintln(os.Stderr, "unknown check", id)
		return 2
	}
	tier := fl["tier"]
	if t := os.Getenv("VERIF_TIER"); t != "" {
		tier = t
	}
	if tier != "thorough" {
		tier = "quick"
	}
	start := time.Now()
	n := 16
	if ch.Workers > 0 {
		n = ch.Workers
	}
	if s := os.Getenv("PANMC_WORKERS"); s != "" {
		if k, err := strconv.Atoi(s); err == nil && k > 0 {
			n = k
		}
	}
	scratch := os.Getenv("PANMC_SCRATCH")
	if scratch == "" {
		d, err := os.MkdirTemp("", "panmc")
		if err != nil {
			fmt.Fprintln(os.Stderr, err)
			return 2
		}
		scratch = d
		defer os.RemoveAll(d)
	}
	deadline := start.Add(budget(ch, tier))
	self, _ := os.Executable()
	type wres struct {
		r   *ShardResult
		err string
	}
	results := make([]wres, n)
	var wg sync.WaitGroup
	for i := 0; i < n; i++ {
		wg.Add(1)
		go func(i int) {
			defer wg.Done()
			outf := filepath.Join(scratch, fmt.Sprintf("%s.shard%d.json", id, i))
			os.Remove(outf)
			jf := filepath.Join(scratch, fmt.Sprintf("%s.shard%d.journal", id, i))
			cmd := exec.Command(self, "worker", id, "--tier", tier, "--shard", strconv.Itoa(i), "--of", strconv.Itoa(n),
				"--out", outf, "--deadline", strconv.FormatInt(deadline.Unix(), 10), "--journal", jf)
			cmd.Env = append(os.Environ(), "GOMAXPROCS=2")
			errf := filepath.Join(scratch, fmt.Sprintf("%s.shard%d.stderr", id, i))
			ef, _ := os.Create(errf)
			cmd.Stderr = ef
			cmd.Stdout = ef
			err := cmd.Run()
			ef.Close()
			b, rerr := os.ReadFile(outf)
			if err != nil || rerr != nil {
				eb, _ := os.ReadFile(errf)
				tail := string(eb)
				if len(tail) > 3000 {
					tail = tail[:1500] + "\n...\n" + tail[len(tail)-1500:]
				}
				if ch.DeathIsViolation {
					jb, _ := os.ReadFile(jf)
					results[i] = wres{r: deathResult(string(jb), string(eb), i)}
					return
				}
				results[i] = wres{err: fmt.Sprintf("worker %d: %v %v\n%s", i, err, rerr, tail)}
				return
			}
			r := newResult()
			if jerr := json.Unmarshal(b, r); jerr != nil {
				results[i] = wres{err: fmt.Sprintf("worker %d: %v", i, jerr)}
				return
			}
			results[i] = wres{r: r}
		}(i)
	}
	wg.Wait()
	total := newResult()
	for _, w := range results {
		if w.err != "" {
			total.HarnessErr = append(total.HarnessErr, w.err)
			continue
		}
		merge(total, w.r)
	}
	return finish(ch, tier, total, time.Since(start), n)
}

// deathResult turns an unrecoverable worker death into a result with one violation (or a discard
// when the runtime says the program ran out of memory / stack, which the property excludes).
func deathResult(journal, stderr string, shard int) *ShardResult {
	r := newResult()
	r.Incomplete = append(r.Incomplete, fmt.Sprintf("worker %d died; the rest of its shard was not explored", shard))
	reason := "unknown"
	for _, ln := range strings.Split(stderr, "\n") {
		if strings.HasPrefix(ln, "fatal error:") || strings.HasPrefix(ln, "panic:") || strings.Contains(ln, "SIGSEGV") || strings.HasPrefix(ln, "runtime:") {
			reason = strings.TrimSpace(ln)
			break
		}
	}
	if strings.Contains(stderr, "out of memory") || strings.Contains(stderr, "stack exceeds") || strings.Contains(stderr, "cannot allocate memory") {
		r.Discarded++
		r.Counters["worker_deaths_discarded(memory/stack proviso)"]++
		return r
	}
	key := "worker-death/" + oneLine(reason, 80)
	v := Violation{Key: key, Case: JSON(map[string]string{"journal": journal}), Desc: "interpreter process died while running: " + oneLine(journal, 300), Expected: "a value, a Pangaea error or a syntax error", Observed: reason}
	r.VioCount[key] = 1
	r.Violations[key] = []Violation{v}
	r.Evaluations = 1
	return r
}

func merge(t, r *ShardResult) {
	t.Evaluations += r.Evaluations
	t.Nontrivial += r.Nontrivial
	t.States += r.States
	t.Transitions += r.Transitions
	t.Validated += r.Validated
	t.Discarded += r.Discarded
	for k, v := range r.Outcomes {
		t.Outcomes[k] += v
	}
	for k, v := range r.Counters {
		t.Counters[k] += v
	}
	for k, v := range r.Notes {
		t.Notes[k] = v
	}
	for _, s := range r.Samples {
		// distinct samples only (workers that sample "every n-th case" often pick the same first case)
		dup := false
		sj, _ := json.Marshal(s)
		for _, e := range t.Samples {
			if ej, _ := json.Marshal(e); string(ej) == string(sj) {
				dup = true
				break
			}
		}
		if !dup && len(t.Samples) < 10 {
			t.Samples = append(t.Samples, s)
		}
	}
	for k, v := range r.VioCount {
		t.VioCount[k] += v
	}
	for k, l := range r.Violations {
		t.Violations[k] = append(t.Violations[k], l...)
	}
	t.Incomplete = append(t.Incomplete, r.Incomplete...)
	t.HarnessErr = append(t.HarnessErr, r.HarnessErr...)
}

func confirmCLI(v *Violation) map[string]interface{} {
	cli := os.Getenv("PANMC_CLI")
	if cli == "" || v.Repro == "" {
		return nil
	}
	f, err := os.CreateTemp("", "repro*.pangaea")
	if err != nil {
		return nil
	}
	defer os.Remove(f.Name())
	f.WriteString(v.Repro)
	f.Close()
	cmd := exec.Command("timeout", "20", cli, f.Name())
	cmd.Stdin = strings.NewReader(v.Stdin)
	var so, se strings.Builder
	cmd.Stdout, cmd.Stderr = &so, &se
	err = cmd.Run()
	code := 0
	if ee, ok := err.(*exec.ExitError); ok {
		code = ee.ExitCode()
	} else if err != nil {
		code = -1
	}
	trim := func(s string) string {
		if len(s) > 1500 {
			return s[:1500] + "..."
		}
		return s
	}
	return map[string]interface{}{"exit": code, "stdout": trim(so.String()), "stderr": trim(se.String())}
}

func confirmIf(do bool, v *Violation) map[string]interface{} {
	if !do {
		return nil
	}
	return confirmCLI(v)
}

func finish(ch *Check, tier string, t *ShardResult, wall time.Duration, workers int) int {
	vd := verifDir()
	findings, ferr := loadFindings(vd)
	if ferr != nil {
		t.HarnessErr = append(t.HarnessErr, "known_findings.json: "+ferr.Error())
	}
	known := map[string]Finding{}
	for _, f := range findings {
		if f.Property == ch.ID {
			known[f.Key] = f
		}
	}
	keys := []string{}
	for k := range t.VioCount {
		keys = append(keys, k)
	}
	sort.Strings(keys)
	repDir := filepath.Join(vd, "replays", ch.ID)
	newVio := 0
	knownHit := []string{}
	vioLines := 0
	for _, k := range keys {
		l := t.Violations[k]
		sort.Slice(l, func(i, j int) bool {
			if len(l[i].Desc) != len(l[j].Desc) {
				return len(l[i].Desc) < len(l[j].Desc)
			}
			return l[i].Desc < l[j].Desc
		})
		ex := l[0]
		if f, ok := known[k]; ok && f.Status == "known" {
			fmt.Printf("KNOWN-FINDING: property=%s key=%s %s (%d cases; e.g. %s)\n", ch.ID, k, f.What, t.VioCount[k], oneLine(ex.Desc, 160))
			knownHit = append(knownHit, k)
			continue
		}
		newVio++
		os.MkdirAll(repDir, 0o755)
		h := sha1.Sum([]byte(k))
		path := filepath.Join(repDir, hex.EncodeToString(h[:6])+".json")
		rep := map[string]interface{}{
			"property": ch.ID, "key": k, "count": t.VioCount[k], "case": ex.Case, "desc": ex.Desc,
			"expected": ex.Expected, "observed": ex.Observed, "repro": ex.Repro, "stdin": ex.Stdin,
			"cli_confirmation": confirmIf(vioLines < 12, &ex),
			"replay_cmd":       fmt.Sprintf("scripts/run_check.sh %s --replay %s", ch.ID, path),
		}
		if f, ok := known[k]; ok && f.Status == "fixed" {
			rep["regression_of_fixed"] = f.Commit
		}
		b, _ := json.MarshalIndent(rep, "", " ")
		os.WriteFile(path, b, 0o644)
		if ex.Repro != "" {
			os.WriteFile(strings.TrimSuffix(path, ".json")+".pangaea", []byte(ex.Repro), 0o644)
		}
		if vioLines < 20 {
			fmt.Printf("VIOLATION property=%s replay=%s\n", ch.ID, path)
			fmt.Printf("  key=%s cases=%d\n  case: %s\n  expected: %s\n  observed: %s\n", k, t.VioCount[k], oneLine(ex.Desc, 300), oneLine(ex.Expected, 300), oneLine(ex.Observed, 300))
			vioLines++
		}
	}
	exhaustive := len(t.Incomplete) == 0 && len(t.HarnessErr) == 0
	outcomes := len(t.Outcomes)
	states, transitions := t.States, t.Transitions
	if states == 0 {
		states = t.Nontrivial
	}
	if transitions == 0 {
		transitions = t.Evaluations
	}
	var totalVio int64
	for _, n := range t.VioCount {
		totalVio += n
	}
	topOutcomes := topN(t.Outcomes, 12)
	if v := os.Getenv("PANMC_PARSER_REGEN"); v != "" {
		t.Notes["parser_regenerated_from_grammar"] = v
	}
	if v := os.Getenv("PANMC_VARIANT"); v != "" {
		t.Notes["variant"] = v
	}
	cov := map[string]interface{}{
		"evaluations":                   t.Evaluations,
		"distinct_nontrivial":           t.Nontrivial,
		"rule":                          ch.Rule,
		"samples":                       t.Samples,
		"states":                        states,
		"transitions":                   transitions,
		"traces_validated_against_impl": t.Validated,
		"exhaustive":                    exhaustive,
		"incomplete":                    dedup(t.Incomplete),
		"discarded":                     t.Discarded,
		"distinct_outcomes":             outcomes,
		"top_outcomes":                  topOutcomes,
		"counters":                      t.Counters,
		"bounds":                        t.Notes,
		"violating_cases":               totalVio,
		"violation_keys_new":            newVio,
		"known_findings_hit":            knownHit,
		"workers":                       workers,
	}
	ev := map[string]interface{}{
		"property_id": ch.ID,
		"tier":        tier,
		"seed":        seed(),
		"level":       ch.Level,
		"coverage":    cov,
		"assumptions": ch.Assumptions,
		"wall_s":      float64(int(wall.Seconds()*100)) / 100,
		"violations":  newVio,
	}
	os.MkdirAll(filepath.Join(vd, "evidence"), 0o755)
	b, _ := json.MarshalIndent(ev, "", " ")
	if err := os.WriteFile(filepath.Join(vd, "evidence", ch.ID+".json"), b, 0o644); err != nil {
		fmt.Fprintln(os.Stderr, err)
		return 2
	}
	fmt.Printf("%s %s: evaluations=%d nontrivial=%d states=%d transitions=%d validated=%d discarded=%d outcomes=%d exhaustive=%v wall=%.1fs new_violation_keys=%d known_hit=%d\n",
		ch.ID, tier, t.Evaluations, t.Nontrivial, states, transitions, t.Validated, t.Discarded, outcomes, exhaustive, wall.Seconds(), newVio, len(knownHit))
	for _, inc := range dedup(t.Incomplete) {
		fmt.Printf("  incomplete: %s\n", inc)
	}
	if len(t.HarnessErr) > 0 {
		onlyDeaths := true
		for _, e := range t.HarnessErr {
			fmt.Fprintf(os.Stderr, "HARNESS-ERROR: %s\n", e)
			if !strings.HasPrefix(e, "worker ") {
				onlyDeaths = false
			}
		}
		// a worker that died (e.g. killed for its memory use) takes its shard with it, and a tree that keeps hidden state
		// between evaluations makes the explorers' replays diverge; violations that were observed (and re-executed) on the
		// real code are facts all the same and are reported as such. Without any violation a harness error is exit 2.
		_ = onlyDeaths
		if newVio == 0 {
			return 2
		}
	}
	if newVio > 0 {
		return 1
	}
	if t.Evaluations == 0 {
		fmt.Fprintln(os.Stderr, "HARNESS-ERROR: nothing was evaluated")
		return 2
	}
	return 0
}

func dedup(l []string) []string {
	seen := map[string]bool{}
	out := []string{}
	for _, s := range l {
		if !seen[s] {
			seen[s] = true
			out = append(out, s)
		}
	}
	return out
}

func topN(m map[string]int64, n int) map[string]int64 {
	type kv struct {
		k string
		v int64
	}
	l := []kv{}
	for k, v := range m {
		l = append(l, kv{k, v})
	}
	sort.Slice(l, func(i, j int) bool {
		if l[i].v != l[j].v {
			return l[i].v > l[j].v
		}
		return l[i].k < l[j].k
	})
	out := map[string]int64{}
	for i := 0; i < len(l) && i < n; i++ {
		out[l[i].k] = l[i].v
	}
	return out
}

func oneLine(s string, n int) string {
	s = strings.ReplaceAll(s, "\n", "\\n")
	if len(s) > n {
		s = s[:n] + "..."
	}
	return s
}

func replay(args []string) int {
	if len(args) < 1 {
		return 2
	}
	b, err := os.ReadFile(args[0])
	if err != nil {
		fmt.Fprintln(os.Stderr, err)
		return 2
	}
	var rep struct {
		Property string          `json:"property"`
		Key      string          `json:"key"`
		Case     json.RawMessage `json:"case"`
	}
	if err := json.Unmarshal(b, &rep); err != nil {
		fmt.Fprintln(os.Stderr, err)
		return 2
	}
	ch := registry[rep.Property]
	if ch == nil || ch.Replay == nil {
		fmt.Fprintln(os.Stderr, "no replay for", rep.Property)
		return 2
	}
	ctx := &Ctx{Tier: "quick", Shard: 0, NShards: 1, Seed: seed(), Deadline: time.Now().Add(10 * time.Minute), res: newResult()}
	ch.Replay(ctx, rep.Case)
	if len(ctx.res.HarnessErr) > 0 {
		for _, e := range ctx.res.HarnessErr {
			fmt.Fprintln(os.Stderr, "HARNESS-ERROR:", e)
		}
		return 2
	}
	if len(ctx.res.VioCount) == 0 {
		fmt.Printf("replay %s: the recorded case no longer violates %s\n", args[0], rep.Property)
		return 0
	}
	for k, l := range ctx.res.Violations {
		for _, v := range l {
			fmt.Printf("VIOLATION property=%s replay=%s\n  key=%s\n  case: %s\n  expected: %s\n  observed: %s\n", rep.Property, args[0], k, oneLine(v.Desc, 400), oneLine(v.Expected, 400), oneLine(v.Observed, 400))
		}
	}
	return 1
}
