// mkoverlay writes instrumented copies of the repository's non-test Go files plus an
// overlay.json for `go build -overlay`. The repository itself is never modified.
//
// Rewrites (all additive and keyed on syntax/type facts, never on line numbers):
//
//	fuel      verifrt.Enter()/Leave() at the top of evaluator.Eval, verifrt.Tick() in every loop body
//	          of packages evaluator, props, object, di
//	maporder  `for k, v := range M` over a map  ->  ordered walk over verifrt.Keys(site, M)
//	sync      import "sync" -> verifrt/vsync
//	access    verifrt.Access(name, write) before statements touching package-level maps of package object
//	export    extra files exporting what the harness needs (symbol tables, readNativeCode, Ident order)
package main

import (
	"bytes"
	"encoding/json"
	"flag"
	"fmt"
	"go/ast"
	"go/format"
	"go/token"
	"go/types"
	"os"
	"path/filepath"
	"sort"
	"strconv"
	"strings"

	"golang.org/x/tools/go/ast/astutil"
	"golang.org/x/tools/go/packages"
)

const modPath = "github.com/Syuparn/pangaea"
const rtPath = modPath + "/verifrt"
const vsyncPath = rtPath + "/vsync"

var (
	repo  = flag.String("repo", "/repo", "repository root")
	rtDir = flag.String("rt", "/verif/rt", "directory of the verifrt runtime sources")
	out   = flag.String("out", "", "output directory (scratch)")
	noMap = flag.Bool("nomaporder", false, "skip the map-order rewrite")
)

func fatalf(f string, a ...interface{}) {
	fmt.Fprintf(os.Stderr, "mkoverlay: "+f+"\n", a...)
	os.Exit(2)
}

type stats struct {
	MapSites    []string `json:"map_sites"`
	LoopTicks   int      `json:"loop_ticks"`
	EvalGuards  int      `json:"eval_guards"`
	SyncFiles   []string `json:"sync_files"`
	AccessSites []string `json:"access_sites"`
	FieldSites  int      `json:"field_access_sites"`
	Mutable     []string `json:"fields_written_after_construction"`
	Globals     []string `json:"package_variables_written_by_functions"`
	GlobalSites int      `json:"package_variable_access_sites"`
	Captured    []string `json:"closure_captured_variables_assigned_in_closures"`
	CapSites    int      `json:"captured_variable_access_sites"`
	Tables      []string `json:"tables"`
	Exports     []string `json:"exports"`
}

func main() {
	flag.Parse()
	if *out == "" {
		fatalf("-out required")
	}
	if err := os.MkdirAll(*out, 0o755); err != nil {
		fatalf("%v", err)
	}
	cfg := &packages.Config{
		Mode: packages.NeedName | packages.NeedFiles | packages.NeedCompiledGoFiles | packages.NeedSyntax |
			packages.NeedTypes | packages.NeedTypesInfo | packages.NeedImports | packages.NeedDeps,
		Dir: *repo,
		Env: append(os.Environ(), "GOFLAGS=-mod=mod", "GOPROXY=off", "GOSUMDB=off"),
	}
	pkgs, err := packages.Load(cfg, "./...")
	if err != nil {
		fatalf("load: %v", err)
	}
	overlay := map[string]string{}
	st := &stats{}
	nerr := 0
	for _, p := range pkgs {
		for _, e := range p.Errors {
			fmt.Fprintf(os.Stderr, "mkoverlay: %s: %v\n", p.PkgPath, e)
			nerr++
		}
	}
	if nerr > 0 {
		fatalf("repository does not type-check")
	}
	sort.Slice(pkgs, func(i, j int) bool { return pkgs[i].PkgPath < pkgs[j].PkgPath })
	mutable := collectMutableFields(pkgs)
	for k := range mutable {
		st.Mutable = append(st.Mutable, k)
	}
	sort.Strings(st.Mutable)
	globals := collectMutableGlobals(pkgs)
	for _, n := range globals {
		st.Globals = append(st.Globals, n)
	}
	sort.Strings(st.Globals)
	for _, p := range pkgs {
		if !strings.HasPrefix(p.PkgPath, modPath) {
			continue
		}
		rel := strings.TrimPrefix(strings.TrimPrefix(p.PkgPath, modPath), "/")
		top := strings.SplitN(rel, "/", 2)[0]
		tables := map[types.Object]string{}
		if rel == "object" {
			sc := p.Types.Scope()
			for _, n := range sc.Names() {
				if v, ok := sc.Lookup(n).(*types.Var); ok {
					if _, isMap := v.Type().Underlying().(*types.Map); isMap {
						tables[v] = n
						st.Tables = append(st.Tables, n)
					}
				}
			}
		}
		for i, f := range p.Syntax {
			fname := p.CompiledGoFiles[i]
			if strings.HasSuffix(fname, "_test.go") || !strings.HasPrefix(fname, *repo+"/") {
				continue
			}
			relFile := strings.TrimPrefix(fname, *repo+"/")
			changed := false
			needRT := false
			// --- maporder
			if !*noMap {
				n := rewriteMapRanges(p, f, relFile, st)
				if n > 0 {
					changed, needRT = true, true
				}
			}
			// --- access (package object)
			if len(tables) > 0 {
				if n := insertAccess(p, f, relFile, tables, st); n > 0 {
					changed, needRT = true, true
				}
			}
			// --- field accesses of object-package structs (fields that are assigned somewhere)
			if top == "evaluator" || top == "props" || top == "object" || top == "di" {
				if n := insertFieldAccess(p, f, relFile, mutable, st); n > 0 {
					changed, needRT = true, true
				}
			}
			// --- package-level variables that functions (other than init) write
			if len(globals) > 0 {
				if n := insertAccessNamed(p, f, relFile, globals, st); n > 0 {
					changed, needRT = true, true
				}
			}
			// --- local variables that a func literal assigns although they are declared outside it (state kept by a closure)
			if top != "verifrt" {
				if n := insertCapturedAccess(p, f, relFile, st); n > 0 {
					changed, needRT = true, true
				}
			}
			// --- fuel
			if top == "evaluator" || top == "props" || top == "object" || top == "di" {
				n := insertTicks(f)
				st.LoopTicks += n
				if n > 0 {
					changed, needRT = true, true
				}
				if rel == "evaluator" {
					if guardEval(f) {
						st.EvalGuards++
						changed, needRT = true, true
					}
				}
			}
			// --- sync
			for _, imp := range f.Imports {
				if imp.Path.Value == `"sync"` {
					imp.Path.Value = strconv.Quote(vsyncPath)
					imp.Name = ast.NewIdent("sync")
					changed = true
					st.SyncFiles = append(st.SyncFiles, relFile)
				}
			}
			if needRT {
				astutil.AddNamedImport(p.Fset, f, "verifrt", rtPath)
			}
			if !changed {
				continue
			}
			var buf bytes.Buffer
			if err := format.Node(&buf, p.Fset, f); err != nil {
				fatalf("format %s: %v", relFile, err)
			}
			dst := filepath.Join(*out, "src", relFile)
			os.MkdirAll(filepath.Dir(dst), 0o755)
			if err := os.WriteFile(dst, buf.Bytes(), 0o644); err != nil {
				fatalf("%v", err)
			}
			overlay[fname] = dst
		}
	}
	if st.EvalGuards != 1 {
		fatalf("expected exactly one evaluator.Eval to guard, found %d", st.EvalGuards)
	}
	// --- runtime packages (virtual)
	addDir := func(srcDir, virtDir string) {
		ents, err := os.ReadDir(srcDir)
		if err != nil {
			fatalf("%v", err)
		}
		for _, e := range ents {
			if e.IsDir() || !strings.HasSuffix(e.Name(), ".go") || strings.HasSuffix(e.Name(), "_test.go") {
				continue
			}
			overlay[filepath.Join(virtDir, e.Name())] = filepath.Join(srcDir, e.Name())
		}
	}
	addDir(*rtDir, filepath.Join(*repo, "verifrt"))
	addDir(filepath.Join(*rtDir, "vsync"), filepath.Join(*repo, "verifrt", "vsync"))
	// --- exports
	writeExport := func(rel, src string) {
		dst := filepath.Join(*out, "src", rel)
		os.MkdirAll(filepath.Dir(dst), 0o755)
		if err := os.WriteFile(dst, []byte(src), 0o644); err != nil {
			fatalf("%v", err)
		}
		overlay[filepath.Join(*repo, rel)] = dst
		st.Exports = append(st.Exports, rel)
	}
	writeExport("ast/verif_order.go", astOrderSrc)
	writeExport("object/verif_export.go", objectExportSrc(pkgs))
	writeExport("di/verif_export.go", diExportSrc(pkgs))
	if hp := findPkg(pkgs, "props/modules/http/builtin"); hp != nil {
		writeExport("props/modules/http/builtin/verif_export.go", httpExportSrc(hp))
	}
	// one registration file per package that owns function-written package-level variables, so that a harness
	// can put them back between executions (they are interpreter-wide state like the symbol tables)
	byPkg := map[string][]string{}
	pkgName := map[string]string{}
	for v := range globals {
		rel := strings.TrimPrefix(strings.TrimPrefix(v.Pkg().Path(), modPath), "/")
		byPkg[rel] = append(byPkg[rel], v.Name())
		pkgName[rel] = v.Pkg().Name()
	}
	for rel, names := range byPkg {
		sort.Strings(names)
		var b strings.Builder
		fmt.Fprintf(&b, "package %s\n\nimport verifrt \"%s/verifrt\"\n\n// added by the verification overlay\nfunc init() {\n", pkgName[rel], modPath)
		for _, n := range names {
			fmt.Fprintf(&b, "\tverifrt.RegisterGlobal(%q, &%s)\n", rel+"."+n, n)
		}
		b.WriteString("}\n")
		writeExport(rel+"/verif_globals.go", b.String())
	}

	ov := map[string]interface{}{"Replace": overlay}
	b, _ := json.MarshalIndent(ov, "", " ")
	if err := os.WriteFile(filepath.Join(*out, "overlay.json"), b, 0o644); err != nil {
		fatalf("%v", err)
	}
	sb, _ := json.MarshalIndent(st, "", " ")
	os.WriteFile(filepath.Join(*out, "overlay_stats.json"), sb, 0o644)
	fmt.Printf("mkoverlay: %d files rewritten, %d map sites, %d loop ticks, %d access sites, tables=%v\n",
		len(overlay), len(st.MapSites), st.LoopTicks, len(st.AccessSites), st.Tables)
}

func sel(pkg, name string) *ast.SelectorExpr {
	return &ast.SelectorExpr{X: ast.NewIdent(pkg), Sel: ast.NewIdent(name)}
}

func callStmt(name string, args ...ast.Expr) ast.Stmt {
	return &ast.ExprStmt{X: &ast.CallExpr{Fun: sel("verifrt", name), Args: args}}
}

func strLit(s string) ast.Expr { return &ast.BasicLit{Kind: token.STRING, Value: strconv.Quote(s)} }

// rewriteMapRanges turns every range over a map into an ordered walk.
func rewriteMapRanges(p *packages.Package, f *ast.File, relFile string, st *stats) int {
	n := 0
	astutil.Apply(f, nil, func(c *astutil.Cursor) bool {
		rs, ok := c.Node().(*ast.RangeStmt)
		if !ok {
			return true
		}
		t := p.TypesInfo.TypeOf(rs.X)
		if t == nil {
			return true
		}
		if _, isMap := t.Underlying().(*types.Map); !isMap {
			return true
		}
		pos := p.Fset.Position(rs.Pos())
		site := fmt.Sprintf("%s:%d", relFile, pos.Line)
		if rs.Key == nil {
			// `for range m` — order unobservable
			return true
		}
		if rs.Tok != token.DEFINE {
			fatalf("%s: range over map with '=' is not supported by the instrumenter", site)
		}
		if _, labeled := c.Parent().(*ast.LabeledStmt); labeled {
			fatalf("%s: labeled range over map is not supported by the instrumenter", site)
		}
		keyName := "verifKey__"
		if id, ok := rs.Key.(*ast.Ident); ok && id.Name != "_" {
			keyName = id.Name
		}
		mName := "verifMap__"
		body := []ast.Stmt{}
		if v, ok := rs.Value.(*ast.Ident); ok && v.Name != "_" {
			body = append(body,
				&ast.AssignStmt{
					Lhs: []ast.Expr{ast.NewIdent(v.Name), ast.NewIdent("verifOk__")},
					Tok: token.DEFINE,
					Rhs: []ast.Expr{&ast.IndexExpr{X: ast.NewIdent(mName), Index: ast.NewIdent(keyName)}},
				},
				&ast.IfStmt{
					Cond: &ast.UnaryExpr{Op: token.NOT, X: ast.NewIdent("verifOk__")},
					Body: &ast.BlockStmt{List: []ast.Stmt{&ast.BranchStmt{Tok: token.CONTINUE}}},
				})
		} else if rs.Value != nil {
			if v, ok := rs.Value.(*ast.Ident); !ok || v.Name != "_" {
				fatalf("%s: unsupported range value expression", site)
			}
		}
		body = append(body, rs.Body.List...)
		loop := &ast.RangeStmt{
			Key:   ast.NewIdent("_"),
			Value: ast.NewIdent(keyName),
			Tok:   token.DEFINE,
			X:     &ast.CallExpr{Fun: sel("verifrt", "Keys"), Args: []ast.Expr{strLit(site), ast.NewIdent(mName)}},
			Body:  &ast.BlockStmt{List: body},
		}
		blk := &ast.BlockStmt{List: []ast.Stmt{
			&ast.AssignStmt{Lhs: []ast.Expr{ast.NewIdent(mName)}, Tok: token.DEFINE, Rhs: []ast.Expr{rs.X}},
			loop,
		}}
		c.Replace(blk)
		st.MapSites = append(st.MapSites, site)
		n++
		return true
	})
	return n
}

// insertTicks prepends verifrt.Tick() to every loop body.
func insertTicks(f *ast.File) int {
	n := 0
	ast.Inspect(f, func(nd ast.Node) bool {
		switch s := nd.(type) {
		case *ast.ForStmt:
			s.Body.List = append([]ast.Stmt{callStmt("Tick")}, s.Body.List...)
			n++
		case *ast.RangeStmt:
			s.Body.List = append([]ast.Stmt{callStmt("Tick")}, s.Body.List...)
			n++
		}
		return true
	})
	return n
}

// guardEval inserts Enter/Leave at the top of func Eval.
func guardEval(f *ast.File) bool {
	for _, d := range f.Decls {
		fd, ok := d.(*ast.FuncDecl)
		if !ok || fd.Recv != nil || fd.Name.Name != "Eval" || fd.Body == nil {
			continue
		}
		pre := []ast.Stmt{
			callStmt("Enter"),
			&ast.DeferStmt{Call: &ast.CallExpr{Fun: sel("verifrt", "Leave")}},
		}
		fd.Body.List = append(pre, fd.Body.List...)
		return true
	}
	return false
}

// insertAccess inserts verifrt.Access(name, write) before every statement (in a statement list)
// whose own expressions mention one of the package-level tables.
func insertAccess(p *packages.Package, f *ast.File, relFile string, tables map[types.Object]string, st *stats) int {
	n := 0
	type acc struct {
		name  string
		write bool
	}
	scan := func(s ast.Stmt) []acc {
		found := map[string]bool{} // name -> write
		writes := map[*ast.Ident]bool{}
		mark := func(e ast.Expr) {
			if ix, ok := e.(*ast.IndexExpr); ok {
				if id, ok := ix.X.(*ast.Ident); ok {
					writes[id] = true
				}
			}
			if id, ok := e.(*ast.Ident); ok {
				writes[id] = true
			}
		}
		ast.Inspect(s, func(nd ast.Node) bool {
			switch x := nd.(type) {
			case *ast.BlockStmt, *ast.FuncLit:
				if nd != ast.Node(s) {
					return false
				}
			case *ast.AssignStmt:
				for _, l := range x.Lhs {
					mark(l)
				}
			case *ast.IncDecStmt:
				mark(x.X)
			case *ast.CallExpr:
				if id, ok := x.Fun.(*ast.Ident); ok && (id.Name == "delete" || id.Name == "clear") && len(x.Args) > 0 {
					mark(x.Args[0])
				}
			case *ast.Ident:
				if obj := p.TypesInfo.Uses[x]; obj != nil {
					if name, ok := tables[obj]; ok {
						if writes[x] {
							found[name] = true
						} else if _, seen := found[name]; !seen {
							found[name] = false
						}
					}
				}
			}
			return true
		})
		var res []acc
		names := []string{}
		for k := range found {
			names = append(names, k)
		}
		sort.Strings(names)
		for _, k := range names {
			res = append(res, acc{k, found[k]})
		}
		return res
	}
	var doList func(list []ast.Stmt) []ast.Stmt
	var walk func(nd ast.Node)
	doList = func(list []ast.Stmt) []ast.Stmt {
		var outl []ast.Stmt
		for _, s := range list {
			if _, isBlock := s.(*ast.BlockStmt); !isBlock {
				for _, a := range scan(s) {
					w := "false"
					if a.write {
						w = "true"
					}
					outl = append(outl, callStmt("Access", strLit(a.name), ast.NewIdent(w)))
					pos := p.Fset.Position(s.Pos())
					st.AccessSites = append(st.AccessSites, fmt.Sprintf("%s:%d %s write=%v", relFile, pos.Line, a.name, a.write))
					n++
				}
			}
			walk(s)
			outl = append(outl, s)
		}
		return outl
	}
	walk = func(nd ast.Node) {
		ast.Inspect(nd, func(x ast.Node) bool {
			switch b := x.(type) {
			case *ast.BlockStmt:
				b.List = doList(b.List)
				return false
			case *ast.CaseClause:
				b.Body = doList(b.Body)
				return false
			case *ast.CommClause:
				b.Body = doList(b.Body)
				return false
			}
			return true
		})
	}
	for _, d := range f.Decls {
		if fd, ok := d.(*ast.FuncDecl); ok && fd.Body != nil {
			fd.Body.List = doList(fd.Body.List)
		}
	}
	return n
}

// collectMutableGlobals finds package-level variables of the repository's packages that some function other
// than init assigns (x = v, x[i] = v, x.f = v, x++, x = append(x, ...)): interpreter-wide mutable state.
// The two symbol tables of package object are handled by insertAccess (as scheduling points) and left out.
func collectMutableGlobals(pkgs []*packages.Package) map[types.Object]string {
	res := map[types.Object]string{}
	for _, p := range pkgs {
		if !strings.HasPrefix(p.PkgPath, modPath) {
			continue
		}
		rel := strings.TrimPrefix(strings.TrimPrefix(p.PkgPath, modPath), "/")
		for i, f := range p.Syntax {
			if strings.HasSuffix(p.CompiledGoFiles[i], "_test.go") {
				continue
			}
			for _, d := range f.Decls {
				fd, ok := d.(*ast.FuncDecl)
				if !ok || fd.Body == nil || (fd.Name.Name == "init" && fd.Recv == nil) {
					continue
				}
				ast.Inspect(fd.Body, func(nd ast.Node) bool {
					var lhs []ast.Expr
					switch x := nd.(type) {
					case *ast.AssignStmt:
						if x.Tok != token.DEFINE {
							lhs = x.Lhs
						}
					case *ast.IncDecStmt:
						lhs = []ast.Expr{x.X}
					}
					for _, l := range lhs {
						for {
							switch y := l.(type) {
							case *ast.ParenExpr:
								l = y.X
								continue
							case *ast.IndexExpr:
								l = y.X
								continue
							case *ast.StarExpr:
								l = y.X
								continue
							case *ast.SelectorExpr:
								if _, isPkg := p.TypesInfo.Uses[identOf(y.X)].(*types.PkgName); isPkg {
									l = y.Sel
								} else {
									l = y.X
								}
								continue
							}
							break
						}
						id, ok := l.(*ast.Ident)
						if !ok {
							continue
						}
						v, ok := p.TypesInfo.Uses[id].(*types.Var)
						if !ok || v.Pkg() == nil || !strings.HasPrefix(v.Pkg().Path(), modPath) || v.Parent() != v.Pkg().Scope() {
							continue
						}
						name := strings.TrimPrefix(strings.TrimPrefix(v.Pkg().Path(), modPath), "/") + "." + v.Name()
						if name == "object.symHashTable" || name == "object.strTable" {
							continue
						}
						_ = rel
						res[v] = name
					}
					return true
				})
			}
		}
	}
	return res
}

func identOf(e ast.Expr) *ast.Ident {
	id, _ := e.(*ast.Ident)
	return id
}

// insertAccessNamed inserts verifrt.Global(name, write) before every statement whose own expressions mention
// one of the given package-level variables (write if the statement assigns it or one of its elements).
func insertAccessNamed(p *packages.Package, f *ast.File, relFile string, vars map[types.Object]string, st *stats) int {
	n := 0
	type acc struct {
		name  string
		write bool
	}
	scan := func(s ast.Stmt) []acc {
		found := map[string]bool{}
		writes := map[*ast.Ident]bool{}
		var mark func(e ast.Expr)
		mark = func(e ast.Expr) {
			switch y := e.(type) {
			case *ast.ParenExpr:
				mark(y.X)
			case *ast.IndexExpr:
				mark(y.X)
			case *ast.StarExpr:
				mark(y.X)
			case *ast.SelectorExpr:
				mark(y.X)
				mark(y.Sel)
			case *ast.Ident:
				writes[y] = true
			}
		}
		ast.Inspect(s, func(nd ast.Node) bool {
			switch x := nd.(type) {
			case *ast.BlockStmt, *ast.FuncLit:
				if nd != ast.Node(s) {
					return false
				}
			case *ast.CaseClause, *ast.CommClause:
				return false
			case *ast.AssignStmt:
				if x.Tok != token.DEFINE {
					for _, l := range x.Lhs {
						mark(l)
					}
				}
			case *ast.IncDecStmt:
				mark(x.X)
			case *ast.Ident:
				if obj := p.TypesInfo.Uses[x]; obj != nil {
					if name, ok := vars[obj]; ok {
						if writes[x] {
							found[name] = true
						} else if _, seen := found[name]; !seen {
							found[name] = false
						}
					}
				}
			}
			return true
		})
		var res []acc
		names := []string{}
		for k := range found {
			names = append(names, k)
		}
		sort.Strings(names)
		for _, k := range names {
			res = append(res, acc{k, found[k]})
		}
		return res
	}
	var doList func(list []ast.Stmt) []ast.Stmt
	var walk func(nd ast.Node)
	doList = func(list []ast.Stmt) []ast.Stmt {
		var outl []ast.Stmt
		for _, s := range list {
			switch s.(type) {
			case *ast.BlockStmt, *ast.LabeledStmt:
			default:
				for _, a := range scan(s) {
					w := "false"
					if a.write {
						w = "true"
					}
					outl = append(outl, callStmt("Global", strLit(a.name), ast.NewIdent(w)))
					n++
				}
			}
			walk(s)
			outl = append(outl, s)
		}
		return outl
	}
	walk = func(nd ast.Node) {
		ast.Inspect(nd, func(x ast.Node) bool {
			switch b := x.(type) {
			case *ast.BlockStmt:
				b.List = doList(b.List)
				return false
			case *ast.CaseClause:
				b.Body = doList(b.Body)
				return false
			case *ast.CommClause:
				b.Body = doList(b.Body)
				return false
			}
			return true
		})
	}
	for _, d := range f.Decls {
		if fd, ok := d.(*ast.FuncDecl); ok && fd.Body != nil && !(fd.Name.Name == "init" && fd.Recv == nil) {
			fd.Body.List = doList(fd.Body.List)
		}
	}
	st.GlobalSites += n
	return n
}

// objField resolves a selector to "Type.field" if it selects a field of a struct type declared in a package of the
// repository through a pointer-typed plain identifier (so that passing the identifier has no side effect).
func objField(p *packages.Package, sel *ast.SelectorExpr) (string, *ast.Ident, bool) {
	id, ok := sel.X.(*ast.Ident)
	if !ok {
		return "", nil, false
	}
	sl := p.TypesInfo.Selections[sel]
	if sl == nil || sl.Kind() != types.FieldVal || len(sl.Index()) != 1 {
		return "", nil, false
	}
	t := p.TypesInfo.TypeOf(id)
	if t == nil {
		return "", nil, false
	}
	pt, ok := t.(*types.Pointer)
	if !ok {
		return "", nil, false
	}
	named, ok := pt.Elem().(*types.Named)
	if !ok || named.Obj().Pkg() == nil || !strings.HasPrefix(named.Obj().Pkg().Path(), modPath+"/") {
		return "", nil, false
	}
	if _, isStruct := named.Underlying().(*types.Struct); !isStruct {
		return "", nil, false
	}
	if named.Obj().Pkg().Path() != modPath+"/object" {
		// structs of the other packages of the repository (e.g. the evaluator's function wrapper) carry their package name
		return named.Obj().Pkg().Name() + "." + named.Obj().Name() + "." + sel.Sel.Name, id, true
	}
	return named.Obj().Name() + "." + sel.Sel.Name, id, true
}

// lhsField returns the field selector written by an assignment target: x.f, x.f[i], (*x.f)[i], *x.f.
func lhsField(e ast.Expr) *ast.SelectorExpr {
	for {
		switch x := e.(type) {
		case *ast.ParenExpr:
			e = x.X
		case *ast.IndexExpr:
			e = x.X
		case *ast.StarExpr:
			e = x.X
		case *ast.SelectorExpr:
			return x
		default:
			return nil
		}
	}
}

// collectMutableFields finds the fields (of object-package structs) that are assigned, or whose map/slice
// contents are assigned, by some statement of the repository.
func collectMutableFields(pkgs []*packages.Package) map[string]bool {
	res := map[string]bool{}
	for _, p := range pkgs {
		if !strings.HasPrefix(p.PkgPath, modPath) {
			continue
		}
		for i, f := range p.Syntax {
			if strings.HasSuffix(p.CompiledGoFiles[i], "_test.go") {
				continue
			}
			ast.Inspect(f, func(nd ast.Node) bool {
				var lhs []ast.Expr
				switch x := nd.(type) {
				case *ast.AssignStmt:
					if x.Tok != token.DEFINE {
						lhs = x.Lhs
					}
				case *ast.IncDecStmt:
					lhs = []ast.Expr{x.X}
				}
				if ce, ok := nd.(*ast.CallExpr); ok {
					if id, ok := ce.Fun.(*ast.Ident); ok && id.Name == "append" && len(ce.Args) > 0 {
						lhs = append(lhs, ce.Args[0])
					}
				}
				for _, l := range lhs {
					if sel := lhsField(l); sel != nil {
						if name, _, ok := objField(p, sel); ok {
							res[name] = true
						}
					}
				}
				return true
			})
		}
	}
	return res
}

// insertFieldAccess inserts verifrt.Field(x, "T.f", write) before every statement whose own expressions
// read or write such a field through an identifier declared before the statement.
func insertFieldAccess(p *packages.Package, f *ast.File, relFile string, mutable map[string]bool, st *stats) int {
	n := 0
	type acc struct {
		id    *ast.Ident
		name  string
		write bool
	}
	scan := func(s ast.Stmt) []acc {
		var res []acc
		seen := map[string]int{}
		written := map[*ast.SelectorExpr]bool{}
		add := func(sel *ast.SelectorExpr, write bool) {
			name, id, ok := objField(p, sel)
			if !ok || !mutable[name] {
				return
			}
			obj := p.TypesInfo.Uses[id]
			if obj == nil || obj.Pos() >= s.Pos() {
				return // declared by the statement itself (or unknown): cannot be passed before it
			}
			k := id.Name + "." + name
			if i, dup := seen[k]; dup {
				if write {
					res[i].write = true
				}
				return
			}
			seen[k] = len(res)
			res = append(res, acc{id, name, write})
		}
		ast.Inspect(s, func(nd ast.Node) bool {
			switch x := nd.(type) {
			case *ast.BlockStmt, *ast.FuncLit:
				if nd != ast.Node(s) {
					return false
				}
			case *ast.CaseClause, *ast.CommClause:
				return false
			case *ast.AssignStmt:
				if x.Tok != token.DEFINE {
					for _, l := range x.Lhs {
						if sel := lhsField(l); sel != nil {
							written[sel] = true
						}
					}
				}
			case *ast.IncDecStmt:
				if sel := lhsField(x.X); sel != nil {
					written[sel] = true
				}
			case *ast.CallExpr:
				// append(x.f, ...) / append(*x.f, ...) may write into the backing array that x.f shares
				if id, ok := x.Fun.(*ast.Ident); ok && id.Name == "append" && len(x.Args) > 0 {
					if sel := lhsField(x.Args[0]); sel != nil {
						written[sel] = true
					}
				}
			case *ast.SelectorExpr:
				add(x, written[x])
			}
			return true
		})
		return res
	}
	var doList func(list []ast.Stmt) []ast.Stmt
	var walk func(nd ast.Node)
	doList = func(list []ast.Stmt) []ast.Stmt {
		var outl []ast.Stmt
		for _, s := range list {
			switch s.(type) {
			case *ast.BlockStmt, *ast.LabeledStmt:
			default:
				for _, a := range scan(s) {
					w := "false"
					if a.write {
						w = "true"
					}
					outl = append(outl, callStmt("Field", ast.NewIdent(a.id.Name), strLit(a.name), ast.NewIdent(w)))
					n++
				}
			}
			walk(s)
			outl = append(outl, s)
		}
		return outl
	}
	walk = func(nd ast.Node) {
		ast.Inspect(nd, func(x ast.Node) bool {
			switch b := x.(type) {
			case *ast.BlockStmt:
				b.List = doList(b.List)
				return false
			case *ast.CaseClause:
				b.Body = doList(b.Body)
				return false
			case *ast.CommClause:
				b.Body = doList(b.Body)
				return false
			}
			return true
		})
	}
	for _, d := range f.Decls {
		if fd, ok := d.(*ast.FuncDecl); ok && fd.Body != nil {
			fd.Body.List = doList(fd.Body.List)
		}
	}
	st.FieldSites += n
	return n
}

// insertCapturedAccess inserts verifrt.Field(&v, "captured <file>:<v>", write) before every statement inside a func
// literal whose own expressions mention a local variable v that is declared OUTSIDE that literal and that some func
// literal (not containing the declaration) assigns. Such a variable is state kept by a closure: when the closure is
// called from several evaluations (an http handler, a memoising helper) they share it.
func insertCapturedAccess(p *packages.Package, f *ast.File, relFile string, st *stats) int {
	var lits []*ast.FuncLit
	ast.Inspect(f, func(nd ast.Node) bool {
		if fl, ok := nd.(*ast.FuncLit); ok {
			lits = append(lits, fl)
		}
		return true
	})
	if len(lits) == 0 {
		return 0
	}
	inside := func(pos token.Pos, fl *ast.FuncLit) bool { return fl.Pos() <= pos && pos < fl.End() }
	localVar := func(id *ast.Ident) *types.Var {
		obj := p.TypesInfo.Uses[id]
		v, ok := obj.(*types.Var)
		if !ok || v.IsField() || v.Pkg() == nil || v.Parent() == nil || v.Parent() == v.Pkg().Scope() || v.Parent() == types.Universe {
			return nil
		}
		return v
	}
	rootIdent := func(e ast.Expr) *ast.Ident {
		for {
			switch x := e.(type) {
			case *ast.ParenExpr:
				e = x.X
			case *ast.Ident:
				return x
			default:
				return nil
			}
		}
	}
	captured := map[*types.Var]bool{}
	for _, fl := range lits {
		ast.Inspect(fl.Body, func(nd ast.Node) bool {
			var lhs []ast.Expr
			switch x := nd.(type) {
			case *ast.AssignStmt:
				if x.Tok != token.DEFINE {
					lhs = x.Lhs
				}
			case *ast.IncDecStmt:
				lhs = []ast.Expr{x.X}
			}
			for _, l := range lhs {
				if id := rootIdent(l); id != nil {
					if v := localVar(id); v != nil && !inside(v.Pos(), fl) {
						captured[v] = true
					}
				}
			}
			return true
		})
	}
	if len(captured) == 0 {
		return 0
	}
	for v := range captured {
		st.Captured = append(st.Captured, relFile+":"+v.Name())
	}
	sort.Strings(st.Captured)
	n := 0
	type acc struct {
		v     *types.Var
		write bool
	}
	scan := func(s ast.Stmt) []acc {
		var encl []*ast.FuncLit
		for _, fl := range lits {
			if inside(s.Pos(), fl) {
				encl = append(encl, fl)
			}
		}
		if len(encl) == 0 {
			return nil
		}
		found := map[*types.Var]bool{}
		var order []*types.Var
		writes := map[*ast.Ident]bool{}
		ast.Inspect(s, func(nd ast.Node) bool {
			switch x := nd.(type) {
			case *ast.BlockStmt, *ast.FuncLit:
				if nd != ast.Node(s) {
					return false
				}
			case *ast.CaseClause, *ast.CommClause:
				return false
			case *ast.AssignStmt:
				if x.Tok != token.DEFINE {
					for _, l := range x.Lhs {
						if id := rootIdent(l); id != nil {
							writes[id] = true
						}
					}
				}
			case *ast.IncDecStmt:
				if id := rootIdent(x.X); id != nil {
					writes[id] = true
				}
			case *ast.Ident:
				v := localVar(x)
				if v == nil || !captured[v] || v.Pos() >= s.Pos() {
					return true
				}
				outside := false
				for _, fl := range encl {
					if !inside(v.Pos(), fl) {
						outside = true
					}
				}
				if !outside {
					return true
				}
				if _, seen := found[v]; !seen {
					order = append(order, v)
					found[v] = false
				}
				if writes[x] {
					found[v] = true
				}
			}
			return true
		})
		var res []acc
		for _, v := range order {
			res = append(res, acc{v, found[v]})
		}
		return res
	}
	var doList func(list []ast.Stmt) []ast.Stmt
	var walk func(nd ast.Node)
	doList = func(list []ast.Stmt) []ast.Stmt {
		var outl []ast.Stmt
		for _, s := range list {
			switch s.(type) {
			case *ast.BlockStmt, *ast.LabeledStmt:
			default:
				for _, a := range scan(s) {
					w := "false"
					if a.write {
						w = "true"
					}
					addr := &ast.UnaryExpr{Op: token.AND, X: ast.NewIdent(a.v.Name())}
					outl = append(outl, &ast.ExprStmt{X: &ast.CallExpr{Fun: sel("verifrt", "Field"), Args: []ast.Expr{addr, strLit("captured " + relFile + ":" + a.v.Name()), ast.NewIdent(w)}}})
					n++
				}
			}
			walk(s)
			outl = append(outl, s)
		}
		return outl
	}
	walk = func(nd ast.Node) {
		ast.Inspect(nd, func(x ast.Node) bool {
			switch b := x.(type) {
			case *ast.BlockStmt:
				b.List = doList(b.List)
				return false
			case *ast.CaseClause:
				b.Body = doList(b.Body)
				return false
			case *ast.CommClause:
				b.Body = doList(b.Body)
				return false
			}
			return true
		})
	}
	for _, d := range f.Decls {
		if fd, ok := d.(*ast.FuncDecl); ok && fd.Body != nil {
			fd.Body.List = doList(fd.Body.List)
		}
	}
	st.CapSites += n
	return n
}

// httpExportSrc exposes the echo handler function of a handler object, so that a harness can call the real
// request handler without a server (the names are checked; a tree without them gets a stub).
func httpExportSrc(p *packages.Package) string {
	ok := false
	if o, isT := p.Types.Scope().Lookup("panHandler").(*types.TypeName); isT {
		if stt, isS := o.Type().Underlying().(*types.Struct); isS {
			for i := 0; i < stt.NumFields(); i++ {
				if stt.Field(i).Name() == "handler" && strings.HasSuffix(stt.Field(i).Type().String(), "echo/v4.HandlerFunc") {
					ok = true
				}
			}
		}
	}
	if ok {
		return `package builtin

import (
	"github.com/labstack/echo/v4"

	"github.com/Syuparn/pangaea/object"
)

// added by the verification overlay.
const VerifHasHandler = true

// VerifHandlerFunc returns the request handler held by a handler object.
func VerifHandlerFunc(o object.PanObject) (echo.HandlerFunc, bool) {
	h, ok := o.(*panHandler)
	if !ok {
		return nil, false
	}
	return h.handler, true
}
`
	}
	return `package builtin

import (
	"github.com/labstack/echo/v4"

	"github.com/Syuparn/pangaea/object"
)

const VerifHasHandler = false

func VerifHandlerFunc(o object.PanObject) (echo.HandlerFunc, bool) { return nil, false }
`
}

const astOrderSrc = `package ast

import (
	"fmt"

	verifrt "github.com/Syuparn/pangaea/verifrt"
)

// added by the verification overlay: deterministic (source-position) order for *Ident map keys.
func init() {
	verifrt.PtrOrder = func(k interface{}) (string, bool) {
		if id, ok := k.(*Ident); ok {
			if id == nil {
				return "", true
			}
			if id.Src == nil {
				return fmt.Sprintf("~%s", id.Value), true
			}
			return fmt.Sprintf("%09d:%09d:%s", id.Src.Pos.Line, id.Src.Pos.Column, id.Value), true
		}
		return "", false
	}
}
`

func findPkg(pkgs []*packages.Package, rel string) *packages.Package {
	for _, p := range pkgs {
		if p.PkgPath == modPath+"/"+rel {
			return p
		}
	}
	return nil
}

func objectExportSrc(pkgs []*packages.Package) string {
	p := findPkg(pkgs, "object")
	has := func(n string) bool { return p != nil && p.Types.Scope().Lookup(n) != nil }
	if has("symHashTable") && has("strTable") && has("lock") {
		return `package object

// added by the verification overlay.

// VerifHasSymTables reports whether the symbol tables could be exported.
const VerifHasSymTables = true

// VerifSymTableSnapshot copies the two symbol tables.
func VerifSymTableSnapshot() (map[string]SymHash, map[SymHash]*PanStr) {
	a := make(map[string]SymHash, len(symHashTable))
	for k, v := range symHashTable {
		a[k] = v
	}
	b := make(map[SymHash]*PanStr, len(strTable))
	for k, v := range strTable {
		b[k] = v
	}
	return a, b
}

// VerifResetSymTables restores the two symbol tables from a snapshot.
func VerifResetSymTables(a map[string]SymHash, b map[SymHash]*PanStr) {
	for k := range symHashTable {
		if _, ok := a[k]; !ok {
			delete(symHashTable, k)
		}
	}
	for k, v := range a {
		symHashTable[k] = v
	}
	for k := range strTable {
		if _, ok := b[k]; !ok {
			delete(strTable, k)
		}
	}
	for k, v := range b {
		strTable[k] = v
	}
}
`
	}
	return `package object

// added by the verification overlay (symbol tables not found under their expected names).
const VerifHasSymTables = false

func VerifSymTableSnapshot() (map[string]SymHash, map[SymHash]*PanStr) { return nil, nil }
func VerifResetSymTables(a map[string]SymHash, b map[SymHash]*PanStr) {}
`
}

func diExportSrc(pkgs []*packages.Package) string {
	p := findPkg(pkgs, "di")
	if p != nil {
		if o := p.Types.Scope().Lookup("readNativeCode"); o != nil {
			if sig, ok := o.Type().(*types.Signature); ok && sig.Params().Len() == 2 && sig.Results().Len() == 2 {
				return `package di

import "github.com/Syuparn/pangaea/object"

// added by the verification overlay.
const VerifHasReadNative = true

// VerifReadNativeCode exposes the start-up loader body run by each start-up goroutine.
func VerifReadNativeCode(name string, env *object.Env) (*map[object.SymHash]object.Pair, error) {
	return readNativeCode(name, env)
}
`
			}
		}
	}
	return `package di

import "github.com/Syuparn/pangaea/object"

const VerifHasReadNative = false

func VerifReadNativeCode(name string, env *object.Env) (*map[object.SymHash]object.Pair, error) {
	return nil, nil
}
`
}
