// panmc: bounded exhaustive exploration checks for Pangaea properties C01..C20.
package main

import (
	"os"

	"panmc/internal/core"

	_ "panmc/checks/c10"
)

func main() { os.Exit(core.Main(os.Args[1:])) }
