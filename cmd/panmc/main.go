// panmc: bounded exhaustive exploration checks for Pangaea properties C01..C20.
package main

import (
	"fmt"
	"io"
	"os"

	"panmc/internal/core"
	"panmc/internal/panrun"

	_ "panmc/checks/c01"
	_ "panmc/checks/c02"
	_ "panmc/checks/c03"
	_ "panmc/checks/c04"
	_ "panmc/checks/c05"
	_ "panmc/checks/c06"
	_ "panmc/checks/c07"
	_ "panmc/checks/c08"
	_ "panmc/checks/c09"
	_ "panmc/checks/c10"
	_ "panmc/checks/c11"
	_ "panmc/checks/c12"
	_ "panmc/checks/c13"
	_ "panmc/checks/c14"
	_ "panmc/checks/c15"
	_ "panmc/checks/c16"
	_ "panmc/checks/c17"
	_ "panmc/checks/c18"
	_ "panmc/checks/c19"
	_ "panmc/checks/c20"
)

func main() {
	if len(os.Args) >= 3 && (os.Args[1] == "ast" || os.Args[1] == "eval") {
		// debugging helpers: one source per argument
		r := (*panrun.Runner)(nil)
		for _, src := range os.Args[2:] {
			if src == "-" {
				b, _ := io.ReadAll(os.Stdin)
				src = string(b)
			}
			if os.Args[1] == "ast" {
				n, o := panrun.Parse(src)
				if o != nil {
					fmt.Printf("%s\n  => %s %s%s\n", src, o.Kind, o.ErrMsg, o.Panic)
				} else {
					fmt.Printf("%s\n  => %s\n", src, n.String())
				}
				continue
			}
			if r == nil {
				r = panrun.New()
			}
			o := r.EvalSrc(src, "")
			fmt.Printf("%s\n  => %s\n", src, o.Key())
		}
		return
	}
	os.Exit(core.Main(os.Args[1:]))
}
