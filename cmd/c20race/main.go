// c20race: free-running complement of check C20 (NOT deciding). The same thread bodies as scenario
// S1/S2 run on real goroutines in a -race build; a race the explorer did not predict is a harness
// error of C20, a predicted one merely confirms it.
package main

import (
	"fmt"
	"net/http/httptest"
	"os"
	"strings"
	"sync"

	"github.com/labstack/echo/v4"

	"github.com/Syuparn/pangaea/di"
	"github.com/Syuparn/pangaea/evaluator"
	"github.com/Syuparn/pangaea/object"
	"github.com/Syuparn/pangaea/parser"
	httpbuiltin "github.com/Syuparn/pangaea/props/modules/http/builtin"
)

func main() {
	root := object.NewEnvWithConsts()
	root.InjectIO(strings.NewReader(""), os.Stderr)
	di.InjectBuiltInProps(root)
	root.InjectFrom(object.BuiltInKernelObj)
	progs := []string{
		"zz_race_%d_a := 1; zz_race_%d_b := zz_race_%d_a + 1; zz_race_%d_b",
		"\"zz_race_%d_a := 1; zz_race_%d_c := 2\".evalEnv.keys",
		"JSON.dec(`{\"zz_race_%d_a\": 1, \"zz_race_%d_d\": 2}`).keys",
	}
	var wg sync.WaitGroup
	for round := 0; round < 300; round++ {
		for g := 0; g < 6; g++ {
			wg.Add(1)
			go func(g, round int) {
				defer wg.Done()
				defer func() { recover() }()
				k := fmt.Sprintf("zz_race_key_%d", round)
				h := object.GetSymHash(k)
				object.SymHash2Str(h)
				src := strings.ReplaceAll(progs[g%len(progs)], "%d", fmt.Sprint(round))
				node, err := parser.Parse(parser.NewReader(strings.NewReader(src), "race"))
				if err != nil {
					return
				}
				evaluator.Eval(node, object.NewEnclosedEnv(root))
			}(g, round)
		}
		wg.Wait()
	}
	// S4/S5 bodies: a main script that goes on binding names while handlers defined in its scope run; the real request
	// handlers of the http module called from several goroutines (no server)
	main := object.NewEnclosedEnv(root)
	evalIn := func(env *object.Env, src string) object.PanObject {
		node, err := parser.Parse(parser.NewReader(strings.NewReader(src), "race"))
		if err != nil {
			return nil
		}
		return evaluator.Eval(node, env)
	}
	evalIn(main, "invite!(\"http\")\nzz_users := [{id: \"1\", name: \"Taro\"}]\nzz_g0 := 10\nzz_handler := {|req| [zz_g0, req]}\n"+
		"zz_h1 := S.get(\"/users/:id\") {|req| zz_users.find {|u| u.id == req.params.id} || Response.new(status: 404, body: \"not found\")}\n"+
		"zz_h6 := S.get(\"/corr\") {|req| Response.new(body: req.headers.keys.S, headers: {**req.headers@({}){|k, v| [k, v[0]]}})}\n")
	var hs []echo.HandlerFunc
	for _, n := range []string{"zz_h1", "zz_h6"} {
		if v, ok := main.Get(object.GetSymHash(n)); ok {
			if h, ok := httpbuiltin.VerifHandlerFunc(v); ok {
				hs = append(hs, h)
			}
		}
	}
	for round := 0; round < 200; round++ {
		for g := 0; g < 6; g++ {
			wg.Add(1)
			go func(g, round int) {
				defer wg.Done()
				defer func() { recover() }()
				switch {
				case g == 0:
					evalIn(main, fmt.Sprintf("zz_g0 := %d; zz_new_%d := zz_g0 + 1", round, round))
				case g == 1:
					evalIn(object.NewEnclosedEnv(main), "zz_handler(1)")
				case len(hs) == 2:
					e := echo.New()
					req := httptest.NewRequest("GET", fmt.Sprintf("/users/%d?zzq_%d=1", g%2+1, round), nil)
					req.Header.Set(fmt.Sprintf("X-Zz-Corr-%d", round), "v")
					c := e.NewContext(req, httptest.NewRecorder())
					c.SetParamNames("id")
					c.SetParamValues(fmt.Sprint(g%2 + 1))
					hs[g%2](c)
				}
			}(g, round)
		}
		wg.Wait()
	}
	fmt.Println("c20race: done")
}
