// c20race: free-running complement of check C20 (NOT deciding). The same thread bodies as scenario
// S1/S2 run on real goroutines in a -race build; a race the explorer did not predict is a harness
// error of C20, a predicted one merely confirms it.
package main

import (
	"fmt"
	"os"
	"strings"
	"sync"

	"github.com/Syuparn/pangaea/di"
	"github.com/Syuparn/pangaea/evaluator"
	"github.com/Syuparn/pangaea/object"
	"github.com/Syuparn/pangaea/parser"
)

func main() {
	root := object.NewEnvWithConsts()
	root.InjectIO(strings.NewReader(""), os.Stderr)
	di.InjectBuiltInProps(root)
	root.InjectFrom(object.BuiltInKernelObj)
	progs := []string{
		"zz_race_%d_a := 1; zz_race_%d_b := zz_race_%d_a + 1; zz_race_%d_b",
		"\"zz_race_%d_a := 1; zz_race_%d_c := 2\".evalEnv.keys",
		"JSON.dec(`{\"zz_race_%d_a\": 1, \"zz_race_%d_d\": 2}`).keys",
	}
	var wg sync.WaitGroup
	for round := 0; round < 300; round++ {
		for g := 0; g < 6; g++ {
			wg.Add(1)
			go func(g, round int) {
				defer wg.Done()
				defer func() { recover() }()
				k := fmt.Sprintf("zz_race_key_%d", round)
				h := object.GetSymHash(k)
				object.SymHash2Str(h)
				src := strings.ReplaceAll(progs[g%len(progs)], "%d", fmt.Sprint(round))
				node, err := parser.Parse(parser.NewReader(strings.NewReader(src), "race"))
				if err != nil {
					return
				}
				evaluator.Eval(node, object.NewEnclosedEnv(root))
			}(g, round)
		}
		wg.Wait()
	}
	fmt.Println("c20race: done")
}
