// Package vsync replaces "sync" in the repository files that import it (overlay build only).
// Outside a scheduler session every type is the real sync type; inside one, lock operations are
// scheduling points of the controlled scheduler in verifrt.
package vsync

import (
	"sync"
	"sync/atomic"

	verifrt "github.com/Syuparn/pangaea/verifrt"
)

// RWMutex mirrors sync.RWMutex.
type RWMutex struct {
	mu   sync.RWMutex
	self atomic.Pointer[RWMutex] // address at first use: a lock must not be copied after first use
}

// used notes the first use and reports a value that was copied after it (the copy carries the lock state of the
// moment of the copy - a reader that does not exist, a writer that will never unlock - which no schedule of the
// cooperative scheduler can show, because the copy is a new lock to it).
func (m *RWMutex) used() {
	if m.self.CompareAndSwap(nil, m) {
		return
	}
	if m.self.Load() != m {
		verifrt.ReportMisuse("a sync.RWMutex value was copied after its first use")
		m.self.Store(m)
	}
}

func (m *RWMutex) Lock() {
	m.used()
	if s := verifrt.CurrentSession(); s != nil {
		s.Acquire(m, true)
		return
	}
	m.mu.Lock()
}
func (m *RWMutex) Unlock() {
	m.used()
	if s := verifrt.CurrentSession(); s != nil {
		s.Release(m, true)
		return
	}
	m.mu.Unlock()
}
func (m *RWMutex) RLock() {
	m.used()
	if s := verifrt.CurrentSession(); s != nil {
		s.Acquire(m, false)
		return
	}
	m.mu.RLock()
}
func (m *RWMutex) RUnlock() {
	m.used()
	if s := verifrt.CurrentSession(); s != nil {
		s.Release(m, false)
		return
	}
	m.mu.RUnlock()
}

// RLocker mirrors sync.RWMutex.RLocker.
func (m *RWMutex) RLocker() sync.Locker { return (*rlocker)(m) }

type rlocker RWMutex

func (r *rlocker) Lock()   { (*RWMutex)(r).RLock() }
func (r *rlocker) Unlock() { (*RWMutex)(r).RUnlock() }

// Mutex mirrors sync.Mutex.
type Mutex struct {
	mu   sync.Mutex
	self atomic.Pointer[Mutex]
}

func (m *Mutex) used() {
	if m.self.CompareAndSwap(nil, m) {
		return
	}
	if m.self.Load() != m {
		verifrt.ReportMisuse("a sync.Mutex value was copied after its first use")
		m.self.Store(m)
	}
}

func (m *Mutex) Lock() {
	m.used()
	if s := verifrt.CurrentSession(); s != nil {
		s.Acquire(m, true)
		return
	}
	m.mu.Lock()
}
func (m *Mutex) Unlock() {
	m.used()
	if s := verifrt.CurrentSession(); s != nil {
		s.Release(m, true)
		return
	}
	m.mu.Unlock()
}

// The remaining sync API is passed through unchanged (no repository code uses it under a
// scheduler session today; if it starts to, the types below keep the code compiling and the
// session treats them as opaque).
type (
	WaitGroup = sync.WaitGroup
	Once      = sync.Once
	Map       = sync.Map
	Pool      = sync.Pool
	Cond      = sync.Cond
	Locker    = sync.Locker
)

// NewCond mirrors sync.NewCond.
func NewCond(l sync.Locker) *sync.Cond { return sync.NewCond(l) }
