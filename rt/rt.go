// Package verifrt is the runtime of the verification seams. It is NOT part of the
// repository: scripts/run_check.sh maps it into the repository module as
// github.com/Syuparn/pangaea/verifrt through `go build -overlay`, and the
// instrumenter (mkoverlay) inserts calls to it into rewritten copies of the
// repository sources. It must import nothing from the repository.
package verifrt

import (
	"fmt"
	"reflect"
	"sort"
	"sync"
)

// ---------------------------------------------------------------- fuel / depth guard

// FuelExhausted is the sentinel panic raised when a case exceeds its budget.
type FuelExhausted struct{ Why string }

func (f FuelExhausted) Error() string { return "verifrt: fuel exhausted: " + f.Why }

var (
	fuelActive bool
	fuel       int64
	depth      int64
	maxDepth   int64
	// FuelUsed counts ticks since StartFuel (for evidence only).
	FuelUsed int64
)

// StartFuel arms the guard for one case. Only the driver goroutine may call it.
func StartFuel(ticks, depthLimit int64) {
	fuel, depth, maxDepth, FuelUsed = ticks, 0, depthLimit, 0
	fuelActive = true
}

// StopFuel disarms the guard.
func StopFuel() { fuelActive = false }

// Enter is inserted at the top of evaluator.Eval.
func Enter() {
	if !fuelActive {
		return
	}
	depth++
	FuelUsed++
	fuel--
	if depth > maxDepth {
		fuelActive = false
		panic(FuelExhausted{"depth"})
	}
	if fuel < 0 {
		fuelActive = false
		panic(FuelExhausted{"ticks"})
	}
}

// Leave is deferred after Enter.
func Leave() {
	if !fuelActive {
		return
	}
	depth--
}

// Tick is inserted as the first statement of every loop body.
func Tick() {
	if !fuelActive {
		return
	}
	FuelUsed++
	fuel--
	if fuel < 0 {
		fuelActive = false
		panic(FuelExhausted{"ticks"})
	}
}

// ---------------------------------------------------------------- choice points

// Chooser answers a choice point: it returns a number in [0,n). nil means "always 0".
var Chooser func(site string, n int) int

// Choose is the generic choice point used by the seams.
func Choose(site string, n int) int {
	if Chooser == nil || n <= 1 {
		return 0
	}
	c := Chooser(site, n)
	if c < 0 || c >= n {
		panic(fmt.Sprintf("verifrt: chooser answered %d for %d alternatives at %s", c, n, site))
	}
	return c
}

// ---------------------------------------------------------------- map-order seam

// PtrOrder lets a repository package (ast, through an overlay-added file) give pointer keys a
// deterministic order. It returns a sortable string for the key.
var PtrOrder func(k interface{}) (string, bool)

// MapSites counts how often each range-over-map site was reached with >= 2 keys
// (only while CountSites is on).
var (
	CountSites bool
	MapSites   = map[string]int{}
)

// Keys returns the keys of m in canonical order (numeric / lexical / registered pointer order),
// permuted by the explorer's answer when a chooser is installed.
func Keys[K comparable, V any](site string, m map[K]V) []K {
	if len(m) == 0 {
		return nil
	}
	keys := make([]K, 0, len(m))
	for k := range m {
		keys = append(keys, k)
	}
	if len(keys) == 1 {
		return keys
	}
	canonical(keys)
	if CountSites {
		MapSites[site]++
	}
	if Chooser != nil {
		n := len(keys)
		idx := Choose("map:"+site, NumOrders(n))
		if idx != 0 {
			ApplyOrder(keys, idx)
		}
	}
	return keys
}

// NumOrders is the number of iteration orders offered for a map of n keys:
// all n! permutations for n <= 4, otherwise a menu of 4.
func NumOrders(n int) int {
	switch {
	case n <= 1:
		return 1
	case n == 2:
		return 2
	case n == 3:
		return 6
	case n == 4:
		return 24
	}
	return 4
}

// ApplyOrder permutes keys (which are in canonical order) into order number idx.
func ApplyOrder[K any](keys []K, idx int) {
	n := len(keys)
	if n <= 4 {
		// idx-th permutation in lexicographic order (Lehmer code)
		src := append([]K(nil), keys...)
		f := 1
		for i := 2; i < n; i++ {
			f *= i
		}
		for i := 0; i < n; i++ {
			j := idx / f
			idx %= f
			keys[i] = src[j]
			src = append(src[:j], src[j+1:]...)
			if n-1-i > 0 {
				f /= (n - 1 - i)
			}
		}
		return
	}
	switch idx {
	case 1: // reversed
		for i, j := 0, n-1; i < j; i, j = i+1, j-1 {
			keys[i], keys[j] = keys[j], keys[i]
		}
	case 2: // rotated by one
		first := keys[0]
		copy(keys, keys[1:])
		keys[n-1] = first
	case 3: // first two swapped
		keys[0], keys[1] = keys[1], keys[0]
	}
}

func canonical[K comparable](keys []K) {
	switch ks := any(keys).(type) {
	case []uint64:
		sort.Slice(ks, func(i, j int) bool { return ks[i] < ks[j] })
		return
	case []string:
		sort.Strings(ks)
		return
	case []int:
		sort.Ints(ks)
		return
	}
	strs := make([]string, len(keys))
	for i, k := range keys {
		strs[i] = orderString(any(k))
	}
	sort.Sort(&byStr[K]{keys, strs})
}

type byStr[K any] struct {
	keys []K
	strs []string
}

func (b *byStr[K]) Len() int           { return len(b.keys) }
func (b *byStr[K]) Less(i, j int) bool { return b.strs[i] < b.strs[j] }
func (b *byStr[K]) Swap(i, j int) {
	b.keys[i], b.keys[j] = b.keys[j], b.keys[i]
	b.strs[i], b.strs[j] = b.strs[j], b.strs[i]
}

func orderString(k interface{}) string {
	v := reflect.ValueOf(k)
	switch v.Kind() {
	case reflect.Ptr, reflect.Interface:
		if PtrOrder != nil {
			if s, ok := PtrOrder(k); ok {
				return s
			}
		}
		panic(fmt.Sprintf("verifrt: no deterministic order registered for map key type %T", k))
	case reflect.Uint, reflect.Uint8, reflect.Uint16, reflect.Uint32, reflect.Uint64:
		return fmt.Sprintf("%020d", v.Uint())
	case reflect.Int, reflect.Int8, reflect.Int16, reflect.Int32, reflect.Int64:
		return fmt.Sprintf("%021d", v.Int()+(1<<62))
	case reflect.Struct:
		s := ""
		for i := 0; i < v.NumField(); i++ {
			s += orderString(v.Field(i).Interface()) + "\x00"
		}
		return s
	case reflect.String:
		return v.String()
	}
	return fmt.Sprintf("%v", k)
}

// ---------------------------------------------------------------- function-written package-level variables

type globalVar struct {
	name  string
	ptr   reflect.Value // pointer to the variable
	saved reflect.Value
}

var globalVars []*globalVar

// RegisterGlobal is called from generated init functions with a pointer to each package-level variable
// that some function other than init assigns.
func RegisterGlobal(name string, ptr interface{}) {
	globalVars = append(globalVars, &globalVar{name: name, ptr: reflect.ValueOf(ptr)})
}

func cloneShallow(v reflect.Value) reflect.Value {
	switch v.Kind() {
	case reflect.Slice:
		if v.IsNil() {
			return v
		}
		c := reflect.MakeSlice(v.Type(), v.Len(), v.Len())
		reflect.Copy(c, v)
		return c
	case reflect.Map:
		if v.IsNil() {
			return v
		}
		c := reflect.MakeMapWithSize(v.Type(), v.Len())
		it := v.MapRange()
		for it.Next() {
			c.SetMapIndex(it.Key(), it.Value())
		}
		return c
	}
	c := reflect.New(v.Type()).Elem()
	c.Set(v)
	return c
}

// SnapshotGlobals remembers the current value of every registered variable (containers are copied one level deep).
func SnapshotGlobals() []string {
	var names []string
	for _, g := range globalVars {
		g.saved = cloneShallow(g.ptr.Elem())
		names = append(names, g.name)
	}
	return names
}

// RestoreGlobals puts the remembered values back.
func RestoreGlobals() {
	for _, g := range globalVars {
		if g.saved.IsValid() {
			g.ptr.Elem().Set(cloneShallow(g.saved))
		}
	}
}

// ---------------------------------------------------------------- misuse of synchronisation objects

var (
	misuseMu sync.Mutex
	misuse   []string
)

// ReportMisuse records a misuse of a synchronisation object noticed by the vsync shim (a lock value copied
// after its first use): the harness reads and clears the list after every execution.
func ReportMisuse(what string) {
	misuseMu.Lock()
	defer misuseMu.Unlock()
	if len(misuse) < 100 {
		misuse = append(misuse, what)
	}
}

// TakeMisuse returns what was reported since the last call.
func TakeMisuse() []string {
	misuseMu.Lock()
	defer misuseMu.Unlock()
	m := misuse
	misuse = nil
	return m
}
