package verifrt

// Session is the controlled scheduler's view used by the vsync shim and by Access.
// The implementation lives in the harness (internal/sched) and is installed with SetSession.
type Session interface {
	// Acquire blocks the calling cooperative thread until the lock is granted.
	Acquire(m interface{}, write bool)
	Release(m interface{}, write bool)
	// Access records a read/write of a named shared table.
	Access(name string, write bool)
	// Observe records a read/write of a named location for the race detection without being a scheduling point.
	// p identifies the object (kept alive and numbered in order of first appearance, so that names do not depend on addresses).
	Observe(p interface{}, field string, write bool)
}

var session Session

// SetSession installs (or, with nil, removes) the scheduler session.
func SetSession(s Session) { session = s }

// CurrentSession returns the installed session or nil.
func CurrentSession() Session { return session }

// AccessLog, when non-nil, receives every instrumented access outside a session (used by the
// free-running complement pass).
var AccessLog func(name string, write bool)

// Access is inserted before every statement that touches a package-level map of package object.
func Access(name string, write bool) {
	if s := session; s != nil {
		s.Access(name, write)
		return
	}
	if AccessLog != nil {
		AccessLog(name, write)
	}
}

// Field is inserted before every statement that reads or writes a field of an object-package struct
// which some statement of the repository assigns after construction. Inside a scheduler session the
// access is recorded for the vector-clock race detection (it is not a scheduling point of its own);
// outside a session it does nothing.
func Field(p interface{}, field string, write bool) {
	s := CurrentSession()
	if s == nil {
		return
	}
	s.Observe(p, field, write)
}

// Global is inserted before every statement that reads or writes a package-level variable which some
// function other than init assigns. Recorded like Field (no scheduling point of its own).
func Global(name string, write bool) {
	s := CurrentSession()
	if s == nil {
		return
	}
	s.Observe(nil, name, write)
}
