#!/bin/bash
# usage: seed_ingest.sh <ID> <worktree> <name> [all]
# Confirms a seeded property-breaking change (builds, suite passes), stores it under seeded/<name>/
# and runs the property's check (or all checks) against the changed tree without touching /verif's
# evidence. Prints CAUGHT / MISSED.
set -uo pipefail
source "$(dirname "$0")/env.sh"
ID="$1"; WT="$2"; NAME="$3"; ALL="${4:-}"
DEST="$VERIF_DIR/seeded/$NAME"
mkdir -p "$DEST"
(cd "$WT" && git diff) > "$DEST/patch.diff"
if [ ! -s "$DEST/patch.diff" ]; then echo "no tracked change in $WT"; exit 2; fi
[ -d "$WT/seed_demo" ] && rm -rf "$DEST/demo" && cp -r "$WT/seed_demo" "$DEST/demo"
echo "== build + suite on the changed tree"
(cd "$WT" && go build ./... 2>&1 | head -5; go test -vet=off -count=1 $(go list ./... | grep -v http/builtin) 2>&1 | grep "^FAIL\s\|^--- FAIL\|^panic" | head -10) > "$DEST/suite.log" 2>&1
SUITE_BAD=$(wc -l < "$DEST/suite.log")
echo "suite problems (lines): $SUITE_BAD"; head -5 "$DEST/suite.log"
OUT=$(mktemp -d "${TMPDIR:-/var/tmp}/seedout.XXXXXX")
cp "$VERIF_DIR/known_findings.json" "$OUT/"
IDS="$ID"
[ "$ALL" = "all" ] && IDS="C01 C02 C03 C04 C05 C06 C07 C08 C09 C10 C11 C12 C13 C14 C15 C16 C17 C18 C19 C20"
CAUGHT=""
for c in $IDS; do
  REPO_DIR="$WT" PANMC_VERIF_OUT="$OUT" "$VERIF_DIR/scripts/run_check.sh" "$c" quick > "$OUT/$c.log" 2>&1
  rc=$?
  if [ $rc -eq 1 ]; then CAUGHT="$CAUGHT $c"; fi
  if [ $rc -ge 2 ]; then echo "check $c: harness error (rc=$rc)"; tail -5 "$OUT/$c.log"; fi
done
cp "$OUT/$ID.log" "$DEST/check_output.log"
grep "key=" "$OUT/$ID.log" | head -8
if echo "$CAUGHT" | grep -q "$ID"; then echo "CAUGHT by:$CAUGHT"; else echo "MISSED by $ID (caught by:$CAUGHT)"; fi
echo "$CAUGHT" > "$DEST/caught_by.txt"
rm -rf "$OUT"
