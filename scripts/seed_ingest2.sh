#!/bin/bash
# usage: seed_ingest2.sh <ID> <worktree> <A|B> <name> [all]
# For worktrees that hold two independent changes as seed_demo_A/my.patch and seed_demo_B/my.patch:
# applies one of them to the (otherwise clean) worktree, ingests it with seed_ingest.sh and cleans up.
set -uo pipefail
ID="$1"; WT="$2"; X="$3"; NAME="$4"; ALL="${5:-}"
git -C "$WT" checkout -q -- . 2>/dev/null
P="$WT/seed_demo_$X/my.patch"
[ -f "$P" ] || { echo "no $P"; exit 2; }
git -C "$WT" apply "$P" || { echo "patch $X does not apply"; exit 2; }
rm -rf "$WT/seed_demo"; cp -r "$WT/seed_demo_$X" "$WT/seed_demo"
"$(dirname "$0")/seed_ingest.sh" "$ID" "$WT" "$NAME" $ALL
rc=$?
rm -rf "$WT/seed_demo"; git -C "$WT" checkout -q -- .
exit $rc
