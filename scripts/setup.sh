#!/bin/bash
# Builds the instrumenter and warms the Go build cache with one overlay build (offline).
set -euo pipefail
source "$(dirname "$0")/env.sh"
cd "$VERIF_DIR"
mkdir -p bin evidence replays
(cd mkoverlay && go build -o "$VERIF_DIR/bin/mkoverlay" .)
S=$(mktemp -d "${TMPDIR:-/var/tmp}/panmc-setup.XXXXXX")
trap 'rm -rf "$S"' EXIT
sed "s#=> /repo#=> $REPO_DIR#g" "$VERIF_DIR/go.mod" > "$S/go.mod"
cat "$REPO_DIR/go.sum" > "$S/go.sum"
"$VERIF_DIR/bin/mkoverlay" -repo "$REPO_DIR" -rt "$VERIF_DIR/rt" -out "$S" >/dev/null
go build -modfile="$S/go.mod" -overlay "$S/overlay.json" -o "$S/panmc" ./cmd/panmc
(cd "$REPO_DIR" && go build -o "$S/pangaea" .)
echo "setup ok"
