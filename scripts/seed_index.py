#!/usr/bin/env python3
"""Regenerates seeded/INDEX.md from the meta.json of every kept seeded change."""
import json, os, glob
ROOT = os.path.dirname(os.path.dirname(os.path.abspath(__file__)))
rows = []
for d in sorted(glob.glob(os.path.join(ROOT, 'seeded', 'C*'))):
    mp = os.path.join(d, 'meta.json')
    if not os.path.exists(mp): continue
    m = json.load(open(mp))
    esc = lambda s: str(s).replace('|', '\\|').replace('\n', ' ')
    rows.append('| %s | %s | %s | %s | %s |' % (os.path.basename(d), m.get('property', ''), esc(m.get('breaks', '')), ', '.join(m.get('caught_by', [])) or '-', esc(m.get('history', ''))))
head = '''# Seeded property-breaking changes

Each directory holds `patch.diff` (apply with `git -C /repo apply`, undo with `git -C /repo checkout -- .`), the author's demonstration (`demo/`), `suite.log`, `check_output.log` and `meta.json`.
Rounds of 20 independent sub-agents (suffix none / b / c / d / e for rounds 1-5, f + g for the two changes each agent of round 6 produced, h + i for round 7, j + k for round 8, l + m for round 9, n + o for round 10, p + q for round 11), each given only the text of one property and a scratch worktree.
`preexisting-reports/` holds what the agents of rounds 5 to 11 reported about the unchanged tree (triaged in DESIGN.md 9.6). `rejected/` holds proposals that were not kept because they do not break the property as stated (with the reason in `meta.json`). `own/` holds mutations written here to show that a new family works.
`REGRESSION.txt` is the last result of `scripts/seed_regress.sh` (every patch re-applied to /repo's HEAD, property's quick check re-run). A `patch_before_rebase.diff` next to a `patch.diff` means the change had to be re-applied by hand after a later `fix:` commit touched the same lines.
`scripts/seed_try.sh <name>` re-runs one change against the checks as they are now; `scripts/verify_demo.sh <name>` re-runs its demonstration.

| name | property | change | caught by | history |
|---|---|---|---|---|
'''
open(os.path.join(ROOT, 'seeded', 'INDEX.md'), 'w').write(head + '\n'.join(rows) + '\n')
print(len(rows), 'rows')
