#!/bin/bash
# usage: verify_demo.sh <seeded-name>
# Confirms a seeded change's demonstration: the demo program's stdout equals expected_output.txt on /repo's HEAD
# and differs once patch.diff is applied (scratch worktree outside /repo and /verif, removed afterwards).
# Go-test demonstrations (*.go.txt) are copied to the place NOTES.md names only if a line "copy to <path>" exists.
set -uo pipefail
source "$(dirname "$0")/env.sh"
D="$VERIF_DIR/seeded/$1"
[ -f "$D/patch.diff" ] || { echo "no such seed $1"; exit 2; }
W=$(mktemp -d "${TMPDIR:-/var/tmp}/vdemo.XXXXXX")
trap 'git -C /repo worktree remove --force "$W/wt" 2>/dev/null; rm -rf "$W"' EXIT
git -C /repo worktree add -q --detach "$W/wt" HEAD || exit 2
run_demo() { # $1 = label
  (cd "$W/wt" && go build -o "$W/pangaea_$1" .) || { echo "build failed ($1)"; return 2; }
  local rc=0
  for prog in "$D"/demo/*.pangaea; do
    [ -f "$prog" ] || continue
    base=$(basename "$prog" .pangaea)
    exp="$D/demo/expected_output.txt"; [ -f "$D/demo/${base}_expected.txt" ] && exp="$D/demo/${base}_expected.txt"
    [ -f "$D/demo/expected_${base}.txt" ] && exp="$D/demo/expected_${base}.txt"
    [ -f "$exp" ] || continue
    case "$base" in *module*|*helper*|*mod_*|*lib*) continue;; esac
    (cd "$D/demo" && timeout 60 "$W/pangaea_$1" "$(basename "$prog")" 2>/dev/null < /dev/null) > "$W/out_$1_$base.txt"
    if diff -q "$W/out_$1_$base.txt" "$exp" > /dev/null; then echo "$1: $base matches expected"; else echo "$1: $base DIFFERS from expected"; rc=1; fi
  done
  return $rc
}
run_demo unchanged; a=$?
git -C "$W/wt" apply "$D/patch.diff" || { echo "patch does not apply"; exit 2; }
run_demo changed; b=$?
if [ $a -eq 0 ] && [ $b -eq 1 ]; then echo "DEMO-CONFIRMED $1"; exit 0; fi
echo "DEMO-NOT-CONFIRMED $1 (unchanged rc=$a, changed rc=$b)"; exit 1
