#!/bin/bash
# usage: run_check.sh <ID> quick|thorough        run one check against /repo's current working tree
#        run_check.sh <ID> --replay <file>       re-check one recorded case
# Rebuilds everything from the current tree: instrumented overlay copy (repository untouched),
# the check binary, and the plain CLI used to confirm violations.
set -uo pipefail
source "$(dirname "$0")/env.sh"
cd "$VERIF_DIR"
ID="${1:?check id}"; shift
MODE="${1:-quick}"
S=$(mktemp -d "${TMPDIR:-/var/tmp}/panmc-$ID.XXXXXX")
trap 'rm -rf "$S"' EXIT
if [ ! -x bin/mkoverlay ] || [ mkoverlay/main.go -nt bin/mkoverlay ]; then
  (cd mkoverlay && go build -o "$VERIF_DIR/bin/mkoverlay" .) || { echo "HARNESS-ERROR: cannot build mkoverlay" >&2; exit 2; }
fi
# module file pointing at the tree under test (REPO_DIR, default /repo)
sed "s#=> /repo#=> $REPO_DIR#g" "$VERIF_DIR/go.mod" > "$S/go.mod"
cat "$REPO_DIR/go.sum" > "$S/go.sum" 2>/dev/null
bin/mkoverlay -repo "$REPO_DIR" -rt "$VERIF_DIR/rt" -out "$S" > "$S/mkoverlay.log" 2>&1 || { cat "$S/mkoverlay.log" >&2; echo "HARNESS-ERROR: instrumenter failed (the tree does not build?)" >&2; exit 2; }
go build -modfile="$S/go.mod" -overlay "$S/overlay.json" -o "$S/panmc" ./cmd/panmc > "$S/build.log" 2>&1 || { cat "$S/build.log" >&2; echo "HARNESS-ERROR: overlay build failed" >&2; exit 2; }
(cd "$REPO_DIR" && go build -o "$S/pangaea" . ) > "$S/build2.log" 2>&1 || { cat "$S/build2.log" >&2; echo "HARNESS-ERROR: CLI build failed" >&2; exit 2; }
export PANMC_CLI="$S/pangaea" PANMC_SCRATCH="$S" PANMC_VERIF="${PANMC_VERIF_OUT:-$VERIF_DIR}" PANMC_OVERLAY="$S/overlay.json" PANMC_REPO="$REPO_DIR"
if [ "$MODE" = "thorough" ] && { [ "$ID" = "C02" ] || [ "$ID" = "C16" ] || [ "$ID" = "C17" ]; }; then
  # regenerated-parser pass: the grammar source (parser.go.y) must generate the committed parser/y.go; if it
  # does not (a grammar edit that was not regenerated, or a hand edit of y.go) the check is run a second time
  # against a parser generated from the grammar
  if (cd "$REPO_DIR" && go run golang.org/x/tools/cmd/goyacc -o "$S/regen_y.go" -v "$S/regen_y.output" ./parser/parser.go.y) > "$S/goyacc.log" 2>&1; then
    if diff <(tail -n +3 "$REPO_DIR/parser/y.go") <(tail -n +3 "$S/regen_y.go") > /dev/null; then
      export PANMC_PARSER_REGEN=identical
    else
      export PANMC_PARSER_REGEN=differs
      python3 - "$S" "$REPO_DIR" <<'PYEOF'
import json,sys
s,repo=sys.argv[1:]
ov=json.load(open(s+'/overlay.json'))
ov['Replace'][repo+'/parser/y.go']=s+'/regen_y.go'
json.dump(ov,open(s+'/overlay_regen.json','w'))
PYEOF
      go build -modfile="$S/go.mod" -overlay "$S/overlay_regen.json" -o "$S/panmc_regen" ./cmd/panmc > "$S/build4.log" 2>&1 || { cat "$S/build4.log" >&2; echo "HARNESS-ERROR: build with the regenerated parser failed" >&2; exit 2; }
    fi
  else
    echo "note: goyacc not runnable: $(tail -2 "$S/goyacc.log")" >&2
    export PANMC_PARSER_REGEN=unavailable
  fi
fi
if [ "$ID" = "C20" ] && [ "$MODE" = "thorough" ]; then
  # free-running -race complement (not deciding): same bodies on real goroutines
  if go build -race -modfile="$S/go.mod" -overlay "$S/overlay.json" -o "$S/c20race" ./cmd/c20race > "$S/build3.log" 2>&1; then
    export PANMC_RACEBIN="$S/c20race"
  else
    echo "note: -race complement not built: $(head -3 "$S/build3.log")" >&2
  fi
fi
if [ "$MODE" = "--replay" ]; then
  "$S/panmc" replay "${2:?replay file}"
  exit $?
fi
"$S/panmc" check "$ID" --tier "$MODE"
rc=$?
if [ "${PANMC_PARSER_REGEN:-}" = "differs" ] && [ $rc -ne 2 ]; then
  echo "note: parser/y.go is not what parser/parser.go.y generates: running the check again on the regenerated parser"
  cp "$PANMC_VERIF/evidence/$ID.json" "$S/evidence_committed_parser.json" 2>/dev/null
  PANMC_VARIANT=regenerated-parser "$S/panmc_regen" check "$ID" --tier "$MODE"
  rc2=$?
  [ $rc2 -gt $rc ] && rc=$rc2
fi
exit $rc
