#!/bin/bash
# manual confirmation of the round-10 demos that need stdin / scripts / Go tests
source /verif/scripts/env.sh
W=/var/tmp/sdemo; rm -rf $W; mkdir -p $W
git -C /repo worktree add -q --detach $W/wt HEAD
S=/verif/seeded
build() { (cd $W/wt && go build -o $W/pangaea_$1 .); }
build unchanged
one() { # name, command template using $BIN ; prints result for unchanged and changed
  name=$1; shift
  git -C $W/wt checkout -q -- . ; git -C $W/wt clean -fdq
  BIN=$W/pangaea_unchanged; u=$(eval "$@" 2>&1 | tail -1)
  git -C $W/wt apply $S/$name/patch.diff; build changed
  BIN=$W/pangaea_changed; c=$(eval "$@" 2>&1 | tail -1)
  echo "$name | unchanged: $u | changed: $c"
}
gotest() { # name, testfile, destdir, run pattern, extra flags
  name=$1; f=$2; dest=$3; pat=$4; extra=$5
  git -C $W/wt checkout -q -- . ; git -C $W/wt clean -fdq
  cp $S/$name/demo/$f $W/wt/$dest/$(basename $f .txt)
  u=$(cd $W/wt && go test -vet=off -count=1 $extra -run "$pat" ./$dest/ 2>&1 | tail -1)
  git -C $W/wt apply $S/$name/patch.diff
  c=$(cd $W/wt && go test -vet=off -count=1 $extra -run "$pat" ./$dest/ 2>&1 | tail -1)
  echo "$name | unchanged: $u | changed: $c"
}
one C07o-jargon-preload-failure-only-reported 'sh $S/C07o-jargon-preload-failure-only-reported/demo/run_demo.sh $BIN'
one C08o-arr-literal-expansions-evaluated-first '(cd $S/C08o-arr-literal-expansions-evaluated-first/demo && $BIN demo.pangaea < stdin.txt 2>/dev/null | diff -q - expected_output.txt > /dev/null && echo PASS || echo FAIL)'
one C13o-wrappable-unwrap-alias-shadows-arr-step '(cd $S/C13o-wrappable-unwrap-alias-shadows-arr-step/demo && $BIN demo.pangaea 2>/dev/null | diff -q - expected_output.txt > /dev/null && $BIN demo_skip.pangaea 2>/dev/null | diff -q - expected_output_skip.txt >/dev/null && echo PASS || echo FAIL)'
one C19n-di-parse-cache-keyed-by-text-only '(sh $S/C19n-di-parse-cache-keyed-by-text-only/demo/run_demo.sh $BIN 2>&1 | diff -q - $S/C19n-di-parse-cache-keyed-by-text-only/demo/expected_output.txt >/dev/null && echo PASS || echo FAIL)'
one C19o-abstract-prop-call-rewrites-shared-notimplemented-msg '(sh $S/C19o-abstract-prop-call-rewrites-shared-notimplemented-msg/demo/run_demo.sh $BIN 2>/dev/null | diff -q - $S/C19o-abstract-prop-call-rewrites-shared-notimplemented-msg/demo/expected_output.txt >/dev/null && echo PASS || echo FAIL)'
gotest C16n-lexer-readall-drops-bytes-delivered-with-eof zz_seed_a_test.go.txt parser 'Seed' ''
gotest C20n-envset-overwrites-under-read-lock seed_c20a_test.go.txt props/modules/http/builtin 'Seed|C20' '-race'
gotest C20o-json-keys-interned-under-read-lock seed_c20b_test.go.txt di 'Seed|C20' '-race'
git -C /repo worktree remove --force $W/wt; rm -rf $W
