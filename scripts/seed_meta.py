#!/usr/bin/env python3
"""Writes seeded/<name>/meta.json for kept seeded changes that have none yet (or all with --force NAME...).
usage: seed_meta.py <status-file> [round]
status-file lines: "<name> CAUGHT by Cxx ..." / "<name> MISSED by Cxx" as printed by seed_try.sh / seed_regress.sh
Extra texts (breaks / needs / history) come from a python dict file given with --texts (name -> (breaks, needs, history))."""
import json, os, re, sys, glob, importlib.util
ROOT = os.path.dirname(os.path.dirname(os.path.abspath(__file__)))
args = [a for a in sys.argv[1:] if not a.startswith('--')]
texts = {}
for a in sys.argv[1:]:
    if a.startswith('--texts='):
        spec = importlib.util.spec_from_file_location('t', a.split('=', 1)[1]); m = importlib.util.module_from_spec(spec); spec.loader.exec_module(m)
        for k in dir(m):
            if k.isupper() and isinstance(getattr(m, k), dict): texts.update(getattr(m, k))
status = {}
for f in args[:1]:
    for line in open(f):
        m = re.match(r'(C\d\d\S+) (CAUGHT|MISSED) by (C\d\d)', line.strip())
        if m: status[m.group(1)] = (m.group(2), m.group(3))
rnd = args[1] if len(args) > 1 else '?'
for d in sorted(glob.glob(os.path.join(ROOT, 'seeded', 'C*'))):
    name = os.path.basename(d)
    if name not in status or not os.path.exists(os.path.join(d, 'patch.diff')): continue
    mp = os.path.join(d, 'meta.json')
    if os.path.exists(mp) and '--force' not in sys.argv: continue
    notes = os.path.join(d, 'demo', 'NOTES.md')
    head = open(notes).readline().strip().lstrip('# ').strip() if os.path.exists(notes) else name
    head = re.sub(r'^(Seed|Change)\s+\S+\s*[-:/]*\s*(\S\s*[:/-]\s*)?', '', head)
    br, needs, hist = texts.get(name, (head, 'see demo/NOTES.md (section on what is needed for it to manifest)', ''))
    at_ingest = open(os.path.join(d, 'caught_by.txt')).read().split() if os.path.exists(os.path.join(d, 'caught_by.txt')) else []
    st, cid = status[name]
    meta = {
        "property": name[:3],
        "origin": "independent sub-agent (round %s, two changes per agent) given only the property text and a scratch worktree" % rnd,
        "breaks": br,
        "needs_to_manifest": needs,
        "confirmed": {
            "compiles": True,
            "repository_suite_passes": "go test -vet=off $(go list ./... | grep -v http/builtin) - see suite.log (empty = no failures)",
            "demo": "demo/ (NOTES.md): passes on the unchanged tree, fails with the change; .pangaea demos re-run by scripts/verify_demo.sh",
        },
        "ran": "scripts/seed_ingest2.sh %s <worktree> %s %s; scripts/seed_try.sh %s" % (name[:3], 'A/B', name, name),
        "caught_by": [cid] if st == 'CAUGHT' else [],
        "caught_at_ingest": at_ingest,
        "history": hist or ("caught at once" if at_ingest else "missed first; see DESIGN.md 9.5 round %s" % rnd),
    }
    json.dump(meta, open(mp, 'w'), indent=1, ensure_ascii=False); open(mp, 'a').write('\n')
    print('wrote', name, st)
