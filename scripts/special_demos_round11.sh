#!/bin/bash
# manual confirmation of the round-11 demos that need stdin / stderr / several files / Go tests
source /verif/scripts/env.sh
W=/var/tmp/sdemo11; rm -rf $W; mkdir -p $W
git -C /repo worktree add -q --detach $W/wt HEAD
S=/verif/seeded
build() { (cd $W/wt && go build -o $W/pangaea_$1 .); }
build unchanged
one() { name=$1; shift
  git -C $W/wt checkout -q -- . ; git -C $W/wt clean -fdq
  BIN=$W/pangaea_unchanged; u=$(eval "$@" 2>&1 | tail -1)
  git -C $W/wt apply $S/$name/patch.diff; build changed
  BIN=$W/pangaea_changed; c=$(eval "$@" 2>&1 | tail -1)
  echo "$name | unchanged: $u | changed: $c"
}
gotest() { name=$1; f=$2; dest=$3; pat=$4; extra=$5
  git -C $W/wt checkout -q -- . ; git -C $W/wt clean -fdq
  cp $S/$name/demo/$f $W/wt/$dest/$(basename $f .txt)
  u=$(cd $W/wt && go test -vet=off -count=1 $extra -run "$pat" ./$dest/ 2>&1 | tail -1)
  git -C $W/wt apply $S/$name/patch.diff
  c=$(cd $W/wt && go test -vet=off -count=1 $extra -run "$pat" ./$dest/ 2>&1 | tail -1)
  echo "$name | unchanged: $u | changed: $c"
}
one C01p-import-parse-table-keeps-nil-for-broken-module '(cd $S/C01p-import-parse-table-keeps-nil-for-broken-module/demo && timeout 20 $BIN demo.pangaea 2>/dev/null | diff -q - expected_output.txt >/dev/null && echo PASS || echo FAIL)'
one C06p-stdin-lines-alias-scanner-buffer '(cd $S/C06p-stdin-lines-alias-scanner-buffer/demo && timeout 20 $BIN demo.pangaea < input.txt 2>/dev/null | diff -q - expected_output.txt >/dev/null && echo PASS || echo FAIL)'
one C06q-raise-appends-trace-to-held-error-value '(cd $S/C06q-raise-appends-trace-to-held-error-value/demo && timeout 20 $BIN demo.pangaea 2>&1 | diff -q - expected_output.txt >/dev/null && echo PASS || echo FAIL)'
one C16p-else-token-at-line-head-without-word-boundary '(cd $S/C16p-else-token-at-line-head-without-word-boundary/demo && timeout 20 $BIN demo.pangaea 2>/dev/null | diff -q - expected_output.txt >/dev/null && timeout 20 $BIN demo2.pangaea 2>/dev/null | diff -q - expected_output2.txt >/dev/null && echo PASS || echo FAIL)'
one C19p-shared-empty-arglist-node-mutated-by-trailing-literal '(cd $S/C19p-shared-empty-arglist-node-mutated-by-trailing-literal/demo && timeout 60 $BIN test progs 2>&1 | diff -q - expected_output.txt >/dev/null && echo PASS || echo FAIL)'
gotest C19q-eval-source-names-numbered-by-process-counter seed_demo_b_test.go.txt runscript 'Seed|Demo' ''
gotest C11p-stringat-shared-scratch-rune-buffer index_interleaved_test.go.txt evaluator 'Interleav|Seed|Index' ''
gotest C20p-frozen-symbol-tables-rewritten-by-module-import c20_demo_a_test.go.txt di 'C20|Demo|Seed' '-race'
gotest C20q-request-scoped-symbols-forgotten c20_demo_b_test.go.txt props/modules/http/builtin 'C20|Demo|Seed' ''
git -C /repo worktree remove --force $W/wt; rm -rf $W
