#!/bin/bash
# developer helper: builds bin/panmc-dev (overlay build) for interactive probing
set -euo pipefail
source "$(dirname "$0")/env.sh"
cd "$VERIF_DIR"
S="${TMPDIR:-/var/tmp}/panmc-dev-overlay"
rm -rf "$S"; mkdir -p "$S"
bin/mkoverlay -repo "$REPO_DIR" -rt "$VERIF_DIR/rt" -out "$S" >/dev/null
go build -overlay "$S/overlay.json" -o bin/panmc-dev ./cmd/panmc
(cd "$REPO_DIR" && go build -o "$VERIF_DIR/bin/pangaea" .)
