# sourced by the scripts: offline Go settings
export GOFLAGS=-mod=mod GOPROXY=off GOSUMDB=off GOTOOLCHAIN=local
export VERIF_DIR="$(cd "$(dirname "${BASH_SOURCE[0]}")/.." && pwd)"
export REPO_DIR="${REPO_DIR:-/repo}"
