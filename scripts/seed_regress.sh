#!/bin/bash
# usage: seed_regress.sh [name-glob]
# Re-runs every kept seeded change against the property's quick check as it stands now:
# a scratch worktree of /repo's HEAD (outside /repo and /verif) gets the patch applied, the check runs
# with REPO_DIR pointing there and its evidence redirected to scratch. Writes seeded/REGRESSION.txt.
# /repo itself and /verif's evidence are not touched.
set -uo pipefail
source "$(dirname "$0")/env.sh"
GLOB="${1:-C*}"
WT=$(mktemp -d "${TMPDIR:-/var/tmp}/seedreg.XXXXXX")
git -C "${REPO_DIR:-/repo}" worktree add -q --detach "$WT/wt" HEAD || exit 2
OUT="$WT/out"; mkdir -p "$OUT"
REPORT="$VERIF_DIR/seeded/REGRESSION.txt"
: > "$REPORT.tmp"
for d in "$VERIF_DIR"/seeded/$GLOB/; do
  name=$(basename "$d"); id=${name:0:3}; [ -f "$d/meta.json" ] && id=$(jq -r ".caught_by[0] // \"$id\"" "$d/meta.json")
  [ -f "$d/patch.diff" ] || continue
  git -C "$WT/wt" checkout -q -- . && git -C "$WT/wt" clean -fdq
  if ! git -C "$WT/wt" apply "$d/patch.diff" 2>/dev/null; then echo "$name PATCH-DOES-NOT-APPLY" >> "$REPORT.tmp"; continue; fi
  rm -rf "$OUT"/*; cp "$VERIF_DIR/known_findings.json" "$OUT/"
  REPO_DIR="$WT/wt" PANMC_VERIF_OUT="$OUT" "$VERIF_DIR/scripts/run_check.sh" "$id" quick > "$OUT/log" 2>&1
  rc=$?
  keys=$(grep -c "^  key=" "$OUT/log")
  case $rc in
    1) echo "$name CAUGHT by $id ($keys violation keys)" >> "$REPORT.tmp";;
    0) echo "$name MISSED by $id" >> "$REPORT.tmp";;
    *) echo "$name HARNESS-ERROR rc=$rc" >> "$REPORT.tmp";;
  esac
  tail -1 "$REPORT.tmp"
done
git -C "${REPO_DIR:-/repo}" worktree remove --force "$WT/wt"; git -C "${REPO_DIR:-/repo}" worktree prune
rm -rf "$WT"
{ echo "# quick check of each seeded change's property against /repo HEAD $(git -C /repo rev-parse --short HEAD) + patch.diff"; sort "$REPORT.tmp"; } > "$REPORT"
rm -f "$REPORT.tmp"
grep -c CAUGHT "$REPORT"; grep -v CAUGHT "$REPORT" | grep -v "^#"
