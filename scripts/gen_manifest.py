#!/usr/bin/env python3
"""Regenerates /verif/MANIFEST.json from the table below (kept next to the checks so the
manifest can be kept valid at every commit)."""
import json, os, sys

HERE = os.path.dirname(os.path.abspath(__file__))
ROOT = os.path.dirname(HERE)

ALL = ["C%02d" % i for i in range(1, 21)]

# id -> (category, technique, text, note, design_ref)
CHECKS = {k: (v["category"], v["technique"], v["text"], v["note"], v["design_ref"])
          for k, v in json.load(open(os.path.join(HERE, "checks_meta.json"))).items()}

NOT_YET = "check not built yet in this round (work in progress; see DESIGN.md §4)"


def main():
    checks = []
    for cid in ALL:
        if cid not in CHECKS:
            continue
        cat, tech, text, note, ref = CHECKS[cid]
        checks.append({
            "property_id": cid,
            "quick_cmd": "scripts/run_check.sh %s quick" % cid,
            "thorough_cmd": "scripts/run_check.sh %s thorough" % cid,
            "evidence_file": "evidence/%s.json" % cid,
            "replay_cmd_template": "scripts/run_check.sh %s --replay {path}" % cid,
            "engine": "panmc",
            "level_claimed": {"category": cat, "text": text, "design_ref": ref},
            "level_note": note,
            "technique": tech,
        })
    na = [{"property_id": c, "reason": NOT_YET} for c in ALL if c not in CHECKS]
    m = {
        "version": 1,
        "setup_cmd": "scripts/setup.sh",
        "hooks": {
            "guard": "verif-overlay",
            "enable": "scripts/run_check.sh generates instrumented copies of the repository sources with mkoverlay and builds with "
                      "`go build -overlay <scratch>/overlay.json`; no file of the repository is modified and no build tag is needed "
                      "(guard off = any ordinary build)",
            "baseline_off_cmd": "cd /repo && GOFLAGS=-mod=mod go test -vet=off -count=1 -timeout 25m ./...",
            "source_commits": [],
            "add_only": True,
        },
        "engines": [
            {"name": "panmc", "path": "cmd/panmc", "serves_properties": [c["property_id"] for c in checks],
             "kind_free_text": "hand-written bounded exhaustive explorers over the real interpreter: enumerator (E1), deviation-bounded "
                               "choice explorer (E2), history BFS (E3), controlled scheduler with vector clocks (E4)"},
            {"name": "mkoverlay", "path": "mkoverlay", "serves_properties": [c["property_id"] for c in checks],
             "kind_free_text": "source-to-source instrumenter (go/packages) producing a go build overlay: fuel guard, map-order seam, sync shim, table access log"},
        ],
        "checks": checks,
        "not_applicable": na,
        "notes": "All checks rebuild from /repo's current working tree on every invocation. Exit 0 = held on everything explored, "
                 "1 = VIOLATION line(s), 2 = harness/build error. known_findings.json lists recorded findings and fixed defects.",
    }
    with open(os.path.join(ROOT, "MANIFEST.json"), "w") as f:
        json.dump(m, f, indent=1)
        f.write("\n")
    try:
        import jsonschema
        schema = json.load(open("/root/.vp/MANIFEST.schema.json"))
        jsonschema.validate(m, schema)
        print("MANIFEST.json valid;", len(checks), "checks,", len(na), "not_applicable")
    except ImportError:
        print("MANIFEST.json written (jsonschema not available for validation)")


if __name__ == "__main__":
    main()
