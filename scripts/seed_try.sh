#!/bin/bash
# usage: seed_try.sh <seeded-name> [check-id] [tier]
# Applies one kept seeded change to a scratch worktree of /repo's HEAD and runs the property's check against it
# (evidence and replays go to scratch). Prints CAUGHT / MISSED and the violation keys; nothing under /verif or /repo changes.
set -uo pipefail
source "$(dirname "$0")/env.sh"
name="$1"; d="$VERIF_DIR/seeded/$name"; id="${2:-${name:0:3}}"; tier="${3:-quick}"
[ -f "$d/patch.diff" ] || { echo "no seed $name"; exit 2; }
WT=$(mktemp -d "${TMPDIR:-/var/tmp}/seedtry.XXXXXX")
trap 'git -C /repo worktree remove --force "$WT/wt" 2>/dev/null; git -C /repo worktree prune; rm -rf "$WT"' EXIT
git -C /repo worktree add -q --detach "$WT/wt" HEAD || exit 2
git -C "$WT/wt" apply "$d/patch.diff" || { echo "$name PATCH-DOES-NOT-APPLY"; exit 2; }
mkdir -p "$WT/out"; cp "$VERIF_DIR/known_findings.json" "$WT/out/"
REPO_DIR="$WT/wt" PANMC_VERIF_OUT="$WT/out" "$VERIF_DIR/scripts/run_check.sh" "$id" "$tier" > "$WT/out/log" 2>&1
rc=$?
grep -E "^  key=" "$WT/out/log" | head -${SEED_TRY_KEYS:-6}
tail -1 "$WT/out/log" | cut -c1-300
[ -n "${SEED_TRY_SAVE:-}" ] && cp "$WT/out/log" "$d/check_output.log"
case $rc in 1) echo "$name CAUGHT by $id";; 0) echo "$name MISSED by $id";; *) echo "$name HARNESS-ERROR rc=$rc"; tail -20 "$WT/out/log";; esac
