// Package c09: key rules of object and map literals, `**` unpacking and accessors (property C09).
package c09

import (
	"encoding/json"
	"fmt"
	"regexp"
	"sort"
	"strings"

	"github.com/Syuparn/pangaea/object"

	"panmc/internal/core"
	"panmc/internal/panrun"
	"panmc/internal/tk"
)

func init() {
	core.Register(&core.Check{
		ID:    "C09",
		Level: "model_checking",
		Rule: "all object literals of <=4 (thorough 5) pairs over names {a,b,_p,_q} with <=2 `**` objects, all literals of 2..3 (thorough 4) distinct names out of 12 that differ only by a suffix, a digit or case (a, a!, a?, a_, a1, aa, Ab, b, _p, _p!, _p1, _Pq; listed order incl. after ** into an object or a map), and all map literals of <=4 (thorough 5) pairs over 15 key kinds (incl. two floats that print alike) plus `**map`/`**obj` combinations; " +
			"every accessor (keys/values/items with and without private?, A, iteration, S, ==, indexing by every key, len) is evaluated by the real interpreter and compared with an ordered-dictionary model; " +
			"non-trivial = literal with a duplicate, a private name, an embedded container or a non-scalar key; distinct = distinct literal text; round 7: A collide family enumerates every map/object literal of <=3 pairs over 7 str keys that agree position by position in the low byte of their code points and 6 non-scalar keys that are == although built differently (a literal and its bear child).; round 8: `private?` is also given as false / nil / through an expansion / as a computed false; names of 32..130 characters take part in the listed-order family.; round 10: 11 private names that the interpreter and its native library use themselves (_name, _iter, _missing, _value, ...) x 7 literal shapes (written, arriving through one or two `**`, duplicated across them); 15 literal templates (one syntax node each) evaluated for every sequence of 2..3 (thorough 4) operands, each evaluation compared with the literal written out for that operand.",
		Assumptions: []string{
			"print order of maps is a don't-care (only the set of printed pairs is compared)",
			"operator-named object properties and string keys naming Map's own properties are not generated",
			"`**obj` inside a map inserts the object's pairs in the object's listing (sorted) order",
		},
		Run:    run,
		Replay: replay,
	})
}

type tcase struct {
	Kind string `json:"kind"` // obj | map
	Src  string `json:"src"`
	// model input
	Pairs [][2]string `json:"pairs"`         // key id / name, value
	Emb   []string    `json:"emb"`           // embedded container ids
	Exp   []string    `json:"exp,omitempty"` // special: expected accessor results
}

// ---------------------------------------------------------------- objects

var objNames = []string{"a", "b", "_p", "_q"}

type embObj struct {
	src   string
	pairs [][2]string
}

var embObjs = []embObj{
	{"{a: 91}", [][2]string{{"a", "91"}}},
	{"{b: 92, _p: 93}", [][2]string{{"b", "92"}, {"_p", "93"}}},
	{"{c: 94}", [][2]string{{"c", "94"}}},
	{"{c: 95, a: 96}", [][2]string{{"c", "95"}, {"a", "96"}}},
	{"{_q: 97, _r: 98}", [][2]string{{"_q", "97"}, {"_r", "98"}}},
}

func objModel(t tcase) (pub, priv []string, vals map[string]string) {
	vals = map[string]string{}
	add := func(k, v string) {
		if _, ok := vals[k]; !ok {
			vals[k] = v
		}
	}
	for _, p := range t.Pairs {
		add(p[0], p[1])
	}
	for _, e := range t.Emb {
		var i int
		fmt.Sscanf(e, "%d", &i)
		for _, p := range embObjs[i].pairs {
			add(p[0], p[1])
		}
	}
	for k := range vals {
		if strings.HasPrefix(k, "_") {
			priv = append(priv, k)
		} else {
			pub = append(pub, k)
		}
	}
	sort.Strings(pub)
	sort.Strings(priv)
	return
}

func q(s string) string { return `"` + s + `"` }

func arr(parts []string) string { return "[" + strings.Join(parts, ", ") + "]" }

func objExpect(t tcase) []string {
	pub, priv, vals := objModel(t)
	all := append(append([]string{}, pub...), priv...)
	ks := func(names []string) string {
		p := make([]string, len(names))
		for i, n := range names {
			p[i] = q(n)
		}
		return arr(p)
	}
	vs := func(names []string) string {
		p := make([]string, len(names))
		for i, n := range names {
			p[i] = vals[n]
		}
		return arr(p)
	}
	its := func(names []string) string {
		p := make([]string, len(names))
		for i, n := range names {
			p[i] = "[" + q(n) + ", " + vals[n] + "]"
		}
		return arr(p)
	}
	sorted := append([]string{}, all...)
	sort.Strings(sorted)
	rp := make([]string, len(sorted))
	for i, n := range sorted {
		rp[i] = q(n) + ": " + vals[n]
	}
	repr := "{" + strings.Join(rp, ", ") + "}"
	exp := []string{ks(pub), ks(all), vs(pub), vs(all), its(pub), its(all), its(pub), its(pub), repr}
	for _, n := range []string{"a", "b", "_p", "_q", "c", "zz"} {
		if v, ok := vals[n]; ok {
			exp = append(exp, v)
		} else {
			exp = append(exp, "nil")
		}
	}
	exp = append(exp, "true")
	// the flag counts by its value, not by being written: false / nil / a falsy variable list the public names only
	exp = append(exp, ks(pub), vs(pub), its(pub), ks(pub), ks(all), ks(pub))
	return exp
}

var objAccessors = []string{"keys", "keys(private?: true)", "values", "values(private?: true)", "items", "items(private?: true)", "A", "@{|k, v| [k, v]}", "S",
	"['a]", "['b]", "['_p]", "['_q]", "['c]", "['zz]", "== <reversed literal>",
	"keys(private?: false)", "values(private?: nil)", "items(private?: false)", "keys(**{private?: false})", "keys(**{private?: true})", "keys(private?: 0 > 1)"}

func objBody(t tcase) string {
	// reversed literal: same final content written in another order (first-wins already applied)
	pub, priv, vals := objModel(t)
	all := append(append([]string{}, pub...), priv...)
	rev := make([]string, 0, len(all))
	for i := len(all) - 1; i >= 0; i-- {
		rev = append(rev, all[i]+": "+vals[all[i]])
	}
	return fmt.Sprintf("o := %s\n[o.keys, o.keys(private?: true), o.values, o.values(private?: true), o.items, o.items(private?: true), o.A, o@{|k, v| [k, v]}, o.S, "+
		"o['a], o['b], o['_p], o['_q], o['c], o['zz], o == {%s}, "+
		"o.keys(private?: false), o.values(private?: nil), o.items(private?: false), o.keys(**{private?: false}), o.keys(**{private?: true}), o.keys(private?: 0 > 1)]", t.Src, strings.Join(rev, ", "))
}

func genObjs(maxPairs int, emit func(tcase)) {
	var rec func(pairs [][2]string)
	emitWithEmb := func(pairs [][2]string) {
		lit := make([]string, len(pairs))
		for i, p := range pairs {
			lit[i] = p[0] + ": " + p[1]
		}
		embs := [][]int{{}}
		for i := range embObjs {
			embs = append(embs, []int{i})
			for j := range embObjs {
				embs = append(embs, []int{i, j})
			}
		}
		for _, es := range embs {
			parts := append([]string{}, lit...)
			ids := []string{}
			for _, e := range es {
				parts = append(parts, "**"+embObjs[e].src)
				ids = append(ids, fmt.Sprint(e))
			}
			emit(tcase{Kind: "obj", Src: "{" + strings.Join(parts, ", ") + "}", Pairs: pairs, Emb: ids})
		}
	}
	rec = func(pairs [][2]string) {
		emitWithEmb(pairs)
		if len(pairs) == maxPairs {
			return
		}
		for _, n := range objNames {
			rec(append(append([][2]string{}, pairs...), [2]string{n, fmt.Sprint(len(pairs) + 1)}))
		}
	}
	rec(nil)
}

// ---------------------------------------------------------------- listed order of names

// names that differ only by a suffix / case / a digit: the listed order is the plain order of the names
var orderNames = []string{"a", "a!", "a?", "a_", "a1", "aa", "Ab", "b", "_p", "_p!", "_p1", "_Pq",
	// long names are names like any other (32, 33, 64 and 130 characters; a long private one)
	"a" + strings.Repeat("bcdefghi", 4)[:31], "a" + strings.Repeat("bcdefghi", 4), "b" + strings.Repeat("x1_", 21), "a" + strings.Repeat("longName", 16) + "z", "_p" + strings.Repeat("q", 40)}

func genObjNames(maxPairs int, emit func(tcase)) {
	var rec func(pairs [][2]string)
	rec = func(pairs [][2]string) {
		if len(pairs) >= 2 {
			lit := make([]string, len(pairs))
			for i, p := range pairs {
				lit[i] = p[0] + ": " + p[1]
			}
			emit(tcase{Kind: "objnames", Src: "{" + strings.Join(lit, ", ") + "}", Pairs: pairs})
		}
		if len(pairs) == maxPairs {
			return
		}
	next:
		for _, n := range orderNames {
			for _, p := range pairs {
				if p[0] == n {
					continue next
				}
			}
			rec(append(append([][2]string{}, pairs...), [2]string{n, fmt.Sprint(len(pairs) + 1)}))
		}
	}
	rec(nil)
}

// private names the interpreter and its native library use themselves are names like any other in a literal
var specialNames = []string{"_name", "_iter", "_value", "_incBy", "_missing", "_literalProxy", "_error", "_init", "_isJSON", "_PANGAEA_SOURCE_PATH", "_b"}

func genSpecial(emit func(tcase)) {
	type part struct {
		emb   bool
		pairs [][2]string
	}
	for _, sn := range specialNames {
		shapes := [][]part{
			{{false, [][2]string{{"x", "1"}}}, {true, [][2]string{{sn, "7"}, {"_secret", "2"}}}},
			{{true, [][2]string{{sn, "7"}}}, {true, [][2]string{{sn, "8"}}}},
			{{false, [][2]string{{sn, "7"}}}, {true, [][2]string{{sn, "8"}}}},
			{{true, [][2]string{{sn, "7"}}}},
			{{false, [][2]string{{sn, "7"}}}},
			{{false, [][2]string{{"y", "2"}}}, {true, [][2]string{{"x", "1"}, {sn, "7"}}}},
			{{false, [][2]string{{"a", "1"}}}, {true, [][2]string{{"b", "3"}, {sn, "7"}}}, {true, [][2]string{{sn, "9"}, {"_t", "4"}}}},
		}
		for _, sh := range shapes {
			var lit []string
			vals := map[string]string{}
			var pub, priv []string
			for _, pt := range sh {
				var ps []string
				for _, kv := range pt.pairs {
					ps = append(ps, kv[0]+": "+kv[1])
					if _, dup := vals[kv[0]]; !dup {
						vals[kv[0]] = kv[1]
						if strings.HasPrefix(kv[0], "_") {
							priv = append(priv, kv[0])
						} else {
							pub = append(pub, kv[0])
						}
					}
				}
				if pt.emb {
					lit = append(lit, "**{"+strings.Join(ps, ", ")+"}")
				} else {
					lit = append(lit, ps...)
				}
			}
			sort.Strings(pub)
			sort.Strings(priv)
			all := append(append([]string{}, pub...), priv...)
			ks := func(ns []string) string {
				o := make([]string, len(ns))
				for i, n := range ns {
					o[i] = q(n)
				}
				return arr(o)
			}
			vs := make([]string, len(all))
			its := make([]string, len(all))
			for i, n := range all {
				vs[i] = vals[n]
				its[i] = "[" + q(n) + ", " + vals[n] + "]"
			}
			emit(tcase{Kind: "special", Src: "{" + strings.Join(lit, ", ") + "}", Exp: []string{ks(pub), ks(all), arr(vs), arr(its), vals[sn]}, Pairs: [][2]string{{sn, ""}}})
		}
	}
}

// reeval: one literal (one syntax node) evaluated several times with different operands gives each time what the same
// literal gives when it is written out with that operand (differential; a literal must not remember an earlier evaluation)
func genReeval(depth int, emit func(tcase)) {
	mapOps := []string{"%{}", "%{'a: 1}", "%{'b: 2, 'a: 3}", "%{[1]: 4}", "{a: 5}"}
	objOps := []string{"{}", "{a: 1}", "{b: 2, a: 3}", "{_p: 4}", "{k: 9, _q: 8}"}
	scalars := []string{"1", "2", "\"s\"", "'k"}
	type tpl struct {
		lit string
		ops []string
	}
	tpls := []tpl{
		{"%{\"k\": 1, **e}", mapOps}, {"%{1: 2, \"s\": 3, **e}", mapOps}, {"%{**e}", mapOps}, {"%{'a: 0, **e, **e}", mapOps}, {"%{[1]: 0, **e}", mapOps},
		{"{k: 1, **e}", objOps}, {"{**e}", objOps}, {"{a: 0, _p: 0, **e}", objOps}, {"{**e, **{a: 7}}", objOps},
		{"%{e: 1}", scalars}, {"%{\"k\": e}", scalars}, {"%{e: e, 1: 0}", scalars}, {"{\"c#{e}\": 1, c1: 0}", scalars}, {"{^e: 1}", []string{"\"a\"", "\"b\"", "\"_p\""}}, {"{a: e}", scalars},
	}
	for _, tp := range tpls {
		var rec func(seq []string)
		rec = func(seq []string) {
			if len(seq) >= 2 {
				var calls, written []string
				for _, o := range seq {
					calls = append(calls, "f("+o+")")
					written = append(written, "{|e| "+tp.lit+"}("+o+")")
				}
				probe := "@{|m| [m.keys(private?: true), m.values(private?: true), m.S]}"
				emit(tcase{Kind: "reeval", Src: "f := {|e| " + tp.lit + "}\n[[" + strings.Join(calls, ", ") + "]" + probe + ", [" + strings.Join(written, ", ") + "]" + probe + "]"})
			}
			if len(seq) == depth {
				return
			}
			for _, o := range tp.ops {
				rec(append(append([]string{}, seq...), o))
			}
		}
		rec(nil)
	}
}

// prog: small programs with a stated result - keys that are present with a nil / falsy value and are spelled like
// properties of maps; listing a map before and after it was shown (showing is not an operation on the map)
func genProgs(emit func(tcase)) {
	add := func(src, want string) { emit(tcase{Kind: "prog", Src: src, Exp: []string{want}}) }
	for _, k := range []string{"len", "keys", "S", "first", "max", "p", "at", "values", "zz"} {
		for _, v := range [][2]string{{"nil", "nil"}, {"0", "0"}, {"false", "false"}, {"\"\"", "\"\""}, {"[]", "[]"}} {
			add(fmt.Sprintf("m := %%{\"%s\": %s, 'other: 1}\n[m[\"%s\"], m['%s], m.at([\"%s\"]), m.keys, %%{**m}[\"%s\"], %%{'q: 2, **m}['%s]]", k, v[0], k, k, k, k, k),
				fmt.Sprintf("[%s, %s, %s, [\"%s\", \"other\"], %s, %s]", v[1], v[1], v[1], k, v[1], v[1]))
		}
	}
	for _, lit := range [][3]string{{"%{2: 'b, 1: 'a, \"z\": 0, \"a\": 9}", "[2, 1, \"z\", \"a\"]", "[\"b\", \"a\", 0, 9]"}, {"%{'y: 1, 'x: 2, [2]: 3, [1]: 4}", "[\"y\", \"x\", [2], [1]]", "[1, 2, 3, 4]"}, {"%{7: 3, **%{9: 1, 8: 2}}", "[7, 9, 8]", "[3, 1, 2]"}} {
		for _, show := range []string{"m.S", "m.repr", "m.p", "\"#{m}\"", "[m].S", "{in: m}.repr", "m == m", "m.S; m.S"} {
			add("m := "+lit[0]+"\nk1 := m.keys\n"+show+"\n[k1, m.keys, m.values, m@{|k, v| k}, %{**m}.keys, m.items@{|kv| kv[0]}]", "["+lit[1]+", "+lit[1]+", "+lit[2]+", "+lit[1]+", "+lit[1]+", "+lit[1]+"]")
		}
	}
	for _, show := range []string{"o.S", "o.repr", "o.p", "\"#{o}\"", "[o].S"} {
		add("o := {b: 1, a: 2, _q: 3, _p: 4}\nk1 := o.keys(private?: true)\n"+show+"\n[k1, o.keys(private?: true), o.values(private?: true), o@{|k, v| k}]", `[["a", "b", "_p", "_q"], ["a", "b", "_p", "_q"], [2, 1, 4, 3], ["a", "b"]]`)
	}
}

func specialBody(t tcase) string {
	return fmt.Sprintf("o := %s\n[o.keys, o.keys(private?: true), o.values(private?: true), o.items(private?: true), o['%s]]", t.Src, t.Pairs[0][0])
}

func objNamesBody(t tcase) string {
	return fmt.Sprintf("o := %s\n[o.keys, o.keys(private?: true), o.values, o.values(private?: true), o.items, o.items(private?: true), o.A, o@{|k, v| [k, v]}, %%{**o}.keys, {**o}.keys]", t.Src)
}

func objNamesExpect(t tcase) []string {
	e := objExpect(t)
	return []string{e[0], e[1], e[2], e[3], e[4], e[5], e[6], e[7], e[1], e[0]}
}

// ---------------------------------------------------------------- maps

type mkey struct {
	src, repr, class string
	scalar           bool
}

var mkeys = []mkey{
	{"1", "1", "int:1", true}, {"2", "2", "int:2", true}, {"1.0", "1.000000", "float:1", true}, {"1.0000001", "1.000000", "float:1+eps", true}, {`"1"`, `"1"`, "str:1", true},
	{"'a", `"a"`, "str:a", true}, {`"a"`, `"a"`, "str:a", true}, {"nil", "nil", "nil", true}, {"true", "true", "bool:true", true}, {"false", "false", "bool:false", true},
	{"[1]", "[1]", "arr:[1]", false}, {"[1.0]", "[1.000000]", "arr:[1.0]", false}, {"[2]", "[2]", "arr:[2]", false},
	{"{a: 1}", `{"a": 1}`, "obj:{a:1}", false}, {"%{}", "%{}", "map:{}", false},
}

type embMap struct {
	src   string
	pairs [][2]string // key id (index into mkeys as string), value
	isObj bool
}

var embMaps = []embMap{
	{"%{1: 91}", [][2]string{{"0", "91"}}, false},
	{"%{2: 92, 1: 93}", [][2]string{{"1", "92"}, {"0", "93"}}, false},
	{"%{[1]: 94}", [][2]string{{"10", "94"}}, false},
	{`%{[2]: 95, "a": 96}`, [][2]string{{"6", "96"}, {"12", "95"}}, false}, // a map iterates scalar keys first
	{"%{[1]: 89, 2: 88}", [][2]string{{"1", "88"}, {"10", "89"}}, false},   // shares a non-scalar key with another embedded map
	{"{a: 97}", [][2]string{{"6", "97"}}, true},
	{"{b: 98, a: 99}", [][2]string{{"6", "99"}, {"b", "98"}}, true}, // object pairs in sorted name order
}

type mpair struct {
	k mkey
	v string
}

func keyOf(id string) mkey {
	if id == "b" {
		return mkey{`"b"`, `"b"`, "str:b", true}
	}
	var i int
	fmt.Sscanf(id, "%d", &i)
	return mkeys[i]
}

func mapModel(t tcase) []mpair {
	var ins []mpair
	seen := map[string]bool{}
	add := func(k mkey, v string) {
		if seen[k.class] {
			return
		}
		seen[k.class] = true
		ins = append(ins, mpair{k, v})
	}
	for _, p := range t.Pairs {
		add(keyOf(p[0]), p[1])
	}
	for _, e := range t.Emb {
		var i int
		fmt.Sscanf(e, "%d", &i)
		for _, p := range embMaps[i].pairs {
			add(keyOf(p[0]), p[1])
		}
	}
	var out []mpair
	for _, p := range ins {
		if p.k.scalar {
			out = append(out, p)
		}
	}
	for _, p := range ins {
		if !p.k.scalar {
			out = append(out, p)
		}
	}
	return out
}

func mapBody(t tcase) string {
	var sb strings.Builder
	fmt.Fprintf(&sb, "m := %s\n[m.len, m.keys, m.values, m.items, m.A, m@{|k, v| [k, v]}, m.S", t.Src)
	for _, k := range mkeys {
		fmt.Fprintf(&sb, ", m[%s]", k.src)
	}
	sb.WriteString(`, m["b"], m[3], m[[3]]]`)
	return sb.String()
}

func mapExpect(t tcase) ([]string, []string) {
	m := mapModel(t)
	ks, vs, its, printed := []string{}, []string{}, []string{}, []string{}
	for _, p := range m {
		ks = append(ks, p.k.repr)
		vs = append(vs, p.v)
		its = append(its, "["+p.k.repr+", "+p.v+"]")
		printed = append(printed, p.k.repr+": "+p.v)
	}
	exp := []string{fmt.Sprint(len(m)), arr(ks), arr(vs), arr(its), arr(its), arr(its), ""}
	look := func(class string) string {
		for _, p := range m {
			if p.k.class == class {
				return p.v
			}
		}
		return "nil"
	}
	for _, k := range mkeys {
		exp = append(exp, look(k.class))
	}
	exp = append(exp, look("str:b"), "nil", "nil")
	sort.Strings(printed)
	return exp, printed
}

func genMaps(maxPairs int, emit func(tcase)) {
	var rec func(ids []int)
	rec = func(ids []int) {
		pairs := make([][2]string, len(ids))
		lit := make([]string, len(ids))
		for i, id := range ids {
			pairs[i] = [2]string{fmt.Sprint(id), fmt.Sprint(i + 1)}
			lit[i] = mkeys[id].src + ": " + fmt.Sprint(i+1)
		}
		emit(tcase{Kind: "map", Src: "%{" + strings.Join(lit, ", ") + "}", Pairs: pairs})
		if len(ids) <= 2 {
			for i := range embMaps {
				emit(tcase{Kind: "map", Src: "%{" + strings.Join(append(append([]string{}, lit...), "**"+embMaps[i].src), ", ") + "}", Pairs: pairs, Emb: []string{fmt.Sprint(i)}})
				for j := range embMaps {
					emit(tcase{Kind: "map", Src: "%{" + strings.Join(append(append([]string{}, lit...), "**"+embMaps[i].src, "**"+embMaps[j].src), ", ") + "}", Pairs: pairs, Emb: []string{fmt.Sprint(i), fmt.Sprint(j)}})
				}
			}
		}
		if len(ids) == maxPairs {
			return
		}
		for id := range mkeys {
			rec(append(append([]int{}, ids...), id))
		}
	}
	rec(nil)
}

// ---------------------------------------------------------------- keys that differ in ways a shortcut could miss

// Str keys that agree position by position in the low byte of every code point (a hash that truncates code
// points merges them), and non-scalar keys that are == although built differently (a literal and its bear
// child): every literal of <=3 pairs, as a map and (str keys) as an object.
var ckeys = []mkey{
	{`"C"`, `"C"`, "str:C", true}, {`"Ń"`, `"Ń"`, "str:Ń", true}, {`"H"`, `"H"`, "str:H", true}, {`"え"`, `"え"`, "str:え", true},
	{`"CH"`, `"CH"`, "str:CH", true}, {`"ŃH"`, `"ŃH"`, "str:ŃH", true}, {`"Cえ"`, `"Cえ"`, "str:Cえ", true},
	{"[1]", "", "arr:[1]", false}, {"[1].bear", "", "arr:[1]", false}, {"(1:5)", "", "range:1:5", false}, {"(1:5).bear", "", "range:1:5", false},
	{"%{1: 2}", "", "map:{1:2}", false}, {"%{1: 2}.bear", "", "map:{1:2}", false},
}

func genCollide(emit func(tcase)) {
	var rec func(ids []int)
	rec = func(ids []int) {
		if len(ids) > 0 {
			pairs := make([][2]string, len(ids))
			lit := make([]string, len(ids))
			allStr := true
			for i, id := range ids {
				pairs[i] = [2]string{fmt.Sprint(id), fmt.Sprint(i + 1)}
				lit[i] = ckeys[id].src + ": " + fmt.Sprint(i+1)
				allStr = allStr && ckeys[id].scalar
			}
			emit(tcase{Kind: "cmap", Src: "%{" + strings.Join(lit, ", ") + "}", Pairs: pairs})
			if allStr {
				emit(tcase{Kind: "cobj", Src: "{" + strings.Join(lit, ", ") + "}", Pairs: pairs})
			}
		}
		if len(ids) == 3 {
			return
		}
		for id := range ckeys {
			rec(append(append([]int{}, ids...), id))
		}
	}
	rec(nil)
}

func collideBody(t tcase) string {
	var sb strings.Builder
	if t.Kind == "cobj" {
		fmt.Fprintf(&sb, "m := %s\n[m.keys(private?: true).len, m.values(private?: true), m.keys(private?: true)", t.Src)
	} else {
		fmt.Fprintf(&sb, "m := %s\n[m.len, m.values, m.keys.len", t.Src)
	}
	for _, k := range ckeys {
		if t.Kind == "cobj" && !k.scalar {
			continue
		}
		fmt.Fprintf(&sb, ", m[%s]", k.src)
	}
	sb.WriteString("]")
	return sb.String()
}

func collideExpect(t tcase) []string {
	var ins []mpair
	seen := map[string]bool{}
	for _, p := range t.Pairs {
		var i int
		fmt.Sscanf(p[0], "%d", &i)
		if !seen[ckeys[i].class] {
			seen[ckeys[i].class] = true
			ins = append(ins, mpair{ckeys[i], p[1]})
		}
	}
	var ord []mpair
	if t.Kind == "cobj" {
		// public names (identifier-like) in sorted order, then the others in sorted order
		ident := regexp.MustCompile(`^[a-zA-Z][a-zA-Z0-9_]*[!?]?$`)
		for _, pub := range []bool{true, false} {
			var part []mpair
			for _, p := range ins {
				if ident.MatchString(strings.Trim(p.k.src, `"`)) == pub {
					part = append(part, p)
				}
			}
			sort.Slice(part, func(a, b int) bool { return part[a].k.src < part[b].k.src })
			ord = append(ord, part...)
		}
	} else {
		for _, sc := range []bool{true, false} {
			for _, p := range ins {
				if p.k.scalar == sc {
					ord = append(ord, p)
				}
			}
		}
	}
	vs, ks := []string{}, []string{}
	for _, p := range ord {
		vs = append(vs, p.v)
		ks = append(ks, p.k.repr)
	}
	exp := []string{fmt.Sprint(len(ord)), arr(vs)}
	if t.Kind == "cobj" {
		exp = append(exp, arr(ks))
	} else {
		exp = append(exp, fmt.Sprint(len(ord)))
	}
	for _, k := range ckeys {
		if t.Kind == "cobj" && !k.scalar {
			continue
		}
		v := "nil"
		for _, p := range ord {
			if p.k.class == k.class {
				v = p.v
			}
		}
		exp = append(exp, v)
	}
	return exp
}

// ---------------------------------------------------------------- sequences of literals sharing an embedded value

// seqBody: the embedded containers are bound to variables, two literals unpack the same first container one
// after the other; both results and the shared container itself must be what each literal alone would give.
func seqBody(t tcase) string {
	var i, j, k int
	fmt.Sscanf(t.Emb[0], "%d", &i)
	fmt.Sscanf(t.Emb[1], "%d", &j)
	fmt.Sscanf(t.Emb[2], "%d", &k)
	if t.Kind == "objseq" {
		first := "{**e0, **e1}"
		if t.Src != "" && strings.HasPrefix(t.Src, "call:") {
			// the first merge happens in the argument list of a call (the keyword-argument object the callee receives)
			first = "{|| \\_}(**e0, **e1)"
		}
		return fmt.Sprintf("e0 := %s\ne1 := %s\ne2 := %s\nr1 := "+first+"\nr2 := {**e0, **e2}\n[r1.S, r2.S, e0.S, r1.items(private?: true), r2.items(private?: true), e0.items(private?: true), {**e0}.S]",
			embObjs[i].src, embObjs[j].src, embObjs[k].src)
	}
	return fmt.Sprintf("e0 := %s\ne1 := %s\ne2 := %s\nr1 := %%{**e0, **e1}\nr2 := %%{**e0, **e2}\n[r1.A, r2.A, e0.A, r1.len, r2.len, %%{**e0}.A]",
		embMaps[i].src, embMaps[j].src, embMaps[k].src)
}

func seqExpect(t tcase) []string {
	if t.Kind == "objseq" {
		one := func(emb []string) (string, string) {
			pub, priv, vals := objModel(tcase{Kind: "obj", Emb: emb})
			all := append(append([]string{}, pub...), priv...)
			sorted := append([]string{}, all...)
			sort.Strings(sorted)
			rp := make([]string, len(sorted))
			for i, n := range sorted {
				rp[i] = q(n) + ": " + vals[n]
			}
			its := make([]string, len(all))
			for i, n := range all {
				its[i] = "[" + q(n) + ", " + vals[n] + "]"
			}
			return "{" + strings.Join(rp, ", ") + "}", arr(its)
		}
		s1, i1 := one([]string{t.Emb[0], t.Emb[1]})
		s2, i2 := one([]string{t.Emb[0], t.Emb[2]})
		s0, i0 := one([]string{t.Emb[0]})
		return []string{"S:" + s1, "S:" + s2, "S:" + s0, i1, i2, i0, "S:" + s0}
	}
	one := func(emb []string) (string, string) {
		m := mapModel(tcase{Kind: "map", Emb: emb})
		its := []string{}
		for _, p := range m {
			its = append(its, "["+p.k.repr+", "+p.v+"]")
		}
		return arr(its), fmt.Sprint(len(m))
	}
	a1, l1 := one([]string{t.Emb[0], t.Emb[1]})
	a2, l2 := one([]string{t.Emb[0], t.Emb[2]})
	a0, _ := one([]string{t.Emb[0]})
	return []string{a1, a2, a0, l1, l2, a0}
}

func genSeqs(emit func(tcase)) {
	for i := range embObjs {
		for j := range embObjs {
			for k := range embObjs {
				emit(tcase{Kind: "objseq", Src: fmt.Sprintf("{**%s, **%s} then {**%s, **%s}", embObjs[i].src, embObjs[j].src, embObjs[i].src, embObjs[k].src), Emb: []string{fmt.Sprint(i), fmt.Sprint(j), fmt.Sprint(k)}})
				emit(tcase{Kind: "objseq", Src: fmt.Sprintf("call:f(**%s, **%s) then {**%s, **%s}", embObjs[i].src, embObjs[j].src, embObjs[i].src, embObjs[k].src), Emb: []string{fmt.Sprint(i), fmt.Sprint(j), fmt.Sprint(k)}})
			}
		}
	}
	for i := range embMaps {
		for j := range embMaps {
			for k := range embMaps {
				if embMaps[i].isObj {
					continue
				}
				emit(tcase{Kind: "mapseq", Src: fmt.Sprintf("%%{**%s, **%s} then %%{**%s, **%s}", embMaps[i].src, embMaps[j].src, embMaps[i].src, embMaps[k].src), Emb: []string{fmt.Sprint(i), fmt.Sprint(j), fmt.Sprint(k)}})
			}
		}
	}
}

func judgeSeq(c *core.Ctx, t tcase, o panrun.Obs) {
	c.Nontrivial(1)
	c.Validated(1)
	a, ok := o.Val.(*object.PanArr)
	exp := seqExpect(t)
	if o.Kind != "value" || !ok || len(a.Elems) != len(exp) {
		c.Violation(core.Violation{Key: t.Kind + "/evaluation-failed", Case: core.JSON(t), Desc: t.Src, Expected: "a value", Observed: o.Short()})
		return
	}
	c.Outcome(t.Kind + ":ok")
	names := []string{"first literal", "second literal", "shared container afterwards", "first literal items", "second literal items", "shared container items/len", "fresh unpack of the shared container"}
	for i, e := range exp {
		got := a.Elems[i].Inspect()
		if strings.HasPrefix(e, "S:") {
			e = e[2:]
			if s, isStr := a.Elems[i].(*object.PanStr); isStr {
				got = s.Value
			}
		}
		if got != e {
			c.Violation(core.Violation{Key: t.Kind + "/" + strings.ReplaceAll(names[i%len(names)], " ", "-"), Case: core.JSON(t), Desc: t.Src, Expected: names[i%len(names)] + " = " + e, Observed: got,
				Repro: strings.Replace(seqBody(t), "\n[", "\n[r1, r2, e0].p\n[", 1) + "\n"})
			return
		}
	}
}

// ---------------------------------------------------------------- judging

func nontrivial(t tcase) bool {
	if t.Kind == "reeval" || t.Kind == "special" || t.Kind == "prog" {
		return true
	}
	if len(t.Emb) > 0 {
		return true
	}
	seen := map[string]bool{}
	for _, p := range t.Pairs {
		if seen[p[0]] || strings.HasPrefix(p[0], "_") {
			return true
		}
		seen[p[0]] = true
		if t.Kind == "map" && !keyOf(p[0]).scalar {
			return true
		}
	}
	return false
}

func splitTop(s string) []string {
	// split "a: 1, b: 2" at top-level ", "
	var parts []string
	depth, start := 0, 0
	for i := 0; i < len(s); i++ {
		switch s[i] {
		case '[', '{', '(':
			depth++
		case ']', '}', ')':
			depth--
		case ',':
			if depth == 0 {
				parts = append(parts, strings.TrimSpace(s[start:i]))
				start = i + 1
			}
		}
	}
	if strings.TrimSpace(s[start:]) != "" {
		parts = append(parts, strings.TrimSpace(s[start:]))
	}
	return parts
}

func judge(c *core.Ctx, t tcase, o panrun.Obs) {
	if nontrivial(t) {
		c.Nontrivial(1)
	}
	c.Validated(1)
	viol := func(class, exp, got string) {
		c.Violation(core.Violation{Key: t.Kind + "/" + class, Case: core.JSON(t), Desc: t.Src, Expected: exp, Observed: got, Repro: "x := " + t.Src + "\n[x, x.keys, x.values].p\n"})
	}
	if o.Kind == "syntax" {
		c.HarnessError("generated literal does not parse: %s: %s", t.Src, o.ErrMsg)
		return
	}
	a, ok := o.Val.(*object.PanArr)
	if o.Kind != "value" || !ok {
		c.Outcome(t.Kind + ":" + o.Kind)
		viol("evaluation-failed", "a value", o.Short())
		return
	}
	c.Outcome(t.Kind + ":ok")
	if t.Kind == "objseq" || t.Kind == "mapseq" {
		judgeSeq(c, t, o)
		return
	}
	if t.Kind == "cmap" || t.Kind == "cobj" {
		names := []string{"len", "values", "keys"}
		for i, e := range collideExpect(t) {
			if got := a.Elems[i].Inspect(); got != e {
				class := "index"
				if i < len(names) {
					class = names[i]
				}
				viol(class, fmt.Sprintf("element %d = %s", i, e), got)
				return
			}
		}
		return
	}
	if t.Kind == "reeval" {
		if len(a.Elems) != 2 || a.Elems[0].Inspect() != a.Elems[1].Inspect() {
			viol("literal-evaluated-again", "every evaluation of the literal gives what a literal written for that operand gives: "+a.Elems[1].Inspect(), a.Elems[0].Inspect())
		}
		return
	}
	if t.Kind == "prog" {
		if got := a.Inspect(); got != t.Exp[0] {
			viol("program-with-stated-result", t.Exp[0], got)
		}
		return
	}
	if t.Kind == "special" {
		for i, e := range t.Exp {
			if got := a.Elems[i].Inspect(); got != e {
				viol("special-private-name/"+[]string{"keys", "keys-private", "values-private", "items-private", "index"}[i], e, got)
				return
			}
		}
		return
	}
	if t.Kind == "objnames" {
		for i, e := range objNamesExpect(t) {
			if got := a.Elems[i].Inspect(); got != e {
				viol("listed-order/"+[]string{"keys", "keys-private", "values", "values-private", "items", "items-private", "A", "iteration", "map-unpack-keys", "obj-unpack-keys"}[i], e, got)
				return
			}
		}
		return
	}
	if t.Kind == "obj" {
		exp := objExpect(t)
		for i, e := range exp {
			got := a.Elems[i].Inspect()
			if i == 8 {
				if s, ok := a.Elems[i].(*object.PanStr); ok {
					got = s.Value
				}
			}
			if got != e {
				class := "accessor-" + objAccessors[i]
				if len(t.Emb) > 0 {
					class += "/with-embedded"
				}
				viol(class, objAccessors[i]+" = "+e, got)
			}
		}
		return
	}
	exp, printed := mapExpect(t)
	embObj, embMap2 := false, false
	for _, e := range t.Emb {
		var i int
		fmt.Sscanf(e, "%d", &i)
		if embMaps[i].isObj {
			embObj = true
		} else {
			embMap2 = true
		}
	}
	suffix := ""
	if embMap2 {
		suffix = "/with-embedded-map"
	}
	if embObj {
		suffix += "/with-embedded-obj"
	}
	names := []string{"len", "keys", "values", "items", "A", "iteration", "S"}
	for i, e := range exp {
		got := a.Elems[i].Inspect()
		if i == 6 {
			s, ok := a.Elems[i].(*object.PanStr)
			if !ok {
				viol("S-not-a-string"+suffix, "string", got)
				continue
			}
			body := strings.TrimSuffix(strings.TrimPrefix(s.Value, "%{"), "}")
			parts := splitTop(body)
			sort.Strings(parts)
			if strings.Join(parts, " | ") != strings.Join(printed, " | ") {
				viol("printed-pairs"+suffix, strings.Join(printed, " | "), strings.Join(parts, " | "))
			}
			continue
		}
		if got != e {
			class := "index"
			if i < len(names) {
				class = names[i]
				// same set in another order?
				if i >= 1 && i <= 5 {
					strip := func(x string) string { return strings.TrimSuffix(strings.TrimPrefix(x, "["), "]") }
					ge, ee := splitTop(strip(got)), splitTop(strip(e))
					sort.Strings(ge)
					sort.Strings(ee)
					if strings.Join(ge, "|") == strings.Join(ee, "|") {
						class = "order"
					}
				}
			}
			viol(class+suffix, fmt.Sprintf("element %d = %s", i, e), got)
		}
	}
}

func run(c *core.Ctx) {
	maxP := c.Pick(4, 5)
	c.Note("max_pairs", maxP)
	n := 0
	total := tk.Batched(c, 600, "", func(emit func(tcase)) {
		genObjs(maxP, emit)
		genMaps(maxP, emit)
		genSeqs(emit)
		genObjNames(c.Pick(3, 4), emit)
		genCollide(emit)
		genSpecial(emit)
		genProgs(emit)
		genReeval(c.Pick(3, 4), emit)
	}, func(t tcase) string {
		if t.Kind == "reeval" || t.Kind == "prog" {
			return t.Src
		}
		if t.Kind == "special" {
			return specialBody(t)
		}
		if t.Kind == "cmap" || t.Kind == "cobj" {
			return collideBody(t)
		}
		if t.Kind == "objnames" {
			return objNamesBody(t)
		}
		if t.Kind == "objseq" || t.Kind == "mapseq" {
			return seqBody(t)
		}
		if t.Kind == "obj" {
			return objBody(t)
		}
		return mapBody(t)
	}, func(t tcase, o panrun.Obs) {
		n++
		if n%900 == 1 {
			c.Sample(map[string]string{"literal": t.Src, "kind": t.Kind})
		}
		judge(c, t, o)
	})
	c.Note("literals_total", total)
}

func replay(c *core.Ctx, raw json.RawMessage) {
	var t tcase
	if err := json.Unmarshal(raw, &t); err != nil {
		c.HarnessError("bad case: %v", err)
		return
	}
	body := mapBody(t)
	if t.Kind == "obj" {
		body = objBody(t)
	}
	if t.Kind == "objseq" || t.Kind == "mapseq" {
		body = seqBody(t)
	}
	if t.Kind == "objnames" {
		body = objNamesBody(t)
	}
	if t.Kind == "cmap" || t.Kind == "cobj" {
		body = collideBody(t)
	}
	if t.Kind == "special" {
		body = specialBody(t)
	}
	if t.Kind == "reeval" || t.Kind == "prog" {
		body = t.Src
	}
	obs := c.R().Thunks("", []string{body}, "")
	c.Eval(1)
	judge(c, t, obs[0])
}
