// Package c12: one truthiness rule governs if/else, guards, !, && and ||, with short-circuiting
// (property C12).
package c12

import (
	"encoding/json"
	"fmt"
	"strings"

	"github.com/Syuparn/pangaea/object"

	"panmc/internal/core"
	"panmc/internal/panrun"
	"panmc/internal/tk"
)

func init() {
	core.Register(&core.Check{
		ID:    "C12",
		Level: "model_checking",
		Rule: "every condition value of the pool (each built-in type at zero and non-zero, prototypes, bear children, typed descendants, objects with user-defined B) x 10 conditional constructs with tracing operands, " +
			"and all ordered pairs of pool values for && and ||; expected behaviour derived from the single rule `c.B is the true object` evaluated in the same run, with B itself pinned for the documented zero values (falsy) and for 23 built-in non-zero values (truthy; incl. non-empty objects/maps/arrays without a public identifier-named key or with only falsy elements); operand identity by Go pointer; " +
			"one iterator instance (4 ways of making it) polled 4 times under every sequence of guard truth values; " +
			"nested short-circuit expressions: every triple over 11 values x 10 ways of combining two operators of {&&, ||, !} x 3 spellings (fully parenthesised, by precedence, as the condition of if/else) with tracing operands - which operands run, in which order, and which operand is the result follow from the rule applied operator by operator; " +
			"non-trivial = every (value, construct) and (value, value, operator) instance; distinct = distinct source; round 7: The pool pins negative zeros of five origins as zero values and holds objects whose B yields a non-boolean; constructs also include `!!c`, `!(!c)`, `c.!` and `x if !!c else y`.; round 8: One conditional written once inside a function is evaluated three times with conditions of alternating truth (18 constructs x 61 value triples); guards are looked at once and where the statement stands (traced guards, guard variables changed afterwards); function descendants are truthy.",
		Assumptions: []string{
			"a B that fails (Func.B, BaseObj) counts as not-true (the rule says: true exactly when B yields true)",
			"BaseObj has neither B nor ! and is not used with the ! construct; user-defined B that raises is not generated",
		},
		Run:    run,
		Replay: replay,
	})
}

type cval struct {
	Src    string `json:"src"`
	Zero   bool   `json:"zero,omitempty"` // documented zero value: must be falsy
	NoBang bool   `json:"nobang,omitempty"`
	// a built-in value that is not one of the documented zero values: must be truthy
	NonZero bool `json:"nonzero,omitempty"`
}

const prelude = `tr := {|tag, v| tag.p; v}
IB := Int.bear
FBz := Float.bear
`

func pool(thorough bool) []cval {
	p := []cval{
		{Src: "0", Zero: true}, {Src: "1", NonZero: true}, {Src: "(-1)", NonZero: true}, {Src: "0.0", Zero: true}, {Src: "1.5", NonZero: true}, {Src: `""`, Zero: true}, {Src: `"a"`, NonZero: true}, {Src: `"false"`, NonZero: true},
		{Src: "[]", Zero: true}, {Src: "[0]", NonZero: true}, {Src: "[nil]", NonZero: true}, {Src: "{}", Zero: true}, {Src: "{a: 1}", NonZero: true}, {Src: "%{}", Zero: true}, {Src: "%{1: 2}", NonZero: true},
		{Src: "nil", Zero: true}, {Src: "true", NonZero: true}, {Src: "false", Zero: true},
		{Src: "(1:3)"}, {Src: "(nil:nil)"}, {Src: "{|x| x}"}, {Src: "m{|x| x}"}, {Src: "<{|x| yield x}>"},
		{Src: "Int"}, {Src: "Float"}, {Src: "Str"}, {Src: "Arr"}, {Src: "Obj"}, {Src: "Map"}, {Src: "Nil"}, {Src: "Range"}, {Src: "Func"}, {Src: "Err"},
		{Src: "BaseObj", NoBang: true},
		{Src: "IB.new(3)"}, {Src: `Str.bear.new("x")`}, {Src: "{}.bear"}, {Src: "{a: 1}.bear"}, {Src: "{}.bear({b: 1})"},
		{Src: "{B: true}"}, {Src: "{B: false}"}, {Src: "{B: 1}"}, {Src: "{B: nil}"}, {Src: "{B: m{true}}"}, {Src: "{B: m{false}}"}, {Src: "{B: m{1}}"}, {Src: "{B: m{.x}, x: true}"}, {Src: "{B: m{.x}, x: 0}"},
		// typed descendants whose own B disagrees with the built-in rule of their type
		{Src: "Int.bear({B: m{self > 10}}).new(5)"}, {Src: "Int.bear({B: m{self > 10}}).new(50)"}, {Src: "Int.bear({B: m{self < 1}}).new(0)"}, {Src: "Int.bear({B: true}).new(0)"},
		{Src: "Float.bear({B: m{false}}).new(1.5)"}, {Src: "Float.bear({B: m{true}}).new(0.0)"}, {Src: `Str.bear({B: m{false}}).new("x")`}, {Src: `Str.bear({B: m{true}}).new("")`},
		{Src: "Arr.bear({B: m{false}}).new([1])"}, {Src: "Arr.bear({B: m{true}}).new([])"}, {Src: "Map.bear({B: m{true}}).new(%{})"}, {Src: "true.bear({B: false})"}, {Src: "false.bear({B: true})"}, {Src: "nil.bear({B: true})"},
		// non-empty objects/maps/arrays that have no public identifier-named key or only falsy elements
		{Src: "{_p: 1}", NonZero: true}, {Src: `{"user-id": 5}`, NonZero: true}, {Src: "{'+: 1}", NonZero: true}, {Src: "{}.bear({_x: 2})", NonZero: true},
		{Src: "%{nil: nil}", NonZero: true}, {Src: "%{[]: 0}", NonZero: true}, {Src: "[[]]", NonZero: true}, {Src: "[false]", NonZero: true}, {Src: `" "`, NonZero: true}, {Src: `"0"`, NonZero: true},
		{Src: "0.5", NonZero: true}, {Src: "(-0.5)", NonZero: true}, {Src: `"inf".F`, NonZero: true},
		// zero values that are not the canonical objects: results of arithmetic on descendants / booleans, typed zero values
		{Src: "(true - 1)", Zero: true}, {Src: "(false * 7)", Zero: true}, {Src: "(IB.new(3) - 3)", Zero: true}, {Src: "(5.bear({}) - 5)", Zero: true}, {Src: "IB.new(0)", Zero: true},
		{Src: "Float.bear.new(0.0)", Zero: true}, {Src: "(FBz.new(1.5) - 1.5)", Zero: true}, {Src: `Str.bear.new("")`, Zero: true}, {Src: `(Str.bear.new("a") * 0)`, Zero: true},
		{Src: "Arr.bear.new([])", Zero: true}, {Src: "[1][1:]", Zero: true}, {Src: `"a"[1:]`, Zero: true}, {Src: "{a: 1}.del('a)", Zero: true}, {Src: "(1 - 1)", Zero: true}, {Src: "(0.5 - 0.5)", Zero: true},
		// booleans and zero values that come out of built-ins rather than literals; iterators of built-in collections
		{Src: "JSON.dec(`true`)", NonZero: true}, {Src: "JSON.dec(`false`)", Zero: true}, {Src: "JSON.dec(`[true, false]`)[0]", NonZero: true}, {Src: "JSON.dec(`{\"a\": false}`)['a]", Zero: true},
		{Src: "JSON.dec(`0`)", Zero: true}, {Src: "JSON.dec(`\"\"`)", Zero: true}, {Src: "JSON.dec(`[]`)", Zero: true}, {Src: "JSON.dec(`{}`)", Zero: true}, {Src: "JSON.dec(`null`)", Zero: true}, {Src: "JSON.dec(`1.5`)", NonZero: true},
		{Src: "(1 == 1)", NonZero: true}, {Src: "(1 == 2)", Zero: true}, {Src: "(!nil)", NonZero: true}, {Src: "[].empty?", NonZero: true}, {Src: "1.kindOf?(Str)", Zero: true}, {Src: `"true".decJSON`, NonZero: true},
		{Src: "[1]._iter", NonZero: true}, {Src: `"a"._iter`, NonZero: true}, {Src: "(1:3)._iter", NonZero: true}, {Src: "{a: 1}._iter", NonZero: true}, {Src: "%{1: 2}._iter", NonZero: true}, {Src: "[]._iter", NonZero: true}, {Src: "<{|x| yield x}>.new(1)", NonZero: true},
		{Src: "1.try"}, {Src: "nil.try"}, {Src: "1.try./(0)"}, {Src: "1.try./(0).err"}, {Src: `"nan".F`},
		// negative zero is the zero value 0.0 (`-0.0 == 0.0`), however it is produced
		{Src: "(-0.0)", Zero: true}, {Src: "(0.0 * -1)", Zero: true}, {Src: `"-0".F`, Zero: true}, {Src: "0.0.-%", Zero: true}, {Src: "Float.bear.new(-0.0)", Zero: true},
		// a user-defined B that yields something other than a boolean: the value is false (B does not yield true)
		// descendants of functions (Func#B answers for the whole family)
		{Src: "{|x| x}.bear", NonZero: true}, {Src: "m{1}.bear({a: 1})", NonZero: true}, {Src: "Int['+].bear", NonZero: true}, {Src: "{|x| x}.bear.bear({b: 2})", NonZero: true}, {Src: "<{|x| yield x}>.bear", NonZero: true},
		// a B that does not yield true because it fails: the value counts as false in every construct alike
		{Src: "Func", NoBang: false}, {Src: "Iter"},
		// B held as a descendant of a function (`o.B` yields that object, not true: falsy), and B methods that themselves use
		// a child of the same prototype as a condition (the rule applied inside the rule)
		{Src: "{B: {|o| true}.bear({doc: 1})}"}, {Src: "{B: m{true}.bear({doc: 1})}"},
		{Src: "{|T| T.bear({leaf: false, kid: T.bear({leaf: true})})}({B: m{return true if .leaf; (1 if .kid else 0) == 1}})"},
		{Src: "{|T| T.bear({leaf: false, kid: T.bear({leaf: false, kid: nil})})}({B: m{return true if .leaf; (1 if .kid else 0) == 1}})"},
		{Src: "{|T| T.bear({kid: T.bear({kid: T.bear({kid: 1})})})}({B: m{(.kid && true) == true}})"},
		{Src: "{B: 1}"}, {Src: `{B: "yes"}`}, {Src: "{n: 3, B: m{.n}}"}, {Src: "{B: m{[3]}}.bear"}, {Src: "7.bear({B: 1})"},
	}
	if thorough {
		p = append(p, cval{Src: "(0:0)"}, cval{Src: "Float.bear.new(2.0)"}, cval{Src: "{B: true}.bear"}, cval{Src: "{B: false}.bear({x: 1})"},
			cval{Src: "Kernel"}, cval{Src: "Either"}, cval{Src: "Iter"}, cval{Src: "Comparable"}, cval{Src: "JSON"}, cval{Src: "Diamond"}, cval{Src: "Num"},
			cval{Src: "9223372036854775807"}, cval{Src: "{B: m{[]}}"}, cval{Src: `{B: "true"}`}, cval{Src: "true.bear"}, cval{Src: "false.bear"})
	}
	return p
}

type construct struct {
	name string
	body func(k string) string
	// expected (stdout, result) for truthy / falsy; result "" = identity with the condition value
	tOut, tRes, fOut, fRes string
}

var constructs = []construct{
	{"if-else", func(k string) string { return fmt.Sprintf(`tr("T", 11) if %s else tr("E", 22)`, k) }, "T\n", "11", "E\n", "22"},
	{"if", func(k string) string { return fmt.Sprintf(`tr("T", 11) if %s`, k) }, "T\n", "11", "", "nil"},
	{"guarded-return", func(k string) string { return fmt.Sprintf("return tr(\"T\", 11) if %s\ntr(\"F\", 22)", k) }, "T\n", "11", "F\n", "22"},
	{"guarded-raise", func(k string) string { return fmt.Sprintf("raise Err.new(\"boom\") if %s\ntr(\"F\", 22)", k) }, "", "E:Err: boom", "F\n", "22"},
	{"guarded-yield", func(k string) string { return fmt.Sprintf(`<{|| yield tr("T", 11) if %s}>.new.next`, k) }, "T\n", "11", "", "E:StopIterErr: iter stopped"},
	{"guarded-defer", func(k string) string { return fmt.Sprintf("defer tr(\"D\", 0) if %s\ntr(\"B\", 22)", k) }, "B\nD\n", "22", "B\n", "22"},
	// the guard is looked at where the statement stands: once, with the value it has there
	{"guarded-defer-traced-guard", func(k string) string { return fmt.Sprintf("defer tr(\"D\", 0) if tr(\"G\", %s)\ntr(\"B\", 22)", k) }, "G\nB\nD\n", "22", "G\nB\n", "22"},
	{"guarded-defer-guard-variable-cleared-later", func(k string) string {
		return fmt.Sprintf("gv := %s\ndefer tr(\"D\", 0) if gv\ngv := nil\ntr(\"B\", 22)", k)
	}, "B\nD\n", "22", "B\n", "22"},
	{"guarded-defer-guard-variable-set-later", func(k string) string {
		return fmt.Sprintf("gv := %s\ndefer tr(\"D\", 0) if gv\ngv := 1\ntr(\"B\", 22)", k)
	}, "B\nD\n", "22", "B\n", "22"},
	{"guarded-return-traced-guard", func(k string) string { return fmt.Sprintf("return tr(\"T\", 11) if tr(\"G\", %s)\ntr(\"F\", 22)", k) }, "G\nT\n", "11", "G\nF\n", "22"},
	{"not", func(k string) string { return "!" + k }, "", "false", "", "true"},
	{"not-not", func(k string) string { return "!!" + k }, "", "true", "", "false"},
	{"not-paren-not", func(k string) string { return "!(!" + k + ")" }, "", "true", "", "false"},
	{"not-method", func(k string) string { return k + ".!" }, "", "false", "", "true"},
	{"if-not-not", func(k string) string { return fmt.Sprintf(`tr("T", 11) if !!%s else tr("E", 22)`, k) }, "T\n", "11", "E\n", "22"},
	{"and-traced", func(k string) string { return fmt.Sprintf(`%s && tr("R", 55)`, k) }, "R\n", "55", "", ""},
	{"or-traced", func(k string) string { return fmt.Sprintf(`%s || tr("R", 55)`, k) }, "", "", "R\n", "55"},
	{"nested-if", func(k string) string {
		return fmt.Sprintf(`(tr("A", 1) if %s else tr("B", 2)) if %s else (tr("C", 3) if %s else tr("D", 4))`, k, k, k)
	}, "A\n", "1", "D\n", "4"},
}

type tcase struct {
	Kind string `json:"kind"` // construct | pair
	I    int    `json:"i"`
	J    int    `json:"j,omitempty"`
	Vals []cval `json:"vals"`
	// again: construct I evaluated with againVals[Again[0]], [1], [2] in turn
	Again []int `json:"again,omitempty"`
}

func name(i int) string { return fmt.Sprintf("k%d", i) }

func show(o panrun.Obs) string {
	switch o.Kind {
	case "value":
		return o.Repr
	case "error":
		return "E:" + o.ErrKind + ": " + o.ErrMsg
	}
	return o.Kind + ":" + o.Panic
}

// checkValue runs everything for condition value i (pairs with every j) in one thunk batch so that
// pointer identities are comparable.
func checkValue(c *core.Ctx, p []cval, i int, pairs bool) {
	var pre strings.Builder
	pre.WriteString(prelude)
	for k, v := range p {
		fmt.Fprintf(&pre, "%s := %s\n", name(k), v.Src)
	}
	var bodies []string
	// fetch thunks (pointer of every pool value), then B of every value
	for k := range p {
		bodies = append(bodies, name(k))
	}
	for k := range p {
		bodies = append(bodies, name(k)+".B")
	}
	base := len(bodies)
	for _, cs := range constructs {
		bodies = append(bodies, cs.body(name(i)))
	}
	pbase := len(bodies)
	if pairs {
		for j := range p {
			bodies = append(bodies, name(i)+" && "+name(j), name(i)+" || "+name(j))
		}
	}
	obs := c.R().Thunks(pre.String(), bodies, "")
	n := len(p)
	ptr := func(k int) object.PanObject { return obs[k].Val }
	truthy := func(k int) bool {
		o := obs[n+k]
		return o.Kind == "value" && o.Val == object.PanObject(object.BuiltInTrue)
	}
	for k := 0; k < 2*n; k++ {
		if obs[k].Kind == "panic" || obs[k].Kind == "syntax" || (k < n && obs[k].Kind != "value") {
			c.HarnessError("pool value %s: %s", bodies[k], show(obs[k]))
			return
		}
	}
	t := truthy(i)
	c.Outcome(fmt.Sprintf("B(%s)=%v", p[i].Src, t))
	viol := func(kind, cons string, j int, exp, got string, body string) {
		vals := []cval{p[i]}
		key := cons
		desc := strings.ReplaceAll(body, name(i), p[i].Src)
		tc := tcase{Kind: kind, I: 0, Vals: vals}
		if kind == "pair" {
			tc.Vals = []cval{p[i], p[j]}
			tc.J = 1
			desc = strings.ReplaceAll(desc, name(j), p[j].Src)
		}
		c.Violation(core.Violation{Key: key, Case: core.JSON(tc), Desc: desc, Expected: exp, Observed: got, Repro: prelude + "(" + strings.ReplaceAll(desc, "\n", "; ") + ").p\n"})
	}
	if p[i].Zero {
		c.Eval(1)
		c.Nontrivial(1)
		if t {
			viol("construct", "zero-value-truthy", 0, "documented zero value is falsy", "B yields true", name(i)+".B")
		}
	}
	if p[i].NonZero {
		c.Eval(1)
		c.Nontrivial(1)
		if !t {
			viol("construct", "non-zero-built-in-value-falsy", 0, "a built-in value other than the documented zero values is truthy", "B does not yield true", name(i)+".B")
		}
	}
	for q, cs := range constructs {
		if strings.Contains(cs.name, "not") && p[i].NoBang {
			continue
		}
		o := obs[base+q]
		c.Eval(1)
		c.Nontrivial(1)
		c.Validated(1)
		wantOut, wantRes := cs.fOut, cs.fRes
		if t {
			wantOut, wantRes = cs.tOut, cs.tRes
		}
		got := show(o)
		okRes := got == wantRes
		if wantRes == "" { // identity with the condition value
			okRes = o.Kind == "value" && o.Val == ptr(i)
			wantRes = "the left operand itself (" + p[i].Src + ")"
		}
		if o.Out != wantOut || !okRes {
			viol("construct", cs.name, 0, fmt.Sprintf("B=%v: out=%q result=%s", t, wantOut, wantRes), fmt.Sprintf("out=%q result=%s", o.Out, got), bodies[base+q])
		}
	}
	if pairs {
		for j := range p {
			for w, op := range []string{"&&", "||"} {
				o := obs[pbase+2*j+w]
				c.Eval(1)
				c.Nontrivial(1)
				c.Validated(1)
				var want object.PanObject
				if (op == "&&") == t {
					want = ptr(j)
				} else {
					want = ptr(i)
				}
				if o.Kind != "value" || o.Val != want {
					viol("pair", "pair-"+op, j, fmt.Sprintf("B(left)=%v: the deciding operand itself (%s)", t, want.Inspect()), show(o), bodies[pbase+2*j+w])
				}
			}
		}
	}
}

// ---------------------------------------------------------------- one conditional evaluated again with another condition

// The same construct (one syntax node inside a function) is evaluated three times with conditions of alternating
// truth: every evaluation decides by the condition it is given, not by what an earlier evaluation found.
type againVal struct {
	src, repr string
	truthy    bool
}

var againVals = []againVal{{"1", "1", true}, {`"a"`, `"a"`, true}, {"[0]", "[0]", true}, {"true", "true", true}, {"{B: true}", `{"B": true}`, true},
	{"0", "0", false}, {`""`, `""`, false}, {"nil", "nil", false}, {"false", "false", false}, {"{B: 1}", `{"B": 1}`, false}, {"(-0.0)", "-0.000000", false}}

func againSrc(ci int, vals []int) string {
	var calls []string
	for _, v := range vals {
		calls = append(calls, fmt.Sprintf("nil.try.{|u| f(%s)}.A", againVals[v].src))
	}
	return prelude + "f := {|k| " + constructs[ci].body("k") + "}\n[" + strings.Join(calls, ", ") + "]"
}

func againWant(ci int, vals []int) (out, res string) {
	cs := constructs[ci]
	var parts []string
	for _, v := range vals {
		av := againVals[v]
		o, r := cs.fOut, cs.fRes
		if av.truthy {
			o, r = cs.tOut, cs.tRes
		}
		if r == "" {
			r = av.repr
		}
		out += o
		if strings.HasPrefix(r, "E:") {
			parts = append(parts, "[nil, ["+strings.TrimPrefix(r, "E:")+"]]")
		} else {
			parts = append(parts, "["+r+", nil]")
		}
	}
	return out, "[" + strings.Join(parts, ", ") + "]"
}

func checkAgain(c *core.Ctx) {
	k := 0
	for ci := range constructs {
		for a := range againVals {
			for b := range againVals {
				if againVals[a].truthy == againVals[b].truthy && a != b {
					continue
				}
				k++
				if !c.Mine(k) {
					continue
				}
				judgeAgain(c, ci, []int{a, b, a})
			}
		}
	}
}

func judgeAgain(c *core.Ctx, ci int, vals []int) {
	src := againSrc(ci, vals)
	o := c.R().EvalSrc(src, "")
	c.Eval(1)
	c.Nontrivial(1)
	c.Validated(1)
	wantOut, wantRes := againWant(ci, vals)
	if o.Kind == "syntax" {
		c.HarnessError("again program does not parse: %s: %s", src, o.ErrMsg)
		return
	}
	ok := o.Kind == "value" && o.Repr == wantRes && o.Out == wantOut
	c.Outcome("again:" + map[bool]string{true: "ok", false: "differs"}[ok])
	if !ok {
		c.Violation(core.Violation{Key: "evaluated-again/" + constructs[ci].name, Case: core.JSON(tcase{Kind: "again", I: ci, Again: vals}), Desc: strings.ReplaceAll(strings.TrimPrefix(src, prelude), "\n", "; "),
			Expected: fmt.Sprintf("out=%q result=%s", wantOut, wantRes), Observed: fmt.Sprintf("out=%q %s", o.Out, show(o)), Repro: src + ".p\n"})
	}
}

// ---------------------------------------------------------------- one object whose B answers differently over time

// The rule is asked every time a value is used as a condition: an object whose B reads a variable is used by the
// same construct before and after that variable changes (true, false, true).
func checkStateful(c *core.Ctx) {
	for ci := range constructs {
		if !c.Mine(ci) {
			continue
		}
		cs := constructs[ci]
		src := prelude + "st := 1\no := {B: m{st == 1}}\nf := {|k| " + cs.body("k") + "}\nr1 := nil.try.{|u| f(o)}.A\nst := 0\nr2 := nil.try.{|u| f(o)}.A\nst := 1\nr3 := nil.try.{|u| f(o)}.A\n[r1, r2, r3]"
		o := c.R().EvalSrc(src, "")
		c.Eval(1)
		c.Nontrivial(1)
		c.Validated(1)
		if o.Kind == "syntax" {
			c.HarnessError("stateful program does not parse: %s: %s", src, o.ErrMsg)
			continue
		}
		one := func(truthy bool) (string, string) {
			out, r := cs.fOut, cs.fRes
			if truthy {
				out, r = cs.tOut, cs.tRes
			}
			if r == "" {
				r = `{"B": {|self| (st == 1)}}`
			}
			if strings.HasPrefix(r, "E:") {
				return out, "[nil, [" + strings.TrimPrefix(r, "E:") + "]]"
			}
			return out, "[" + r + ", nil]"
		}
		o1, r1 := one(true)
		o2, r2 := one(false)
		wantOut, wantRes := o1+o2+o1, "["+r1+", "+r2+", "+r1+"]"
		ok := o.Kind == "value" && o.Repr == wantRes && o.Out == wantOut
		c.Outcome("stateful:" + map[bool]string{true: "ok", false: "differs"}[ok])
		if !ok {
			c.Violation(core.Violation{Key: "truth-remembered/" + cs.name, Case: core.JSON(tcase{Kind: "stateful", I: ci}), Desc: strings.ReplaceAll(strings.TrimPrefix(src, prelude), "\n", "; "),
				Expected: fmt.Sprintf("out=%q result=%s", wantOut, wantRes), Observed: fmt.Sprintf("out=%q %s", o.Out, show(o)), Repro: src + ".p\n"})
		}
	}
}

// ---------------------------------------------------------------- nested short-circuit expressions

// Every triple of values under the eight ways of combining two short-circuit operators (and `!`): which operands are
// evaluated, in which order, and which operand is the result follow from the rule applied operator by operator.
type sc struct {
	op   string // "&&", "||", "!", or "" for a leaf
	l, r *sc
	leaf int
}

func (e *sc) src(vals [3]int) string {
	switch e.op {
	case "":
		return fmt.Sprintf("tr(\"%c\", %s)", 'a'+e.leaf, againVals[vals[e.leaf]].src)
	case "!":
		return "!(" + e.l.src(vals) + ")"
	}
	return "(" + e.l.src(vals) + " " + e.op + " " + e.r.src(vals) + ")"
}

// flat is the spelling without the parentheses that precedence makes redundant (&& binds tighter than ||).
func (e *sc) flat(vals [3]int, parent string) string {
	switch e.op {
	case "":
		return fmt.Sprintf("tr(\"%c\", %s)", 'a'+e.leaf, againVals[vals[e.leaf]].src)
	case "!":
		return "!(" + e.l.flat(vals, "  ") + ")"
	}
	s := e.l.flat(vals, e.op+"L") + " " + e.op + " " + e.r.flat(vals, e.op+"R")
	need := false
	switch {
	case parent == "!":
		need = true
	case e.op == "||" && strings.HasPrefix(parent, "&&"):
		need = true
	case e.op == parent[:min2(2, len(parent))] && strings.HasSuffix(parent, "R"):
		need = true // a right-nested operand of the same (left-associative) operator
	}
	if need {
		return "(" + s + ")"
	}
	return s
}

func min2(a, b int) int {
	if a < b {
		return a
	}
	return b
}

// eval returns (trace, truthy, repr): repr "true"/"false" for the result of `!`.
func (e *sc) eval(vals [3]int) (string, bool, string) {
	switch e.op {
	case "":
		v := againVals[vals[e.leaf]]
		return string(rune('a'+e.leaf)) + "\n", v.truthy, v.repr
	case "!":
		t, b, _ := e.l.eval(vals)
		if b {
			return t, false, "false"
		}
		return t, true, "true"
	}
	t, b, r := e.l.eval(vals)
	if (e.op == "&&") != b {
		return t, b, r
	}
	t2, b2, r2 := e.r.eval(vals)
	return t + t2, b2, r2
}

func mixedShapes() []*sc {
	l := func(i int) *sc { return &sc{leaf: i} }
	bin := func(op string, a, b *sc) *sc { return &sc{op: op, l: a, r: b} }
	not := func(a *sc) *sc { return &sc{op: "!", l: a} }
	return []*sc{
		bin("||", bin("&&", l(0), l(1)), l(2)), bin("||", l(0), bin("&&", l(1), l(2))), bin("&&", bin("||", l(0), l(1)), l(2)), bin("&&", l(0), bin("||", l(1), l(2))),
		bin("||", bin("||", l(0), l(1)), l(2)), bin("&&", bin("&&", l(0), l(1)), l(2)), bin("||", l(0), bin("||", l(1), l(2))), bin("&&", l(0), bin("&&", l(1), l(2))),
		bin("||", bin("&&", not(l(0)), l(1)), l(2)), bin("&&", not(bin("||", l(0), l(1))), l(2)),
	}
}

func checkMixed(c *core.Ctx) {
	shapes := mixedShapes()
	type mc struct {
		sh   int
		vals [3]int
		mode int
	}
	var cases []mc
	var bodies []string
	k := 0
	n := len(againVals)
	for sh := range shapes {
		for a := 0; a < n; a++ {
			for b := 0; b < n; b++ {
				for d := 0; d < n; d++ {
					for mode := 0; mode < 3; mode++ {
						k++
						if !c.Mine(k) {
							continue
						}
						vals := [3]int{a, b, d}
						var body string
						switch mode {
						case 0:
							body = shapes[sh].src(vals)
						case 1:
							body = shapes[sh].flat(vals, "  ")
						default:
							body = "\"T\" if " + shapes[sh].flat(vals, "  ") + " else \"F\""
						}
						cases = append(cases, mc{sh, vals, mode})
						bodies = append(bodies, body)
					}
				}
			}
		}
	}
	obs := tk.Queries(c, prelude, bodies)
	for i, o := range obs {
		if o.Kind == "skipped" {
			continue
		}
		c.Eval(1)
		c.Nontrivial(1)
		c.Validated(1)
		if o.Kind == "syntax" {
			c.HarnessError("mixed short-circuit expression does not parse: %s: %s", bodies[i], o.ErrMsg)
			return
		}
		m := cases[i]
		wantOut, truthy, wantRes := shapes[m.sh].eval(m.vals)
		if m.mode == 2 {
			wantRes = map[bool]string{true: `"T"`, false: `"F"`}[truthy]
		}
		ok := o.Kind == "value" && o.Repr == wantRes && o.Out == wantOut
		c.Outcome("mixed:" + map[bool]string{true: "ok", false: "differs"}[ok])
		if !ok {
			c.Violation(core.Violation{Key: fmt.Sprintf("nested-short-circuit/shape%d/%s", m.sh, []string{"parenthesised", "by-precedence", "as-condition"}[m.mode]), Case: core.JSON(tcase{Kind: "mixed", I: m.sh, J: m.mode, Again: m.vals[:]}), Desc: bodies[i],
				Expected: fmt.Sprintf("out=%q result=%s", wantOut, wantRes), Observed: fmt.Sprintf("out=%q %s", o.Out, show(o)), Repro: prelude + "(" + bodies[i] + ").p\n"})
		}
	}
}

// One iterator instance whose guard is asked again on every `next`: the rule is applied each time, whatever an earlier
// `next` of the same iterator found (truth sequences of length 4 over an object whose B reads a variable, and over the
// elements of a list handed out one per `next`).
func checkStatefulIterator(c *core.Ctx) {
	k := 0
	for _, mk := range []string{"<{|| yield tr(\"T\", 11) if o}>.new", "<{|| yield tr(\"T\", 11) if o}>", "<{|n| yield tr(\"T\", 11) if o; recur(n + 1)}>.new(0)", "<{|| yield tr(\"T\", 11) if conds.next}>.new"} {
		for mask := 0; mask < 16; mask++ {
			k++
			if !c.Mine(k) {
				continue
			}
			var steps, conds []string
			wantOut := ""
			var wantRes []string
			for i := 0; i < 4; i++ {
				t := mask&(1<<i) != 0
				steps = append(steps, fmt.Sprintf("st := %d\nr%d := nil.try.{|u| it.next}.A", map[bool]int{true: 1, false: 0}[t], i))
				conds = append(conds, map[bool]string{true: "[0]", false: "\"\""}[t])
				if t {
					wantOut += "T\n"
					wantRes = append(wantRes, "[11, nil]")
				} else {
					wantRes = append(wantRes, "[nil, [StopIterErr: iter stopped]]")
				}
			}
			src := prelude + "st := 1\no := {B: m{st == 1}}\nconds := [" + strings.Join(conds, ", ") + "]._iter\nit := " + mk + "\n" + strings.Join(steps, "\n") + "\n[r0, r1, r2, r3]"
			o := c.R().EvalSrc(src, "")
			c.Eval(1)
			c.Nontrivial(1)
			c.Validated(1)
			if o.Kind == "syntax" {
				c.HarnessError("stateful iterator program does not parse: %s: %s", src, o.ErrMsg)
				return
			}
			want := "[" + strings.Join(wantRes, ", ") + "]"
			ok := o.Kind == "value" && o.Repr == want && o.Out == wantOut
			c.Outcome("stateful-iterator:" + map[bool]string{true: "ok", false: "differs"}[ok])
			if !ok {
				c.Violation(core.Violation{Key: "truth-remembered/guarded-yield-of-one-iterator", Case: core.JSON(tcase{Kind: "stateful-iterator"}), Desc: strings.ReplaceAll(strings.TrimPrefix(src, prelude), "\n", "; "),
					Expected: fmt.Sprintf("out=%q result=%s", wantOut, want), Observed: fmt.Sprintf("out=%q %s", o.Out, show(o)), Repro: src + ".p\n"})
			}
		}
	}
}

func run(c *core.Ctx) {
	p := pool(true)
	c.Note("pool_size", len(p))
	c.Note("constructs", len(constructs))
	for i := range p {
		if !c.Mine(i) {
			continue
		}
		if c.Expired() {
			c.Incomplete("stopped at the internal deadline")
			return
		}
		if i%7 == 0 {
			c.Sample(map[string]string{"condition": p[i].Src, "construct": constructs[i%len(constructs)].body(p[i].Src)})
		}
		checkValue(c, p, i, true)
	}
	checkAgain(c)
	checkStateful(c)
	checkMixed(c)
	checkStatefulIterator(c)
}

func replay(c *core.Ctx, raw json.RawMessage) {
	var t tcase
	if err := json.Unmarshal(raw, &t); err != nil {
		c.HarnessError("bad case: %v", err)
		return
	}
	if t.Kind == "again" {
		judgeAgain(c, t.I, t.Again)
		return
	}
	if t.Kind == "stateful" {
		checkStateful(c)
		return
	}
	if t.Kind == "mixed" {
		checkMixed(c)
		return
	}
	if t.Kind == "stateful-iterator" {
		checkStatefulIterator(c)
		return
	}
	checkValue(c, t.Vals, 0, t.Kind == "pair")
}
