// Package c04: chain contexts apply their documented per-element rule in all three call forms
// (property C04). Every (context, form, receiver shape, callee behaviour at every element position,
// chain argument) combination up to the bound is evaluated and compared with a chain model on Go lists.
package c04

import (
	"encoding/json"
	"fmt"
	"sort"
	"strings"

	"panmc/internal/core"
	"panmc/internal/panrun"
	"panmc/internal/tk"
)

func init() {
	core.Register(&core.Check{
		ID:    "C04",
		Level: "model_checking",
		Rule: "12 chain contexts ({.,@,$} x {plain,&,~,=}) x 3 call forms (property, literal, variable) x receivers (arrays of n<=4 (thorough 5) tagged elements, each in {value,nil-result,raise,nil element}, with r/comb either props of the elements' prototype or answered by its _missing (n<=3, thorough 4), and with the chain written on one line or on a new line (multi-line spelling, n<=2, thorough 3); scalar receivers; " +
			"int/str/range/obj/map/iterator receivers with 3 callee variants) x chain argument {absent, [], {}, %{}} / initial accumulator {absent, given}; result and call trace compared with a chain model; every receiver kind reused by five chains in a row (iterators are copied, not advanced); every pair of list chains ((context, form) x (context, form)) digesting 1-2 results into the same array variable of length 0..8, all three values read afterwards; " +
			"non-trivial = at least one element whose result is nil or a raise, a nil element, or a chain argument; distinct = distinct source; round 7: Receivers also include maps with scalar and non-scalar keys mixed and a descending str range.; round 8: One chain expression written once inside a function is evaluated for three receivers in turn (every context x form, 1284 cases); array-keyed pairs are digested into maps holding equal keys; nil elements that are not the cached nil object (Nil.new).",
		Assumptions: []string{
			"don't-care: `~@` applied to a nil element (kept nil vs dropped) is not generated",
			"Either values are not used as chain elements (routed through _literalProxy; C13's subject)",
			"variable calls are written without arguments (the reference documents only x.^f)",
		},
		Run:    run,
		Replay: replay,
		// one worker: the cross-form comparison needs the three forms of a case in the same process
		Workers: 1,
	})
}

const prelude = `E := Int.bear({r: m{("c" + .S).p; return nil if ((self % 10) <=> 2) == 0; raise ValueErr.new("bad" + .S) if ((self % 10) <=> 3) == 0; self + 100}, comb: m{|e| ("c" + e.S).p; return nil if ((e % 10) <=> 2) == 0; raise ValueErr.new("bad" + e.S) if ((e % 10) <=> 3) == 0; self + e}})
EM := Int.bear({_missing: m{|name, e| return E['r](self) if name == 'r; return E['comb](self, e) if name == 'comb; raise NoPropErr.new("no " + name.S)}})
ES := Int.bear({r: m{("c" + .S).p; return nil if ((self % 10) <=> 2) == 0; raise StopIterErr.new("bad" + .S) if ((self % 10) <=> 3) == 0; self + 100}, comb: m{|e| ("c" + e.S).p; return nil if ((e % 10) <=> 2) == 0; raise StopIterErr.new("bad" + e.S) if ((e % 10) <=> 3) == 0; self + e}})
fr := {|e| e.r}
fc := {|acc, e| acc.comb(e)}
`

// element: 0 = nil element, otherwise id*10+beh with beh 1 value, 2 nil result, 3 raise
type tcase struct {
	Kind  string `json:"kind"` // scalar | list | reduce | other
	Main  string `json:"main"`
	Add   string `json:"add"`
	Form  string `json:"form"` // property | literal | variable
	Elems []int  `json:"elems"`
	Arg   string `json:"arg,omitempty"` // chain argument / init source, "" = absent
	Recv  string `json:"recv,omitempty"`
	Var   string `json:"var,omitempty"` // callee variant for "other" receivers
	// history cases (Kind "hist"): two list chains digesting into the same array variable
	Add2  string `json:"add2,omitempty"`
	Form2 string `json:"form2,omitempty"`
	BaseN int    `json:"base_n,omitempty"`
	ML    bool   `json:"ml,omitempty"`  // the chain is written on a new line (`recv` newline `|@(arg)f`)
	Cls   string `json:"cls,omitempty"` // "" = elements are E (r/comb are props of the prototype), "EM" = resolved through the prototype's _missing
	// Kind "fixed": a program with a stated result (Src / Want)
	Src  string `json:"src,omitempty"`
	Want string `json:"want,omitempty"`
	// Kind "again": the chain (kind Base) is written once inside a function and evaluated for each receiver of Seq in turn
	Base string  `json:"base,omitempty"`
	Seq  [][]int `json:"seq,omitempty"`
}

func (t tcase) sub(i int) tcase {
	return tcase{Kind: t.Base, Main: t.Main, Add: t.Add, Form: t.Form, Elems: t.Seq[i], Arg: t.Arg}
}

func againSrc(t tcase) string {
	ch := t.Add + t.Main
	arg := ""
	if t.Arg != "" {
		arg = "(" + t.Arg + ")"
	}
	prop, lit, v := "r", "{|e| e.r}", "^fr"
	if t.Base == "reduce" {
		prop, lit, v = "comb", "{|acc, e| acc.comb(e)}", "^fc"
	}
	callee := map[string]string{"property": prop, "literal": lit, "variable": v}[t.Form]
	var calls []string
	for _, es := range t.Seq {
		parts := make([]string, len(es))
		for i, e := range es {
			parts[i] = elemSrc(e, "")
		}
		recv := "[" + strings.Join(parts, ", ") + "]"
		if t.Base == "scalar" {
			recv = "(" + parts[0] + ")"
		}
		calls = append(calls, "nil.try.{|u| f("+recv+")}.A")
	}
	return "f := {|xs| xs" + ch + arg + callee + "}\n[" + strings.Join(calls, ", ") + "]"
}

func againModel(t tcase) outcome {
	var out strings.Builder
	var parts []string
	for i := range t.Seq {
		m := model(t.sub(i))
		out.WriteString(m.out)
		if m.errK != "" {
			parts = append(parts, "[nil, ["+m.errK+": "+m.errM+"]]")
		} else {
			parts = append(parts, "["+m.val+", nil]")
		}
	}
	return outcome{out: out.String(), val: "[" + strings.Join(parts, ", ") + "]"}
}

// genFixed: elements that are siblings (one prototype) with their own property of the called name - a method of
// their own, a plain value, nothing (inherited) - in every order of three; and elements that own _literalProxy
// (Either values) under a variable call.
func genFixed(emit func(tcase)) {
	pre := "P := {speak: m{\"p\"}}\na := P.bear({speak: m{\"a\"}})\nb := P.bear({speak: m{\"b\"}})\nc := P.bear({})\nd := P.bear({speak: \"data\"})\n"
	res := map[string]string{"a": `"a"`, "b": `"b"`, "c": `"p"`, "d": `"data"`}
	names := []string{"a", "b", "c", "d"}
	for _, x := range names {
		for _, y := range names {
			for _, z := range names {
				if x == y || y == z || x == z {
					continue
				}
				for _, add := range adds {
					emit(tcase{Kind: "fixed", Main: "@", Add: add, Form: "property", Src: pre + "[" + x + ", " + y + ", " + z + "]" + add + "@speak", Want: "[" + res[x] + ", " + res[y] + ", " + res[z] + "]"})
				}
			}
		}
	}
	epre := "es := [1.try, 2.try./(0), 3.try]\ninc := {|x| x + 2}\n"
	ewant := `[{"_value": 3}, {"_error": [ZeroDivisionErr: cannot be divided by 0]}, {"_value": 5}]`
	for _, add := range adds {
		emit(tcase{Kind: "fixed", Main: "@", Add: add, Form: "literal", Src: epre + "es" + add + "@{|x| x + 2}", Want: ewant})
		emit(tcase{Kind: "fixed", Main: "@", Add: add, Form: "variable", Src: epre + "es" + add + "@^inc", Want: ewant})
	}
	// a chain argument written as a literal with computed parts (expansions, variables) inside a function that is called
	// several times: the container / initial value is built anew from the current operands on every evaluation
	for _, add := range []string{"", "&", "="} {
		for _, fc := range []struct{ form, def, want string }{
			{"literal", "f := {|b| [['x, 1]]" + add + "@({**b}){|p| p}}\n[f({a: 1}), f({c: 2}), f({a: 1})]", `[{"a": 1, "x": 1}, {"c": 2, "x": 1}, {"a": 1, "x": 1}]`},
			{"variable", "idp := {|p| p}\nf := {|b| [['x, 1]]" + add + "@({k: 0, **b})^idp}\n[f({a: 1}), f({c: 2}), f({})]", `[{"a": 1, "k": 0, "x": 1}, {"c": 2, "k": 0, "x": 1}, {"k": 0, "x": 1}]`},
			{"property", "f := {|b| [['x, 1]]" + add + "@({**b})A}\n[f({a: 1}), f({c: 2}), f({a: 1})]", `[{"a": 1, "x": 1}, {"c": 2, "x": 1}, {"a": 1, "x": 1}]`},
			{"literal", "g := {|m| [[5, 6]]" + add + "@(%{**m}){|p| p}}\n[g(%{1: 2}), g(%{3: 4}), g(%{})]", `[%{1: 2, 5: 6}, %{3: 4, 5: 6}, %{5: 6}]`},
			{"literal", "g := {|m| [[5, 6]]" + add + "@(%{'z: 0, **m}){|p| p}}\n[g(%{1: 2}), g(%{3: 4})]", `[%{"z": 0, 1: 2, 5: 6}, %{"z": 0, 3: 4, 5: 6}]`},
			{"literal", "a := {|l| [1]" + add + "@([*l]){|x| x}}\n[a([7]), a([8, 9]), a([])]", "[[7, 1], [8, 9, 1], [1]]"},
			{"literal", "a := {|l, v| [1]" + add + "@([v, *l]){|x| x}}\n[a([7], 0), a([8, 9], 5)]", "[[0, 7, 1], [5, 8, 9, 1]]"},
		} {
			emit(tcase{Kind: "fixed", Main: "@", Add: add, Form: fc.form, Src: fc.def, Want: fc.want})
		}
		for _, fc := range []struct{ form, def, want string }{
			{"literal", "h := {|b| [1]" + add + "$({**b}){|acc, x| acc}}\n[h({a: 1}), h({c: 2})]", `[{"a": 1}, {"c": 2}]`},
			{"literal", "h := {|l| [1, 2]" + add + "$([*l]){|acc, x| acc + [x]}}\n[h([7]), h([8, 9]), h([7])]", "[[7, 1, 2], [8, 9, 1, 2], [7, 1, 2]]"},
			{"variable", "app := {|acc, x| acc + [x]}\nh := {|l| [1, 2]" + add + "$([0, *l])^app}\n[h([7]), h([8, 9])]", "[[0, 7, 1, 2], [0, 8, 9, 1, 2]]"},
			{"property", "h := {|l| [[1], [2]]" + add + "$([*l])+}\n[h([7]), h([8, 9])]", "[[7, 1, 2], [8, 9, 1, 2]]"},
			{"literal", "h := {|n| [1, 2]" + add + "$(n){|acc, x| acc + x}}\n[h(10), h(20), h(10)]", "[13, 23, 13]"},
		} {
			emit(tcase{Kind: "fixed", Main: "$", Add: add, Form: fc.form, Src: fc.def, Want: fc.want})
		}
	}
	emit(tcase{Kind: "fixed", Main: "$", Form: "variable", Src: epre + "add := {|acc, e| acc + [e.val]}\nes$([])^add", Want: "[1, nil, 3]"})
	emit(tcase{Kind: "fixed", Main: "$", Form: "literal", Src: epre + "es$([]){|acc, e| acc + [e.val]}", Want: "[1, nil, 3]"})
}

func genAgain(emit func(tcase)) {
	lists := [][]int{{11, 21}, {12}, {13, 11}, {0, 11}, {}, {31, 12, 41}}
	scalars := [][]int{{11}, {12}, {13}, {0}}
	for _, add := range adds {
		for _, f := range forms {
			three := func(base, main string, pool [][]int, arg string) {
				for a := range pool {
					for b := range pool {
						if a == b {
							continue
						}
						emit(tcase{Kind: "again", Base: base, Main: main, Add: add, Form: f, Arg: arg, Seq: [][]int{pool[a], pool[b], pool[a]}})
					}
				}
			}
			three("scalar", ".", scalars, "")
			var ls [][]int
			for _, l := range lists {
				hasNil := false
				for _, e := range l {
					hasNil = hasNil || e == 0
				}
				if !(hasNil && add == "~") {
					ls = append(ls, l)
				}
			}
			three("list", "@", ls, "")
			three("list", "@", ls, "[]")
			var rs [][]int
			for _, l := range lists {
				hasNil := false
				for _, e := range l {
					hasNil = hasNil || e == 0
				}
				if !hasNil {
					rs = append(rs, l)
				}
			}
			three("reduce", "$", rs, "")
			three("reduce", "$", rs, "E.new(0)")
		}
	}
}

type outcome struct {
	out  string
	val  string
	errK string
	errM string
}

func elemSrc(e int, cls string) string {
	if e == 0 {
		if cls == "NN" {
			return "Nil.new" // a nil that is not the cached nil object
		}
		return "nil"
	}
	if cls == "" || cls == "NN" {
		cls = "E"
	}
	return fmt.Sprintf("%s.new(%d)", cls, e)
}

type res struct {
	isNil bool
	v     int
	raise bool
	errK  string
	errM  string
}

// callR models e.r
func callR(e int, out *strings.Builder) res {
	if e == 0 {
		return res{raise: true, errK: "NoPropErr", errM: "property `r` is not defined."}
	}
	fmt.Fprintf(out, "c%d\n", e)
	switch e % 10 {
	case 2:
		return res{isNil: true}
	case 3:
		return res{raise: true, errK: "ValueErr", errM: fmt.Sprintf("bad%d", e)}
	}
	return res{v: e + 100}
}

// callComb models acc.comb(e); accNil: acc is nil
func callComb(accNil bool, acc, e int, out *strings.Builder) res {
	if accNil {
		return res{raise: true, errK: "NoPropErr", errM: "property `comb` is not defined."}
	}
	fmt.Fprintf(out, "c%d\n", e)
	switch e % 10 {
	case 2:
		return res{isNil: true}
	case 3:
		return res{raise: true, errK: "ValueErr", errM: fmt.Sprintf("bad%d", e)}
	}
	return res{v: acc + e}
}

func model(t tcase) outcome {
	var out strings.Builder
	switch t.Kind {
	case "scalar":
		e := t.Elems[0]
		if t.Add == "&" && e == 0 {
			return outcome{val: "nil"}
		}
		r := callR(e, &out)
		if r.raise || r.isNil {
			if t.Add == "~" {
				return outcome{out: out.String(), val: valStr(e)}
			}
			if r.raise {
				return outcome{out: out.String(), errK: r.errK, errM: r.errM}
			}
			return outcome{out: out.String(), val: "nil"}
		}
		return outcome{out: out.String(), val: fmt.Sprint(r.v)}
	case "list":
		var items []string
		for _, e := range t.Elems {
			if t.Add == "&" && e == 0 {
				continue // call skipped, nil result dropped
			}
			r := callR(e, &out)
			if r.raise || r.isNil {
				if t.Add == "~" {
					items = append(items, valStr(e))
					continue
				}
				if r.raise {
					return outcome{out: out.String(), errK: r.errK, errM: r.errM}
				}
				if t.Add == "=" {
					items = append(items, "nil")
				}
				continue
			}
			items = append(items, fmt.Sprint(r.v))
		}
		return outcome{out: out.String(), val: "[" + strings.Join(items, ", ") + "]"}
	case "reduce":
		accNil := t.Arg == ""
		acc := 0
		for _, e := range t.Elems {
			if t.Add == "&" && t.Form == "property" && accNil {
				continue // receiver (acc) is nil: call skipped, yields nil
			}
			r := callComb(accNil, acc, e, &out)
			if r.raise || r.isNil {
				if t.Add == "~" {
					continue // receiver (the accumulator) substituted
				}
				if r.raise {
					return outcome{out: out.String(), errK: r.errK, errM: r.errM}
				}
				accNil = true
				continue
			}
			acc = r.v
		}
		if accNil {
			return outcome{out: out.String(), val: "nil"}
		}
		return outcome{out: out.String(), val: fmt.Sprint(acc)}
	}
	return outcome{}
}

func valStr(e int) string {
	if e == 0 {
		return "nil"
	}
	return fmt.Sprint(e)
}

func (t tcase) src() string {
	ch := t.Add + t.Main
	if t.Kind == "xform" {
		t.Kind = "list"
	}
	if t.Kind == "other" {
		return otherSrc(t)
	}
	if t.Kind == "hist" {
		return histSrc(t)
	}
	if t.Kind == "again" {
		return againSrc(t)
	}
	if t.Kind == "fixed" {
		return t.Src
	}
	if t.Kind == "reuse" {
		return "rv := " + t.Recv + "\ng := {|e| e}\n[rv" + t.Add + "@{|e| e}, rv@^g, rv" + t.Add2 + "@{|e| e}, rv$([]){|a, e| a + [e]}, rv" + t.Add + "@^g]"
	}
	parts := make([]string, len(t.Elems))
	for i, e := range t.Elems {
		parts[i] = elemSrc(e, t.Cls)
	}
	recv := "[" + strings.Join(parts, ", ") + "]"
	if t.Kind == "scalar" {
		recv = "(" + elemSrc(t.Elems[0], t.Cls) + ")"
	}
	arg := ""
	if t.Arg != "" {
		arg = "(" + t.Arg + ")"
		if t.Cls != "" && t.Cls != "NN" {
			arg = strings.Replace(arg, "E.new(", t.Cls+".new(", 1)
		}
	}
	prop, lit, v := "r", "{|e| e.r}", "^fr"
	if t.Kind == "reduce" {
		prop, lit, v = "comb", "{|acc, e| acc.comb(e)}", "^fc"
	}
	if t.ML {
		ch = "\n  |" + ch
	}
	switch t.Form {
	case "property":
		return "xs := " + recv + "\nxs" + ch + arg + prop
	case "literal":
		return "xs := " + recv + "\nxs" + ch + arg + lit
	}
	return "xs := " + recv + "\nxs" + ch + arg + v
}

// ---------------------------------------------------------------- shared chain argument (history)

func histBase(n int) []string {
	b := make([]string, n)
	for i := range b {
		b[i] = fmt.Sprint(i + 1)
	}
	return b
}

func histCallee(form string) string {
	switch form {
	case "property":
		return "r"
	case "literal":
		return "{|e| e.r}"
	}
	return "^fr"
}

// histSrc: r1 and r2 digest their results into the same array `base`; all three are read afterwards.
func histSrc(t tcase) string {
	var e1, e2 []string
	for _, e := range t.Elems {
		e1 = append(e1, elemSrc(e, ""))
		e2 = append(e2, elemSrc(e+50, ""))
	}
	return "base := [" + strings.Join(histBase(t.BaseN), ", ") + "]\n" +
		"r1 := [" + strings.Join(e1, ", ") + "]" + t.Add + "@(base)" + histCallee(t.Form) + "\n" +
		"r2 := [" + strings.Join(e2, ", ") + "]" + t.Add2 + "@(base)" + histCallee(t.Form2) + "\n" +
		"[r1, r2, base]"
}

func histModel(t tcase) outcome {
	var out strings.Builder
	b := histBase(t.BaseN)
	r1 := append([]string{}, b...)
	r2 := append([]string{}, b...)
	for _, e := range t.Elems {
		fmt.Fprintf(&out, "c%d\n", e)
		r1 = append(r1, fmt.Sprint(e+100))
	}
	for _, e := range t.Elems {
		fmt.Fprintf(&out, "c%d\n", e+50)
		r2 = append(r2, fmt.Sprint(e+50+100))
	}
	j := func(x []string) string { return "[" + strings.Join(x, ", ") + "]" }
	return outcome{out: out.String(), val: "[" + j(r1) + ", " + j(r2) + ", " + j(b) + "]"}
}

// ---------------------------------------------------------------- other receiver kinds

type otherRecv struct {
	src   string
	elems []string // printed form of the iterated elements
}

var otherRecvs = []otherRecv{
	{"3", []string{"1", "2", "3"}},
	{`"abc"`, []string{`"a"`, `"b"`, `"c"`}},
	{"(1:4)", []string{"1", "2", "3"}},
	{"(5:2:-1)", []string{"5", "4", "3"}},
	{"{a: 1, b: 2, _c: 3}", []string{`["a", 1]`, `["b", 2]`}},
	{"%{'x: 1, 'y: 2}", []string{`["x", 1]`, `["y", 2]`}},
	// a map with scalar and other keys mixed: scalar keys in insertion order, then the others in insertion order
	{"%{'x: 1, [7]: 2, 'y: 3, {k: 0}: 4, [8]: 5}", []string{`["x", 1]`, `["y", 3]`, `[[7], 2]`, `[{"k": 0}, 4]`, `[[8], 5]`}},
	{"%{[7]: 1, [8]: 2}", []string{`[[7], 1]`, `[[8], 2]`}},
	{"('d:'a:-1)", []string{`"d"`, `"c"`, `"b"`}},
	{"<{|i| yield i if i < 3; recur(i + 1)}>.new(0)", []string{"0", "1", "2"}},
	// typed descendants of the built-in collections that answer _iter themselves: the chain visits what THEIR iterator yields
	{"Arr.bear({_iter: m{<{|a, i| yield a[i] if i >= 0; recur(a, i - 1)}>.new(self, .len - 1)}}).new([1, 2, 3])", []string{"3", "2", "1"}},
	{"Arr.bear({_iter: m{<{|a, i| yield a[i] if i < a.len; recur(a, i + 2)}>.new(self, 0)}}).new([1, 2, 3, 4, 5])", []string{"1", "3", "5"}},
	{"Str.bear({_iter: m{[\"x\", \"y\"]._iter}}).new(\"abc\")", []string{`"x"`, `"y"`}},
	{"{a: 1, _iter: m{[7, 8, 9]._iter}}", []string{"7", "8", "9"}},
	{"[]", nil},
	{"0", nil},
	{`""`, nil},
}

// callee variants over arbitrary elements: V identity, N first element -> nil, X second element -> raise
func otherSrc(t tcase) string {
	ch := t.Add + t.Main
	r := otherRecvs[recvIndex(t.Recv)]
	first, second := "nil", "nil"
	if len(r.elems) > 0 {
		first = r.elems[0]
	}
	if len(r.elems) > 1 {
		second = r.elems[1]
	}
	body := "e"
	switch t.Var {
	case "N":
		body = "nil if e == " + first + " else e"
	case "X":
		body = "return nil if e == " + first + "; raise ValueErr.new(\"bad\") if e == " + second + "; e"
	}
	arg := ""
	if t.Arg != "" {
		arg = "(" + t.Arg + ")"
	}
	if t.Form == "literal" {
		return "rv := " + r.src + "\nrv" + ch + arg + "{|e| " + body + "}"
	}
	return "rv := " + r.src + "\ng := {|e| " + body + "}\nrv" + ch + arg + "^g"
}

func recvIndex(src string) int {
	for i, r := range otherRecvs {
		if r.src == src {
			return i
		}
	}
	return 0
}

func otherModel(t tcase) outcome {
	r := otherRecvs[recvIndex(t.Recv)]
	var items []string
	for i, e := range r.elems {
		isNil, raise := false, false
		switch t.Var {
		case "N":
			isNil = i == 0
		case "X":
			isNil = i == 0
			raise = i == 1
		}
		if isNil || raise {
			if t.Add == "~" {
				items = append(items, e)
				continue
			}
			if raise {
				return outcome{errK: "ValueErr", errM: "bad"}
			}
			if t.Add == "=" {
				items = append(items, "nil")
			}
			continue
		}
		items = append(items, e)
	}
	return outcome{val: "[" + strings.Join(items, ", ") + "]"}
}

// ---------------------------------------------------------------- generation

func elemSeqs(maxN int, withNil bool, emit func([]int)) {
	var rec func(cur []int)
	rec = func(cur []int) {
		emit(append([]int{}, cur...))
		if len(cur) == maxN {
			return
		}
		id := len(cur) + 1
		for _, b := range []int{1, 2, 3} {
			rec(append(cur, id*10+b))
		}
		if withNil {
			rec(append(cur, 0))
		}
	}
	rec(nil)
}

var forms = []string{"property", "literal", "variable"}
var adds = []string{"", "&", "~", "="}

func gen(thorough bool, emit func(tcase)) {
	maxN := 4
	if thorough {
		maxN = 5
	}
	genCls("", maxN, emit)
	// the same contexts over elements whose r/comb are answered by the prototype's _missing
	genCls("EM", maxN-1, func(t tcase) {
		t.Cls = "EM"
		emit(t)
	})
	// the same contexts with nil elements that are equal to nil without being the cached nil object (Nil.new)
	genCls("", maxN-1, func(t tcase) {
		for _, e := range t.Elems {
			if e == 0 {
				t.Cls = "NN"
				emit(t)
				return
			}
		}
	})
	// the same contexts over elements whose failing call raises StopIterErr (the kind that ends an iteration): a callee's
	// error is the chain's error, whatever its kind
	genCls("", maxN-1, func(t tcase) {
		for _, e := range t.Elems {
			if e%10 == 3 {
				t.Cls = "ES"
				emit(t)
				return
			}
		}
	})
	// the same contexts with the chain written on a new line (multi-line chain spelling)
	genCls("", maxN-2, func(t tcase) {
		t.ML = true
		emit(t)
	})
	genRest(emit)
	// one chain expression (one syntax node, inside a function) evaluated for three receivers in turn
	genAgain(emit)
	genFixed(emit)
	// two chains with the same array as chain argument: every (context, form) pair x base length 0..8 x 1..2 results
	for _, a1 := range adds {
		for _, a2 := range adds {
			for _, f1 := range forms {
				for _, f2 := range forms {
					for n := 0; n <= 8; n++ {
						emit(tcase{Kind: "hist", Main: "@", Add: a1, Form: f1, Add2: a2, Form2: f2, BaseN: n, Elems: []int{11}})
						if thorough || a1 == a2 {
							emit(tcase{Kind: "hist", Main: "@", Add: a1, Form: f1, Add2: a2, Form2: f2, BaseN: n, Elems: []int{11, 21}})
						}
					}
				}
			}
		}
	}
}

func genCls(cls string, maxN int, emit func(tcase)) {
	// scalar chains
	for _, add := range adds {
		for _, f := range forms {
			for _, e := range []int{11, 12, 13, 0} {
				emit(tcase{Kind: "scalar", Main: ".", Add: add, Form: f, Elems: []int{e}})
			}
		}
	}
	// list chains
	for _, add := range adds {
		for _, f := range forms {
			elemSeqs(maxN, add != "~", func(es []int) {
				emit(tcase{Kind: "list", Main: "@", Add: add, Form: f, Elems: es})
				emit(tcase{Kind: "list", Main: "@", Add: add, Form: f, Elems: es, Arg: "[]"})
			})
		}
	}
	// `~@` on arrays containing nil elements: only the agreement of the three forms is required
	for _, f := range forms {
		elemSeqs(maxN, true, func(es []int) {
			hasNil := false
			for _, e := range es {
				if e == 0 {
					hasNil = true
				}
			}
			if hasNil {
				emit(tcase{Kind: "xform", Main: "@", Add: "~", Form: f, Elems: es})
				emit(tcase{Kind: "xform", Main: "@", Add: "~", Form: f, Elems: es, Arg: "[]"})
			}
		})
	}
	// list chains with a digesting chain argument in all three forms: the model does not predict the digest of
	// arbitrary results, but the forms must agree (incl. the case where no result survives)
	for _, add := range adds {
		for _, f := range forms {
			elemSeqs(maxN, add != "~", func(es []int) {
				for _, a := range []string{"{}", "%{}", "{z: 0}", "[0]"} {
					emit(tcase{Kind: "xform", Main: "@", Add: add, Form: f, Elems: es, Arg: a})
				}
			})
		}
	}
	// reduce chains
	for _, add := range adds {
		for _, f := range forms {
			elemSeqs(maxN, false, func(es []int) {
				emit(tcase{Kind: "reduce", Main: "$", Add: add, Form: f, Elems: es})
				emit(tcase{Kind: "reduce", Main: "$", Add: add, Form: f, Elems: es, Arg: "E.new(0)"})
			})
		}
	}
}

func genRest(emit func(tcase)) {
	// other receiver kinds in literal and variable form
	for _, add := range adds {
		for _, f := range []string{"literal", "variable"} {
			for _, r := range otherRecvs {
				for _, v := range []string{"V", "N", "X"} {
					emit(tcase{Kind: "other", Main: "@", Add: add, Form: f, Recv: r.src, Var: v})
				}
			}
		}
	}
	// one receiver value reused by several chains (iterators are copied by a chain, never advanced)
	for _, a1 := range []string{"", "=", "&"} {
		for _, a2 := range []string{"", "=", "&"} {
			for _, r := range otherRecvs {
				emit(tcase{Kind: "reuse", Main: "@", Add: a1, Add2: a2, Recv: r.src})
			}
		}
	}
	// digest of the chain argument (list chains collecting pairs)
	for _, add := range adds {
		for _, f := range []string{"literal", "variable"} {
			for _, arg := range []string{"{}", "%{}", "[]", "{z: 0}", "%{'z: 0}", "{a: 0}", "%{'a: 0}", "[0]", "{b: 7, a: 0}"} {
				emit(tcase{Kind: "digest", Main: "@", Add: add, Form: f, Arg: arg})
			}
			// collected pairs whose keys are arrays, digested into maps that may already hold an equal key
			for _, arg := range []string{"%{}", `%{[1, 2]: "old", "k": 0}`, "%{[3]: 9}", "%{[1, 2]: 7, [3]: 8}"} {
				emit(tcase{Kind: "digest", Main: "@", Add: add, Form: f, Arg: arg, Var: "NS"})
			}
		}
	}
}

func digestSrc(t tcase) string {
	ch := t.Add + t.Main
	if t.Var == "NS" {
		if t.Form == "literal" {
			return "[[1, 2], [3], [1, 2]]" + ch + "(" + t.Arg + "){|e| [e, e.len]}"
		}
		return "g := {|e| [e, e.len]}\n[[1, 2], [3], [1, 2]]" + ch + "(" + t.Arg + ")^g"
	}
	if t.Form == "literal" {
		return `["a", "b", "a"]` + ch + "(" + t.Arg + `){|e| [e, e + "1"]}`
	}
	return `g := {|e| [e, e + "1"]}` + "\n" + `["a", "b", "a"]` + ch + "(" + t.Arg + ")^g"
}

func digestModel(t tcase) outcome {
	if t.Var == "NS" {
		switch t.Arg {
		case "%{}":
			return outcome{val: "%{[1, 2]: 2, [3]: 1}"}
		case `%{[1, 2]: "old", "k": 0}`:
			return outcome{val: `%{"k": 0, [1, 2]: "old", [3]: 1}`}
		case "%{[3]: 9}":
			return outcome{val: "%{[3]: 9, [1, 2]: 2}"}
		case "%{[1, 2]: 7, [3]: 8}":
			return outcome{val: "%{[1, 2]: 7, [3]: 8}"}
		}
	}
	switch t.Arg {
	case "{}":
		return outcome{val: `{"a": "a1", "b": "b1"}`}
	case "%{}":
		return outcome{val: `%{"a": "a1", "b": "b1"}`}
	case "[]":
		return outcome{val: `[["a", "a1"], ["b", "b1"], ["a", "a1"]]`}
	// a container that already holds entries keeps them: collected pairs are merged into it (first occurrence wins)
	case "{z: 0}":
		return outcome{val: `{"a": "a1", "b": "b1", "z": 0}`}
	case "%{'z: 0}":
		return outcome{val: `%{"a": "a1", "b": "b1", "z": 0}`}
	case "{a: 0}":
		return outcome{val: `{"a": 0, "b": "b1"}`}
	case "%{'a: 0}":
		return outcome{val: `%{"a": 0, "b": "b1"}`}
	case "{b: 7, a: 0}":
		return outcome{val: `{"a": 0, "b": 7}`}
	case "[0]":
		return outcome{val: `[0, ["a", "a1"], ["b", "b1"], ["a", "a1"]]`}
	}
	return outcome{val: "?"}
}

func nontrivial(t tcase) bool {
	if t.Arg != "" || t.Kind == "other" || t.Kind == "digest" || t.Kind == "hist" || t.Kind == "reuse" {
		return true
	}
	for _, e := range t.Elems {
		if e == 0 || e%10 != 1 {
			return true
		}
	}
	return false
}

func keyOf(t tcase, want outcome, o panrun.Obs) string {
	ch := t.Add + t.Main
	class := "result"
	if o.Out != want.out {
		class = "call-trace"
	}
	sub := ""
	hasNilRes, hasRaise, hasNilElem := false, false, false
	for _, e := range t.Elems {
		switch {
		case e == 0:
			hasNilElem = true
		case e%10 == 2:
			hasNilRes = true
		case e%10 == 3:
			hasRaise = true
		}
	}
	switch {
	case t.Kind == "other":
		sub = "/other-receiver/" + t.Var
	case t.Kind == "digest":
		sub = "/digest"
	case t.Kind == "hist":
		sub = "/shared-chain-argument-history"
	case t.Kind == "reuse":
		sub = "/receiver-reused-by-later-chains"
	case hasNilElem:
		sub = "/nil-element"
	case hasNilRes && hasRaise:
		sub = "/nil-result+raise"
	case hasNilRes:
		sub = "/nil-result"
	case hasRaise:
		sub = "/raise"
	}
	if t.Cls == "ES" {
		sub += "/callee-raises-StopIterErr"
	} else if t.Cls != "" {
		sub += "/via-_missing"
	}
	if t.ML {
		sub += "/multi-line-spelling"
	}
	return "chain" + ch + "/" + t.Form + "/" + class + sub
}

func judge(c *core.Ctx, t tcase, o panrun.Obs) {
	if nontrivial(t) {
		c.Nontrivial(1)
	}
	c.Validated(1)
	if o.Kind == "syntax" {
		c.HarnessError("generated chain does not parse: %s: %s", srcOf(t), o.ErrMsg)
		return
	}
	var want outcome
	switch t.Kind {
	case "other":
		want = otherModel(t)
	case "hist":
		want = histModel(t)
	case "again":
		want = againModel(t)
	case "fixed":
		want = outcome{val: t.Want}
	case "reuse":
		// the same receiver value serves five chains one after the other: each sees all its elements
		r := otherRecvs[recvIndex(t.Recv)]
		l := "[" + strings.Join(r.elems, ", ") + "]"
		want = outcome{val: "[" + strings.Join([]string{l, l, l, l, l}, ", ") + "]"}
	case "digest":
		want = digestModel(t)
		if want.val == "?" {
			// non-empty containers as chain argument: only require that no crash happens and forms agree (cross-form check below)
			c.Outcome("digest-nonempty:" + o.Kind)
			if o.Kind == "panic" {
				c.Violation(core.Violation{Key: "digest/host-panic", Case: core.JSON(t), Desc: srcOf(t), Expected: "no panic", Observed: o.Short()})
			}
			return
		}
	default:
		want = model(t)
		if t.Cls == "ES" && want.errK == "ValueErr" {
			want.errK = "StopIterErr" // the elements' own failure is of the kind the interpreter uses to end an iteration
		}
	}
	c.Outcome(t.Kind + ":" + o.Kind)
	ok := true
	if t.Kind != "other" && t.Kind != "digest" && t.Kind != "reuse" && t.Kind != "fixed" {
		ok = o.Out == want.out
	}
	if ok {
		if want.errK != "" {
			ok = o.Kind == "error" && o.ErrKind == want.errK && o.ErrMsg == want.errM
		} else {
			ok = o.Kind == "value" && o.Repr == want.val
		}
	}
	if ok {
		return
	}
	exp := fmt.Sprintf("trace=%q ", want.out)
	if want.errK != "" {
		exp += want.errK + ": " + want.errM
	} else {
		exp += want.val
	}
	c.Violation(core.Violation{Key: keyOf(t, want, o), Case: core.JSON(t), Desc: strings.ReplaceAll(srcOf(t), "\n", "; "), Expected: exp,
		Observed: fmt.Sprintf("trace=%q %s", o.Out, o.Short()), Repro: prelude + "zz := {||\n" + srcOf(t) + "\n}\nzz().p\n"})
}

func srcOf(t tcase) string {
	if t.Kind == "digest" {
		return digestSrc(t)
	}
	return t.src()
}

// cross-form agreement: the three call forms must give the same observation in every context except the
// lonely reduce chain (differential oracle, independent of the model; also covers `~@` on nil elements,
// whose absolute result is a don't-care)
type groupObs struct {
	forms map[string]string
	desc  map[string]string
	cases map[string]tcase
}

var groups = map[string]*groupObs{}

func groupKey(t tcase) string {
	return fmt.Sprintf("%s|%s|%s|%v|%s|%s|%s|%s", t.Kind, t.Main, t.Add, t.Elems, t.Arg, t.Recv, t.Var, t.Cls+fmt.Sprint(t.ML))
}

func crossForm(c *core.Ctx, t tcase, o panrun.Obs) {
	if t.Kind == "digest" || t.Kind == "hist" || t.Kind == "reuse" || t.Kind == "again" || t.Kind == "fixed" || (t.Kind == "reduce" && t.Add == "&") {
		return
	}
	k := groupKey(t)
	g := groups[k]
	if g == nil {
		g = &groupObs{forms: map[string]string{}, desc: map[string]string{}, cases: map[string]tcase{}}
		groups[k] = g
	}
	g.forms[t.Form] = o.Key()
	g.desc[t.Form] = strings.ReplaceAll(srcOf(t), "\n", "; ")
	g.cases[t.Form] = t
	want := 3
	if t.Kind == "other" {
		want = 2
	}
	if len(g.forms) < want {
		return
	}
	c.Validated(1)
	var names []string
	for f := range g.forms {
		names = append(names, f)
	}
	sort.Strings(names)
	for _, f := range names[1:] {
		if g.forms[f] != g.forms[names[0]] {
			c.Violation(core.Violation{Key: "forms-disagree/chain" + t.Add + t.Main + "/" + names[0] + "-vs-" + f + nilTag(t), Case: core.JSON(g.cases[f]), Desc: g.desc[names[0]] + "   VS   " + g.desc[f],
				Expected: names[0] + " form: " + g.forms[names[0]], Observed: f + " form: " + g.forms[f], Repro: prelude + "zz := {||\n" + srcOf(g.cases[f]) + "\n}\nzz().p\n"})
			break
		}
	}
	delete(groups, k)
}

func nilTag(t tcase) string {
	for _, e := range t.Elems {
		if e == 0 {
			return "/nil-element"
		}
	}
	if t.Cls != "" {
		return "/via-_missing"
	}
	if t.ML {
		return "/multi-line-spelling"
	}
	return ""
}

func run(c *core.Ctx) {
	n := 0
	total := tk.Batched(c, 600, prelude, func(emit func(tcase)) { gen(c.Thorough(), emit) }, srcOf, func(t tcase, o panrun.Obs) {
		n++
		if n%400 == 1 {
			c.Sample(map[string]string{"source": srcOf(t), "kind": t.Kind, "form": t.Form})
		}
		if t.Kind == "xform" {
			t2 := t
			t2.Kind = "list"
			crossForm(c, t2, o)
			c.Validated(1)
			c.Nontrivial(1)
			c.Outcome("xform:" + o.Kind)
			return
		}
		judge(c, t, o)
		crossForm(c, t, o)
	})
	c.Note("cases_total", total)
	if len(groups) > 0 && !c.Expired() {
		c.HarnessError("%d cross-form groups are incomplete", len(groups))
	}
}

func replay(c *core.Ctx, raw json.RawMessage) {
	var t tcase
	if err := json.Unmarshal(raw, &t); err != nil {
		c.HarnessError("bad case: %v", err)
		return
	}
	obs := c.R().Thunks(prelude, []string{srcOf(t)}, "")
	c.Eval(1)
	judge(c, t, obs[0])
}
