// Package c01: no host-level crash - every program ends in a value or a Pangaea error (property C01).
// (a) every built-in property x argument tuples over a value pool (direct calls through Func#call);
// (b) every token string up to a length bound, parsed and evaluated;
// (c) every operator / index / slice form over the pool through real syntax;
// (d) every producer of an unusual value x every consumer slot.
package c01

import (
	"encoding/json"
	"fmt"
	"io"
	"math"
	"math/big"
	"os"
	"os/exec"
	"path/filepath"
	"regexp"
	"runtime/debug"
	"sort"
	"strings"

	"github.com/Syuparn/pangaea/evaluator"
	"github.com/Syuparn/pangaea/object"
	"github.com/Syuparn/pangaea/runscript"

	"panmc/internal/core"
	"panmc/internal/panrun"
	"panmc/internal/tk"
)

func init() {
	core.Register(&core.Check{
		ID:    "C01",
		Level: "model_checking",
		Rule: "(e) every REPL session of <=3 (thorough 4) lines over a 24-line alphabet fed to the real StartREPL; (a) every own property (Go and native, discovered at run time from every object reachable from the root environment) called through Func#call with every argument tuple (self, a1) over a 67-value pool (including values equal to a cached singleton without being it: Int.bear.new(0), true - true, ...) and (self, a1, a2) over a 13-value pool (thorough: 25), plus 7 kwargs objects on a 13-value pool; " +
			"(f) every sequence of <=4 (thorough 5) operations {next, A, list chain, reduce chain, _iter, copy, new} on one iterator object and a copy of it, for 12 built-in and literal iterators, each operation under try so that the iterator is polled again after it stopped; " +
			"(b) every string of <=2 tokens over a 75-spelling token alphabet (joined with and without spaces) and of 3 tokens over 27 token classes (thorough: 3 over 75, 4 over 18), plus every compound assignment operator x 5 targets x 11 right-hand sides x 4 contexts, parsed and evaluated as a program, with stdin; " +
			"(c) x OP y for 23 infix operators over pool^2, prefix operators, x[y], x[y:z], x[y:z:w] over reduced pools through real syntax; " +
			"(d) 45 producers of unusual values (bodies with return/raise/yield/defer in function, method, iterator, chain, try, eval contexts; every prototype; `_`) x 22 consumer slots; " +
			"oracle: no panic escapes Parse/Eval/the built-in, no worker death, and the outcome (syntax error, PanErr or a value) survives Inspect, Repr, the prototype walk and S; " +
			"fuel/depth exhaustion and allocation-size panics are discarded (the property's proviso); non-trivial = case whose outcome is not a plain arity/type error; distinct = distinct (property, argument tuple) / source; round 7: pinned obj/map keys hold every producer and pool value; (g) every sequence of <=3 (thorough 4) loading statements (invite!, import, read, nested invite) is run by the real binary as -e one-liner and as script file next to two helper modules; (h) every range of fewer than 5 elements whose bounds lie within 9 of the int64 limits is consumed in four ways (running out of fuel = the interpreter does not end) and its elements compared with math/big; (i) objects whose _iter result has no `next` at all x 18 consumers must end.; round 8: names of 13 length classes (1..1024) reach evalEnv, eval, items, keyword variables, map expansion, which, JSON keys, try steps and symbol functions.",
		Assumptions: []string{
			"non-terminating or unboundedly recursive cases are cut by the fuel/depth guard and discarded (Wrappable.{...} recursion included)",
			"panics whose message says the requested allocation is out of range (makeslice / Repeat / growslice) are the memory proviso, not crashes, provided the case contains a number of >= 7 digits, an exponent literal or an infinity (otherwise the size was miscomputed and the panic is a crash)",
		},
		Run:              run,
		Replay:           replay,
		DeathIsViolation: true,
		QuickBudget:      1200,
		ThoroughBudget:   3000,
	})
}

// ---------------------------------------------------------------- pools

var poolSrc = []string{
	"0", "1", "(-1)", "2", "9007199254740993", "9223372036854775807", "(-9223372036854775807 - 1)", "1048576",
	"0.0", "1.5", "(-0.0)", `"nan".F`, `"inf".F`, "(-1.5)",
	`""`, `"a"`, `"abc"`, `"日本𝄞"`, "'sym", `"1"`, `"a,b"`,
	"[]", "[1]", "[1, 2, 3]", "[[1, 2], [3, 4]]", "[nil]", `["a", "b"]`,
	"{}", "{a: 1}", "{_p: 1}", "{a: {b: 1}}", "{call: 1}",
	"%{}", "%{1: 2}", "%{[1]: 2}",
	"(1:3)", "(3:1:-1)", "(0:0:0)", "(nil:nil:nil)", "('a:'c)", "(1.5:3)",
	"nil", "true", "false",
	"{|x| x}", "{|| nil}", "{|| raise ValueErr.new(\"f\")}", "m{|x| x}", "<{|i| yield i if i < 2; recur(i + 1)}>.new(0)", "<{|i| yield i}>", "<>",
	// values equal to a cached singleton (0, 1, "", nil-like) without being that object
	"Int.bear.new(0)", "(true - true)", "Float.bear.new(0.0)", `Str.bear.new("")`, "Arr.bear.new([])", "false.bear", "nil.bear",
	"1.try", "1.try./(0)", "1.try./(0).err", "1.bear", "Int.bear.new(1)", "[].bear", `"a".bear`, "{a: 1}.bear({b: 2})",
	"Int", "Str", "Arr", "Obj", "BaseObj", "Map", "Func", "Iter", "Either", "Err", "ZeroDivisionErr", "FileNotFoundErr", "Kernel", "Nil", "Range", "Comparable",
}

// hooked: an object whose hooks (the properties built-ins call back: <=>, _incBy, S, B, ==, _iter, call, repr) are
// functions written in the language (they take keyword arguments, run in a scope of their own, may be handed anything)
func hooked(n int) string {
	return fmt.Sprintf("{n: %d, '<=>: m{|o, strict: false| .n <=> o.n}, _incBy: m{|d, by: 1| {n: .n + d, **self}}, S: m{|sep: 0| \"hk\"}, B: m{|k: 0| true}, '==: m{|o, k: 0| true}, _iter: m{|k: 0| [1, 2]._iter}, call: m{|x, k: 0| x}, repr: m{|k: 0| \"HK\"}}", n)
}

func init() {
	poolSrc = append(poolSrc, hooked(1), "("+hooked(1)+":"+hooked(4)+")", "("+hooked(1)+":"+hooked(5)+":2)", "("+hooked(4)+":"+hooked(1)+":-1)", "["+hooked(2)+", "+hooked(1)+"]", "%{"+hooked(1)+": 1}")
}

var smallPool = []string{"0", "Int.bear.new(0)", "1", "(-1)", `"a"`, "[1, 2, 3]", "{a: 1}", "nil", "{|x| x}", "(1:3)", "1.5", "%{1: 2}", "Int"}
var smallPoolThorough = append(append([]string{}, smallPool...), "9223372036854775807", `""`, "[]", "true", "Str", "BaseObj", "1.try./(0)", "<{|i| yield i}>", "(nil:nil:nil)", "FileNotFoundErr", `"日本𝄞"`, "{}")

var kwPool = []string{"{}", "{private?: true}", "{end: \"!\"}", "{base: 16}", "{sep: \",\"}", "{key: {|x| x}}", "{init: 0}"}

type poolVals struct {
	src  []string
	vals []object.PanObject
}

func buildPool(c *core.Ctx, srcs []string) *poolVals {
	r := c.R()
	p := &poolVals{}
	for _, s := range srcs {
		o := r.EvalSrc(s, "")
		if o.Kind != "value" {
			c.HarnessError("pool value %s does not evaluate: %s", s, o.Short())
			continue
		}
		p.src = append(p.src, s)
		p.vals = append(p.vals, o.Val)
	}
	return p
}

// ---------------------------------------------------------------- classification of panics

var allocRe = regexp.MustCompile(`(?i)makeslice|len out of range|cap out of range|Repeat|growslice|out of memory|allocation`)
var digits = regexp.MustCompile(`[0-9]+`)
var bigRe = regexp.MustCompile(`[0-9]{7,}|[0-9]e[0-9]|inf`)
var frameRe = regexp.MustCompile(`github\.com/Syuparn/pangaea/([\w/]+)\.((?:\(\*?\w+\)\.)?\w+)`)

func panicSite(stack string) string {
	for _, ln := range strings.Split(stack, "\n") {
		if strings.Contains(ln, "/verifrt") || strings.Contains(ln, "panmc/") {
			continue
		}
		if m := frameRe.FindStringSubmatch(ln); m != nil {
			return m[1] + "." + m[2]
		}
	}
	return "unknown-site"
}

func panicClass(msg string) string {
	m := digits.ReplaceAllString(msg, "N")
	if len(m) > 70 {
		m = m[:70]
	}
	return m
}

type judgeFn func(desc string, cs interface{}, repro string, o panrun.Obs, where string)

func newJudge(c *core.Ctx) judgeFn {
	return func(desc string, cs interface{}, repro string, o panrun.Obs, where string) {
		c.Validated(1)
		switch o.Kind {
		case "discard":
			c.Discard(1)
			c.Outcome(where + ":discard")
			return
		case "panic":
			// the memory proviso covers allocations the program asks for with a huge size; the same Go panic
			// from a case that contains no large number (a miscomputed, e.g. negative, size) is a crash
			if allocRe.MatchString(o.Panic) && bigRe.MatchString(desc) {
				c.Discard(1)
				c.Counter("allocation_panics_discarded", 1)
				c.Outcome(where + ":alloc-discard")
				return
			}
			c.Outcome(where + ":panic")
			site := panicSite(o.Stack)
			c.Violation(core.Violation{Key: "host-panic/" + site + "/" + panicClass(o.Panic), Case: core.JSON(cs), Desc: desc, Expected: "a value, a Pangaea error or a syntax error", Observed: "host panic: " + o.Panic, Repro: repro})
			return
		case "value":
			c.Nontrivial(1)
		case "error":
			if !(o.ErrKind == "TypeErr" || o.ErrKind == "NoPropErr") {
				c.Nontrivial(1)
			}
		}
		c.Outcome(where + ":" + o.Kind + ":" + o.ErrKind)
	}
}

// afterUse does what REPL / p / the playground do next with a result: Repr, prototype walk, S.
func afterUse(r *panrun.Runner, v object.PanObject) {
	if v == nil {
		return
	}
	_ = v.Repr()
	_ = v.Type()
	n := 0
	for p := v.Proto(); p != nil && n < 50; p = p.Proto() {
		n++
	}
	if _, isErr := v.(*object.PanErr); isErr {
		return
	}
	sProp := r.Props["Obj_callProp"].(*object.PanBuiltIn).Fn
	sProp(r.Root, panrun.EmptyKwargs(), object.EmptyPanObjPtr(), v, object.NewPanStr("S"))
}

// ---------------------------------------------------------------- (a) built-in sweep

type propRef struct {
	Owner string `json:"owner"`
	Name  string `json:"name"`
	fn    object.PanObject
}

func discoverProps(c *core.Ctx) []propRef {
	r := c.R()
	var out []propRef
	seenObj := map[*object.PanObj]string{}
	var names []string
	for h, v := range r.Root.Store {
		s, _ := object.SymHash2Str(h)
		ps, ok := s.(*object.PanStr)
		if !ok {
			continue
		}
		if po, ok := v.(*object.PanObj); ok {
			if _, dup := seenObj[po]; !dup {
				seenObj[po] = ps.Value
				names = append(names, ps.Value)
			}
		}
	}
	sort.Strings(names)
	byName := map[string]*object.PanObj{}
	for po, n := range seenObj {
		byName[n] = po
	}
	seenFn := map[object.PanObject]bool{}
	for _, n := range names {
		po := byName[n]
		if po.Pairs == nil {
			continue
		}
		var keys []string
		kv := map[string]object.PanObject{}
		for _, p := range *po.Pairs {
			if ks, ok := p.Key.(*object.PanStr); ok {
				keys = append(keys, ks.Value)
				kv[ks.Value] = p.Value
			}
		}
		sort.Strings(keys)
		for _, k := range keys {
			v := kv[k]
			switch v.(type) {
			case *object.PanBuiltIn, *object.PanFunc:
				if seenFn[v] {
					continue
				}
				seenFn[v] = true
				out = append(out, propRef{Owner: n, Name: k, fn: v})
			}
		}
	}
	return out
}

var skipProp = map[string]bool{"Kernel.import": true, "Kernel.invite!": true, "Kernel.read": true, "Str.eval": false, "Str.evalEnv": false}

type acase struct {
	Mode  string   `json:"mode"` // prop
	Owner string   `json:"owner"`
	Name  string   `json:"name"`
	Args  []string `json:"args"`
	Kw    string   `json:"kw,omitempty"`
}

func (a acase) src() string {
	args := append([]string{}, a.Args...)
	if a.Kw != "" && a.Kw != "{}" {
		args = append(args, "**"+a.Kw)
	}
	return fmt.Sprintf("%s['%s](%s)", a.Owner, a.Name, strings.Join(args, ", "))
}

func sweepProps(c *core.Ctx, judge judgeFn) {
	r := c.R()
	props := discoverProps(c)
	c.Note("callable_properties", len(props))
	pool := buildPool(c, poolSrc)
	small := buildPool(c, map[bool][]string{false: smallPool, true: smallPoolThorough}[c.Thorough()])
	kws := buildPool(c, kwPool)
	c.Note("pool", len(pool.vals))
	c.Note("small_pool", len(small.vals))
	call := func(a acase, fn object.PanObject, kw *object.PanObj, args ...object.PanObject) {
		c.Eval(1)
		o := r.Guard(r.Root, "", func() object.PanObject {
			v := r.Props["Func_call"].(*object.PanBuiltIn).Fn(r.Root, kw, append([]object.PanObject{fn}, args...)...)
			afterUse(r, v)
			return v
		})
		judge(a.src(), a, "("+a.src()+").p\n", o, "prop")
	}
	saveT, saveD := panrun.FuelTicks, panrun.FuelDepth
	panrun.FuelTicks, panrun.FuelDepth = 30000, 400
	defer func() { panrun.FuelTicks, panrun.FuelDepth = saveT, saveD }()
	for pi, p := range props {
		if !c.Mine(pi) {
			continue
		}
		if skipProp[p.Owner+"."+p.Name] {
			continue
		}
		if c.Expired() {
			c.Incomplete("built-in sweep stopped at the internal deadline")
			return
		}
		c.Journal(fmt.Sprintf("built-in sweep of %s['%s]", p.Owner, p.Name))
		if pi%40 == 0 {
			c.Sample(map[string]interface{}{"mode": "built-in sweep", "property": p.Owner + "#" + p.Name, "example_call": acase{Owner: p.Owner, Name: p.Name, Args: []string{pool.src[3], pool.src[20]}}.src()})
		}
		ek := panrun.EmptyKwargs()
		call(acase{Mode: "prop", Owner: p.Owner, Name: p.Name}, p.fn, ek)
		for i, s := range pool.vals {
			call(acase{Mode: "prop", Owner: p.Owner, Name: p.Name, Args: []string{pool.src[i]}}, p.fn, ek, s)
			for j, a := range pool.vals {
				call(acase{Mode: "prop", Owner: p.Owner, Name: p.Name, Args: []string{pool.src[i], pool.src[j]}}, p.fn, ek, s, a)
			}
		}
		for i, s := range small.vals {
			for j, a := range small.vals {
				for k, b := range small.vals {
					call(acase{Mode: "prop", Owner: p.Owner, Name: p.Name, Args: []string{small.src[i], small.src[j], small.src[k]}}, p.fn, ek, s, a, b)
				}
				for q, kwv := range kws.vals {
					if q == 0 {
						continue
					}
					kwo, ok := kwv.(*object.PanObj)
					if !ok {
						continue
					}
					call(acase{Mode: "prop", Owner: p.Owner, Name: p.Name, Args: []string{small.src[i], small.src[j]}, Kw: kws.src[q]}, p.fn, kwo, s, a)
				}
			}
		}
	}
}

// ---------------------------------------------------------------- (b) token strings

var tokens = []string{
	"1", "1.5", "0x1f", "1e3", "1.5e3", `"s"`, "`r`", "?c", "'sym", `"a#{`, `}b"`, `}c#{`, "x", "_p", `\1`, `\k`, `\`, "Int", "nil", "true",
	"+", "-", "*", "/", "//", "%", "**", "==", "!=", "===", "<", ">=", "<=>", "<<", "/&", "/|", "/^", "/~", "!", "&&", "||",
	":=", "+=", "=>", ".", "@", "$", "&.", "~@", "=$", "^", "(", ")", "[", "]", "{", "}", "%{", "m{", "<{", "}>", "m<{", "|", ",", ":", ";", "\n", "<>",
	"if", "else", "return", "raise", "yield", "defer", "#c", `"`, "`", "'", "?", "\r\n", "\x00", "\xff", "\\x", "_", "recur",
}

var tokenClasses = []string{"1", `"s"`, "x", "'sym", "+", "-", "**", "==", "!", ":=", "+=", "=>", ".", "@", "$", "(", ")", "[", "]", "{", "}", "|", ",", ":", "\n", "if", "<>"}
var tokenClasses4 = []string{"1", "x", "+", "!", ":=", ".", "@", "(", ")", "[", "]", "{", "}", "|", ",", ":", "\n", "if"}

type scase struct {
	Mode  string `json:"mode"`
	Src   string `json:"src"`
	Stdin string `json:"stdin,omitempty"`
}

func sweepTokens(c *core.Ctx, judge judgeFn) {
	r := c.R()
	var srcs []string
	add := func(toks []string) {
		srcs = append(srcs, strings.Join(toks, ""))
		if len(toks) > 1 {
			srcs = append(srcs, strings.Join(toks, " "))
		}
	}
	for _, a := range tokens {
		add([]string{a})
		for _, b := range tokens {
			add([]string{a, b})
		}
	}
	nShort := len(srcs) // the strings of <=2 tokens are also handed over through Str#eval / Str#evalEnv (below)
	three := tokenClasses
	if c.Thorough() {
		three = tokens
	}
	for _, a := range three {
		for _, b := range three {
			for _, d := range three {
				add([]string{a, b, d})
			}
		}
	}
	if c.Thorough() {
		for _, a := range tokenClasses4 {
			for _, b := range tokenClasses4 {
				for _, d := range tokenClasses4 {
					for _, e := range tokenClasses4 {
						add([]string{a, b, d, e})
					}
				}
			}
		}
	}
	// compound assignments: every operator x target {defined int, defined str, undefined, private, argument variable} x
	// right-hand side {values of each type, an undefined name, a raising call}, alone and inside try / a function body
	for _, op := range []string{"<<", ">>", "/&", "/|", "/^", "+", "-", "*", "**", "/", "//", "%", "&&", "||"} {
		for _, lhs := range []string{"ci", "cs", "undefinedTarget", "_cp", "cn"} {
			for _, rhs := range []string{"1", "0", "(-1)", `"x"`, "nil", "[1]", "1.5", "undefinedRhs", "(1 / 0)", "{|| 1}", "64"} {
				st := lhs + " " + op + "= " + rhs
				pre := "ci := 5; cs := \"s\"; _cp := 2; cn := nil; "
				srcs = append(srcs, pre+st, pre+"1.try.{|u| "+st+"}.A", pre+"{|| "+st+"}()", pre+st+" => r2")
			}
		}
	}
	c.Note("token_strings", len(srcs))
	saveT, saveD := panrun.FuelTicks, panrun.FuelDepth
	panrun.FuelTicks, panrun.FuelDepth = 30000, 400
	defer func() { panrun.FuelTicks, panrun.FuelDepth = saveT, saveD }()
	seen := map[string]bool{}
	tk.Sharded(c, len(srcs), func(i int) {
		s := srcs[i]
		if seen[s] {
			return
		}
		seen[s] = true
		c.Eval(1)
		if i%5000 == 0 {
			c.Journal("token string " + fmt.Sprintf("%q", s))
			c.Sample(map[string]string{"mode": "token string", "source": s})
		}
		o := r.EvalSrc(s, "line1\nline2\n")
		if o.Kind == "value" {
			func() {
				defer func() {
					if p := recover(); p != nil {
						o = panrun.Obs{Kind: "panic", Panic: fmt.Sprint(p), Stack: "after-use"}
					}
				}()
				afterUse(r, o.Val)
			}()
		}
		judge(fmt.Sprintf("%q", s), scase{Mode: "source", Src: s, Stdin: "line1\nline2\n"}, s+"\n", o, "tokens")
	})
	// the same texts reaching the parser from inside a running program: Str#eval and Str#evalEnv have their own
	// wrapper around the parser's report (di.eval); the built-ins are called directly with the text as a str value
	doors := []string{"eval", "evalEnv"}
	var doorFns []object.PanObject
	for _, d := range doors {
		o := r.EvalSrc("Str['"+d+"]", "")
		if o.Kind != "value" {
			c.HarnessError("Str['%s] is not a value: %s", d, o.Short())
			return
		}
		doorFns = append(doorFns, o.Val)
	}
	seenDoor := map[string]bool{}
	tk.Sharded(c, nShort*len(doors), func(i int) {
		s, d := srcs[i/len(doors)], i%len(doors)
		if seenDoor[doors[d]+s] {
			return
		}
		seenDoor[doors[d]+s] = true
		c.Eval(1)
		env := object.NewEnclosedEnv(r.Root)
		o := r.Guard(env, "line1\nline2\n", func() object.PanObject { return r.Call(env, doorFns[d], object.NewPanStr(s)) })
		if i%3000 == 0 {
			c.Sample(map[string]string{"mode": "token string through Str#" + doors[d], "source": s})
		}
		src := fmt.Sprintf("%q.%s", s, doors[d])
		if !strings.ContainsAny(s, "`\x00") {
			src = "`" + s + "`." + doors[d]
		}
		judge("Str#"+doors[d]+" "+fmt.Sprintf("%q", s), scase{Mode: "source", Src: src, Stdin: "line1\nline2\n"}, src+"\n", o, "tokens-"+doors[d])
	})
}

// ---------------------------------------------------------------- (g) the real command line with source files around

// Programs that load other files (invite!, import, read) keep per-scope bookkeeping about "the file being
// run"; a one-liner has no such file. Every sequence of <=3 (thorough 4) loading statements is run by the
// real binary as a one-liner (-e) and as a script file, in a directory holding two helper modules.
var cliStmts = []string{
	`invite!("./h1")`, `invite!("./h2")`, `m := import("./h1")`, `import("./h2").p`, `read("./h1.pangaea").len.p`, `{|| invite!("./h2")}()`, `nil.try.{invite!("./nosuch")}.err?.p`, `v1.p`,
	// a helper module that does not parse, loaded (and survived) more than once
	`nil.try.{import("./hb")}.err?.p`, `nil.try.{invite!("./hb")}.err?.p`,
}

func sweepCLI(c *core.Ctx, judge judgeFn) {
	cli := os.Getenv("PANMC_CLI")
	if cli == "" {
		c.HarnessError("PANMC_CLI is not set")
		return
	}
	var progs []string
	var rec func(cur []string)
	depth := c.Pick(3, 4)
	rec = func(cur []string) {
		if len(cur) > 0 {
			progs = append(progs, strings.Join(cur, "; "))
		}
		if len(cur) == depth {
			return
		}
		for _, st := range cliStmts {
			rec(append(append([]string{}, cur...), st))
		}
	}
	rec(nil)
	c.Note("cli_programs", len(progs)*2)
	tk.Sharded(c, len(progs)*2, func(i int) {
		c.Eval(1)
		mode := []string{"cli-e", "cli-file"}[i%2]
		judgeCLI(c, judge, cli, scase{Mode: mode, Src: progs[i/2]})
	})
}

func judgeCLI(c *core.Ctx, judge judgeFn, cli string, s scase) {
	dir, err := os.MkdirTemp(os.Getenv("PANMC_SCRATCH"), "c01cli")
	if err != nil {
		c.HarnessError("%v", err)
		return
	}
	defer os.RemoveAll(dir)
	os.WriteFile(filepath.Join(dir, "h1.pangaea"), []byte("v1 := 41\nv"+strings.Repeat("y", 80)+" := 1\n"), 0o644)
	os.WriteFile(filepath.Join(dir, "h2.pangaea"), []byte("invite!(\"./h1\")\nv2 := v1 + 1\n"), 0o644)
	os.WriteFile(filepath.Join(dir, "hb.pangaea"), []byte("vb := (1\n"), 0o644)
	args := []string{"30", cli, "-e", s.Src}
	if s.Mode == "cli-file" {
		os.WriteFile(filepath.Join(dir, "main.pangaea"), []byte(s.Src+"\n"), 0o644)
		args = []string{"30", cli, "main.pangaea"}
	}
	cmd := exec.Command("timeout", args...)
	cmd.Dir = dir
	var so, se strings.Builder
	cmd.Stdout, cmd.Stderr = &so, &se
	cmd.Run()
	o := panrun.Obs{Kind: "value", Out: so.String()}
	if i := strings.Index(se.String(), "panic: "); i >= 0 || strings.Contains(se.String(), "fatal error: ") {
		if i < 0 {
			i = strings.Index(se.String(), "fatal error: ")
		}
		o = panrun.Obs{Kind: "panic", Panic: strings.SplitN(se.String()[i:], "\n", 2)[0], Stack: se.String()[i:]}
	} else if se.Len() > 0 {
		o = panrun.Obs{Kind: "error", ErrKind: strings.SplitN(se.String(), ":", 2)[0]}
	}
	judge(s.Mode+": "+s.Src, s, s.Src, o, s.Mode)
}

// ---------------------------------------------------------------- (c) operator / index forms, (d) producers x consumers

const sourcePrelude = "id := {|x| x}\nkwf := {|a: 0, b: 1| [a, b, \\_]}\n"

var infixOps = []string{"+", "-", "*", "/", "//", "%", "**", "==", "!=", "===", "!==", "<", ">", "<=", ">=", "<=>", "<<", ">>", "/&", "/|", "/^", "&&", "||"}
var prefixOps = []string{"-", "+", "!", "/~", "*", "**"}

var producers = []string{
	"{|| defer 1}()", "{|| return 1}()", "{|| return}()", "{|| yield 1}()", "{|| raise _}.try.call", "{||}()", "{|| defer 1; defer 2}()", "{|| return defer 1}()",
	"m{defer 1}(1)", "<{|| defer 1}>.new.next", "<{|| yield defer 1}>.new.next", "<{|| return 1}>.new.next", "<{||}>.new.next", "<{|| yield 1 if false}>.new.try.next",
	"1.{|x| defer x}", "[1]@{|x| defer x}", "[1]@{|x| return x}", "[1, 2]${|a, x| defer x}", "1~.{|x| defer x}", "1.try.{|x| defer x}", "1.try.{|x| defer x}.val", "nil&.{|x| defer x}",
	"\"defer 1\".eval", "\"return 1\".eval", "\"yield 1\".eval", "\"\".eval", "\"defer 1\".evalEnv", "\"#\".eval",
	"_", "Either", "Either.new", "EitherVal", "Err", "Err.new", "FileNotFoundErr", "FileNotFoundErr.new(\"x\").try.err", "StopIterErr.new(\"s\").try.err", "Diamond", "Iter", "Iterable", "Wrappable", "Match", "JSON", "Kernel", "BaseObj", "Num", "Comparable", "recur", "IO",
	"{|| \\0}()", "{|| \\_}()", "{|x| \\}(1)", "Int['+]", "Obj['callProp]", "Func['call]", "Iter['next]", "Iter['new]",
}

var consumers = []string{
	"§.p", "§.S", "§.repr", "§.foo", "§ + 1", "1 + §", "§ == §", "[§]", "[*§]", "{a: §}", "{**§}", "{§: 1}", "%{§: 1}", "%{1: §}", "%{**§}", "(§:3)", "(1:§)", "(1:3:§)",
	"id(§)", "id(*§)", "id(**§)", "kwf(**§)", "kwf(*§)", "kwf(**§, **{b: 2})", "kwf(**{b: 2}, **§)", "{|| \\_}(**§)", "{**§}.keys", "§@{|k, v| k}", "oo := {m: m{|k: 0| k}}; oo.m(**§)", "§(1)", "§.call", "1 if § else 2", "§ if true", "!§", "-§", "§@{|x| x}", "§${|a, x| x}", "[1, 2]@(§){|x| x}", "[1, 2]$(§)+", "\"a#{§}b\"", "x := §; x", "§[0]", "§['a]", "[1, 2][§]",
	"pk := §; {^pk: 1}", "pk := §; %{^pk: 1}", "pk := §; {^pk: 1, ^pk: 2}.keys", "pk := §; {a: 1}['a].{|x| {^pk: x}}",
	"§.bear", "§.bear({a: 1})", "§.new", "§.new(1)", "§.try", "§.A", "§.keys", "§.proto", "§.ancestors", "§.kindOf?(Int)", "raise §", "return §", "defer §", "§.p; §.p",
}

// conversion pipelines: odd inputs pushed through container conversions; the results are then consumed
// like any other value (a conversion that forgets to normalise breaks an invariant a later consumer relies on)
var oddInputs = []string{`[["a".bear, 1], ['b, 2]]`, `[[Str.bear.new("k"), 1]]`, "[[1, 2]]", "[[nil, 1]]", "[[[1], 2]]", `[["a"]]`, "[[]]", `["ab"]`, "[1, [2]]", `%{"a".bear: 1}`, "%{1: 2}", "%{nil: 1}",
	"%{[1]: 2}", "{a: 1}", "{_p: 1}", `"a=1"`, `"[1]"`, "(1:3)", "3", "nil", `[['a, 1], ['a, 2]]`, `[[1.5, 1]]`, `[[true, 1]]`, `{a: 1}.bear`, `[{a: 1}.bear, 1]`, `[["a".bear.bear, 1]]`}
var conversions = []string{".O", ".M", ".A", ".S", ".I", ".F", "@({}){|x| x}", "@(%{}){|x| x}", "@([]){|x| x}", ".items", ".keys", ".values", ".items.O", ".A.M", ".O.M", ".M.O", ".O.items.O", ".sym?", ".repr"}

func sweepSources(c *core.Ctx, judge judgeFn) {
	var cases []scase
	allProducers := append([]string{}, producers...)
	for _, in := range oddInputs {
		for _, cv := range conversions {
			allProducers = append(allProducers, in+cv)
		}
	}
	pool := poolSrc
	for _, x := range pool {
		for _, p := range prefixOps {
			if p == "*" {
				cases = append(cases, scase{Mode: "prefix", Src: "[*" + x + "]"})
			} else if p == "**" {
				cases = append(cases, scase{Mode: "prefix", Src: "{**" + x + "}"}, scase{Mode: "prefix", Src: "%{**" + x + "}"})
			} else {
				cases = append(cases, scase{Mode: "prefix", Src: p + x})
			}
		}
		// a pinned key holding any value
		cases = append(cases, scase{Mode: "pinned-key", Src: "pk := " + x + "; {^pk: 1}"}, scase{Mode: "pinned-key", Src: "pk := " + x + "; %{^pk: 1}"})
		for _, y := range pool {
			for _, op := range infixOps {
				cases = append(cases, scase{Mode: "infix", Src: x + " " + op + " " + y})
			}
			cases = append(cases, scase{Mode: "index", Src: x + "[" + y + "]"})
		}
	}
	sp := smallPoolThorough
	for _, x := range pool {
		for _, y := range sp {
			for _, z := range sp {
				cases = append(cases, scase{Mode: "slice", Src: x + "[" + y + ":" + z + "]"})
			}
		}
	}
	idx := []string{"", "0", "1", "(-1)", "10", "(-10)", "9223372036854775807", "(-9223372036854775807 - 1)", "nil", `"a"`, "1.5"}
	for _, x := range []string{"[1, 2, 3]", `"abc"`, `"日本𝄞"`, "5", "[]", `""`, "{a: 1}", "%{1: 2}", "(1:5)"} {
		for _, a := range idx {
			for _, b := range idx {
				for _, s := range idx {
					cases = append(cases, scase{Mode: "slice3", Src: x + "[" + a + ":" + b + ":" + s + "]"})
				}
			}
		}
	}
	for _, p := range allProducers {
		for _, cs := range consumers {
			cases = append(cases, scase{Mode: "producer-consumer", Src: strings.ReplaceAll(cs, "§", "("+p+")")})
		}
		cases = append(cases, scase{Mode: "producer-consumer", Src: p})
	}
	// names of every length class reaching the places that turn a symbol back into its text
	for _, n := range []int{1, 31, 32, 33, 63, 64, 65, 66, 100, 255, 256, 257, 1024} {
		name := "v" + strings.Repeat("x", n-1)
		for _, src := range []string{`"NAME := 1".evalEnv`, `"NAME := 1; q := 2".evalEnv.keys`, `NAME := 2; "NAME".eval`, "{NAME: 1}.items", `{|NAME: 3| \_}(NAME: 4)`, "%{**{NAME: 1}}", "o := {NAME: 1}; o.which('NAME)",
			`"NAME := 1".evalEnv.S`, "JSON.dec(`{\"NAME\": 1}`).keys", "{NAME: 1}.try.NAME.A", "'NAME({NAME: 5})"} {
			cases = append(cases, scase{Mode: "long-name", Src: strings.ReplaceAll(src, "NAME", name)})
		}
	}
	c.Note("source_form_cases", len(cases))
	saveT, saveD := panrun.FuelTicks, panrun.FuelDepth
	panrun.FuelTicks, panrun.FuelDepth = 30000, 400
	defer func() { panrun.FuelTicks, panrun.FuelDepth = saveT, saveD }()
	n := 0
	tk.Batched(c, 400, sourcePrelude, func(emit func(scase)) {
		for _, cs := range cases {
			emit(cs)
		}
	}, func(s scase) string { return s.Src }, func(s scase, o panrun.Obs) {
		n++
		if n%9000 == 1 {
			c.Sample(map[string]string{"mode": s.Mode, "source": s.Src})
		}
		if o.Kind == "value" {
			func() {
				defer func() {
					if p := recover(); p != nil {
						o = panrun.Obs{Kind: "panic", Panic: fmt.Sprint(p), Stack: "after-use"}
					}
				}()
				afterUse(c.R(), o.Val)
			}()
		}
		if o.Kind == "syntax" {
			c.Outcome("forms:syntax")
			return
		}
		judge(s.Src, s, sourcePrelude+"zz := {||\n"+s.Src+"\n}\nzz().p\n", o, s.Mode)
	})
	// top-level evaluation of every producer (program result handed to the REPL / runSource)
	r := c.R()
	tk.Sharded(c, len(producers), func(i int) {
		c.Eval(1)
		o := r.EvalSrc(producers[i], "")
		judge(producers[i]+" [top level]", scase{Mode: "top-level", Src: producers[i]}, producers[i]+"\n", o, "top-level")
	})
}

// (e) REPL sessions: every sequence of <=3 (thorough 4) lines over a line alphabet (mode commands in every
// spelling, expressions, errors, blank lines), fed to the real runscript.StartREPL
var replLines = []string{"multi", "single", "multi ", " multi", "\tsingle", "single ", "MULTI", "multi single", "1 + 1", "x := 5", "x", "1 / 0", "(", "", " ", "\t", "nil", "raise _", "defer 1", "return 1", "yield 1", "\"s\".p", "<>.S", "_"}

func runREPL(in string) panrun.Obs {
	o := panrun.Obs{Kind: "value", Repr: "repl-ended"}
	func() {
		defer func() {
			if p := recover(); p != nil {
				o = panrun.Obs{Kind: "panic", Panic: fmt.Sprint(p), Stack: string(debug.Stack())}
			}
		}()
		runscript.StartREPL("", strings.NewReader(in), io.Discard)
	}()
	return o
}

func sweepREPL(c *core.Ctx, judge judgeFn) {
	depth := c.Pick(3, 4)
	var sessions [][]string
	var rec func(cur []string)
	rec = func(cur []string) {
		if len(cur) > 0 {
			sessions = append(sessions, append([]string{}, cur...))
		}
		if len(cur) == depth {
			return
		}
		for _, l := range replLines {
			rec(append(cur, l))
		}
	}
	rec(nil)
	c.Note("repl_sessions", len(sessions))
	tk.Sharded(c, len(sessions), func(i int) {
		in := strings.Join(sessions[i], "\n") + "\n"
		c.Eval(1)
		if i%2000 == 0 {
			c.Journal("REPL session " + fmt.Sprintf("%q", in))
			c.Sample(map[string]interface{}{"mode": "repl session", "stdin": in})
		}
		judge("REPL session "+fmt.Sprintf("%q", in), scase{Mode: "repl", Stdin: in}, "", runREPL(in), "repl")
	})
}

// ---------------------------------------------------------------- (f) built-in iterators polled in every order

var iterSources = []string{"[1, 2]", `"ab"`, "(1:3)", "{a: 1, b: 2}", "%{'k: 'v, [1]: 2}", "%{[1]: 2, [2]: 3}", "%{}", "[]", "2", "<{|i| yield i if i < 2; recur(i + 1)}>.new(0)", "(1:3).withI", "[1, 2].chunk(1)"}
var iterOps = []string{"it.next", "it.A", "it@{|x| x}", "it$(0){|a, x| x}", "it._iter.next", "it2 := it._iter", "it2.next", "it.new.next"}

// sweepIterators: every sequence of <=4 (thorough 5) operations on one iterator object (and a copy of it), each
// operation in a try so that StopIterErr does not end the program: the iterator is polled again after it stopped.
func sweepIterators(c *core.Ctx, judge judgeFn) {
	depth := c.Pick(4, 5)
	tk.Batched(c, 400, sourcePrelude, func(emit func(scase)) {
		for _, src := range iterSources {
			var rec func(ops []string)
			rec = func(ops []string) {
				if len(ops) > 0 {
					var sb strings.Builder
					sb.WriteString("it := " + src + "._iter\nit2 := it\n")
					for _, o := range ops {
						sb.WriteString("nil.try.{|u| " + o + "}\n")
					}
					sb.WriteString("[it.try.next.A, it2.try.next.A]")
					emit(scase{Mode: "iter", Src: sb.String()})
				}
				if len(ops) == depth {
					return
				}
				for _, o := range iterOps {
					rec(append(append([]string{}, ops...), o))
				}
			}
			rec(nil)
		}
	}, func(t scase) string { return t.Src }, func(t scase, o panrun.Obs) {
		judge("iterator history: "+strings.ReplaceAll(t.Src, "\n", "; "), t, t.Src+"\n", o, "iter")
	})
}

// sweepFiniteRanges: ranges of fewer than 5 elements whose bounds lie at the ends of the int64 range, consumed in
// every way. These programs terminate by construction, so running out of fuel means the interpreter does not
// end (a successor that wraps around is never >= stop); the listed elements are also compared with math/big.
func sweepFiniteRanges(c *core.Ctx, judge judgeFn) {
	lit := func(v *big.Int) string {
		if v.Cmp(big.NewInt(math.MinInt64)) == 0 {
			return "(-9223372036854775807 - 1)"
		}
		if v.Sign() < 0 {
			return "(" + v.String() + ")"
		}
		return v.String()
	}
	max, min := big.NewInt(math.MaxInt64), big.NewInt(math.MinInt64)
	type rcase struct {
		src, want string
	}
	var cases []rcase
	for _, up := range []bool{true, false} {
		for off := int64(0); off <= 9; off++ {
			for _, stopOff := range []int64{0, 2} {
				for _, st := range []int64{1, 2, 5, 9, math.MaxInt64} {
					var start, stop, step *big.Int
					if up {
						start, stop, step = new(big.Int).Sub(max, big.NewInt(off)), new(big.Int).Sub(max, big.NewInt(stopOff)), big.NewInt(st)
					} else {
						start, stop, step = new(big.Int).Add(min, big.NewInt(off)), new(big.Int).Add(min, big.NewInt(stopOff)), big.NewInt(-st)
					}
					var elems []string
					for cur := new(big.Int).Set(start); (up && cur.Cmp(stop) < 0) || (!up && cur.Cmp(stop) > 0); cur = new(big.Int).Add(cur, step) {
						elems = append(elems, cur.String())
						if len(elems) > 12 {
							break
						}
					}
					if len(elems) > 4 {
						continue
					}
					r := "(" + lit(start) + ":" + lit(stop) + ":" + lit(step) + ")"
					want := "[" + strings.Join(elems, ", ") + "]"
					cases = append(cases, rcase{"[" + r + ".A, " + r + "@{|x| x}, " + r + "$([]){|a, x| a + [x]}, " + r + "._iter.{|i| [i.try.next.val, i.try.next.val, i.try.next.val, i.try.next.val, i.try.next.val]@{|x| x}}]",
						"[" + want + ", " + want + ", " + want + ", " + want + "]"})
				}
			}
		}
	}
	c.Note("finite_ranges_near_int64_limits", len(cases))
	tk.Batched(c, 50, sourcePrelude, func(emit func(scase)) {
		for i := range cases {
			emit(scase{Mode: "finite-range", Src: cases[i].src, Stdin: cases[i].want})
		}
	}, func(t scase) string { return t.Src }, func(t scase, o panrun.Obs) { judgeFiniteRange(c, judge, t, o) })
}

func judgeFiniteRange(c *core.Ctx, judge judgeFn, t scase, o panrun.Obs) {
	if o.Kind == "discard" {
		c.Validated(1)
		c.Outcome("finite-range:does-not-end")
		c.Violation(core.Violation{Key: "does-not-end/finite-range-near-int64-limit", Case: core.JSON(t), Desc: t.Src, Expected: t.Stdin + " (the range has fewer than 5 elements)", Observed: "evaluation does not end (stopped by the fuel guard): " + o.Panic, Repro: t.Src + ".p\n"})
		return
	}
	if o.Kind == "value" && o.Repr != t.Stdin {
		c.Violation(core.Violation{Key: "wrong-elements/finite-range-near-int64-limit", Case: core.JSON(t), Desc: t.Src, Expected: t.Stdin, Observed: o.Short(), Repro: t.Src + ".p\n"})
	}
	judge("finite range: "+t.Src, t, t.Src+"\n", o, "finite-range")
}

// sweepNextless: objects whose `_iter` hands out something that has no `next` property at all (an int, an
// array, an empty object, a str), consumed by every chain kind and by the native consumers. Such a program
// cannot describe an infinite sequence: running out of fuel means the interpreter polls a missing `next` forever.
func sweepNextless(c *core.Ctx, judge judgeFn) {
	makers := []string{"{_iter: {|| 1}}", "{_iter: m{[1]}}", "{_iter: 5}", "{_iter: m{{}}}", `{_iter: m{"ab"}}`, "{_iter: m{(1:3)}}", "{_iter: m{{nxt: 1}}}", "{_iter: m{nil}}", "[1].bear({_iter: m{7}})", "Iter.bear({_iter: m{1.5}})"}
	consumers := []string{"§@{|x| x}", "§$(0){|a, x| x}", "§.A", "§=@{|x| x}", "§~@{|x| x}", "§&@{|x| x}", "§@p", "[*§]", "§.sum", "§.first", "§.zip([1]).A", "§.withI.A", "[1, 2].zip(§).A", "§.lazyMap({|x| x}).A", "§.len", "§.max", "§.has?(1)", "§.join(\",\")"}
	var cases []scase
	for _, m := range makers {
		for _, cs := range consumers {
			cases = append(cases, scase{Mode: "nextless", Src: "it := " + m + "\n" + strings.ReplaceAll(cs, "§", "it")})
		}
	}
	saveT, saveD := panrun.FuelTicks, panrun.FuelDepth
	panrun.FuelTicks, panrun.FuelDepth = 30000, 400
	defer func() { panrun.FuelTicks, panrun.FuelDepth = saveT, saveD }()
	tk.Batched(c, 20, sourcePrelude, func(emit func(scase)) {
		for _, cs := range cases {
			emit(cs)
		}
	}, func(t scase) string { return t.Src }, func(t scase, o panrun.Obs) { judgeNextless(c, judge, t, o) })
}

func judgeNextless(c *core.Ctx, judge judgeFn, t scase, o panrun.Obs) {
	if o.Kind == "discard" {
		c.Validated(1)
		c.Outcome("nextless:does-not-end")
		c.Violation(core.Violation{Key: "does-not-end/iterator-without-next", Case: core.JSON(t), Desc: strings.ReplaceAll(t.Src, "\n", "; "), Expected: "a value or a Pangaea error (the object handed out by _iter has no `next`)", Observed: "evaluation does not end (stopped by the fuel guard): " + o.Panic, Repro: t.Src + "\n"})
		return
	}
	judge("iterator without next: "+strings.ReplaceAll(t.Src, "\n", "; "), t, t.Src+"\n", o, "nextless")
}

// sweepRegex: every pattern of <=4 (thorough 5) tokens over a small alphabet of regular-expression constructs is
// used by the three str properties that take patterns (sub, /, match) on two subjects; an unparsable pattern is
// a Pangaea error, never a panic of the engine or of the code that walks its matches.
func sweepRegex(c *core.Ctx, judge judgeFn) {
	toks := []string{"a", "$", "^", ".", "+?", "*", "+", "(?=", "(?!", "(?<=", "(", ")", "|", "\\b"}
	depth := c.Pick(4, 5)
	var pats []string
	var rec func(cur string, n int)
	rec = func(cur string, n int) {
		if n > 0 {
			pats = append(pats, cur)
		}
		if n == depth {
			return
		}
		for _, t := range toks {
			rec(cur+t, n+1)
		}
	}
	rec("", 0)
	c.Note("regex_patterns", len(pats))
	tk.Batched(c, 300, sourcePrelude, func(emit func(scase)) {
		for _, p := range pats {
			emit(scase{Mode: "regex", Src: "[nil.try.{|u| \"aaaa\".sub(`" + p + "`, \"x\")}.A.len, nil.try.{|u| \"aaaa\" / `" + p + "`}.A.len, nil.try.{|u| \"a b\".match(`" + p + "`)}.A.len, nil.try.{|u| \"\".sub(`" + p + "`, \"x\")}.A.len]"})
		}
	}, func(t scase) string { return t.Src }, func(t scase, o panrun.Obs) { judge("regex: "+t.Src, t, t.Src+"\n", o, "regex") })
}

// ---------------------------------------------------------------- (j) failing expressions under unusual layouts; (k) literals evaluated again

// Every error carries the source line and column of the nodes it passed; those come from the lexer and are only
// looked at when something fails. 9 layouts (multi-line raw strs, multi-byte text, interpolations, multi-line calls
// and chains) x 7 failing expressions x 6 texts that follow x {plain, caught by try}, as a program and through
// Str#eval; the result (also of an uncaught error) must print.
func sweepLayouts(c *core.Ctx, judge judgeFn) {
	r := c.R()
	layouts := []string{"X + `a\nbbbbbbbbbbbbbbbbbbbbbbbbbbbbbbbbbbbbbbbbbbbbb`", "`a\nbbbbbbbbbbbbbbbbbbbbbbbbbbbbbbbbbbbbbbbbbbbb` + X", "\"日本語日本語日本語日本語\".p; X", "[`m\n ultiline line that is long`, X]",
		"[1, 2]\n  |@{|e| X}", "f(\n  X\n)", "{|| `r\nrrrrrrrrrrrrrrrrrrrrrrrrrrrrrrr`; X}()", "\"日本語#{X}日本語\"", "{a: `v\nvvvvvvvvvvvvvvvvvvvvvvvvvvvv`, b: X}",
		"X if `c\nccccccccccccccccccccccccc` else 1", "x := `s\nsssssssssssssssssssssssss`; X"}
	fails := []string{"titel", "(1 / 0)", "nil.nope", "raise Err.new(\"e\")", "\"\".at", "[1].foo(2)", "{|| undefinedInner}()"}
	follows := []string{"", "\n", "\nx", "\n# a comment that is longer than the line before it, long enough", "\n\n\n", "\n1"}
	var srcs []string
	for _, l := range layouts {
		for _, f := range fails {
			for _, n := range follows {
				body := strings.ReplaceAll(l, "X", f)
				srcs = append(srcs, "f := {|v| v}\n"+body+n, "f := {|v| v}\n\"\".try.{\n  "+body+"\n}"+n, "f := {|v| v}\nres := \"\".try.{\n  "+body+"\n}\nres.err.msg.p"+n)
			}
		}
	}
	evalFn := r.EvalSrc("Str['eval]", "")
	if evalFn.Kind != "value" {
		c.HarnessError("Str['eval] is not a value")
		return
	}
	c.Note("layout_programs", len(srcs)*2)
	tk.Sharded(c, len(srcs)*2, func(i int) {
		s := srcs[i/2]
		c.Eval(1)
		var o panrun.Obs
		mode := "layout"
		if i%2 == 0 {
			o = r.EvalSrc(s, "")
		} else {
			mode = "layout-through-eval"
			env := object.NewEnclosedEnv(r.Root)
			o = r.Guard(env, "", func() object.PanObject { return r.Call(env, evalFn.Val, object.NewPanStr(s)) })
		}
		if i%997 == 0 {
			c.Sample(map[string]string{"mode": mode, "source": s})
		}
		if o.Kind == "value" || o.Kind == "error" {
			func() {
				defer func() {
					if p := recover(); p != nil {
						o = panrun.Obs{Kind: "panic", Panic: fmt.Sprint(p), Stack: "after-use"}
					}
				}()
				if o.Val != nil {
					afterUse(r, o.Val)
				}
			}()
		}
		judge(mode+": "+fmt.Sprintf("%q", s), scase{Mode: "source", Src: s}, s+"\n", o, mode)
	})
}

// One literal (one syntax node) evaluated several times with different values in its computed parts: the objects,
// maps, arrays, strs, ranges and functions it makes are then printed, listed, compared and expanded.
func sweepReevaluatedLiterals(c *core.Ctx, judge judgeFn) {
	r := c.R()
	lits := []string{"{\"col#{i}\": v}", "{^k: v}", "{a: v, \"b#{i}\": i}", "%{\"col#{i}\": v}", "%{i: v}", "%{[i]: v, k: i}", "{**o}", "{a: 0, **o}", "%{**o}", "%{'z: 0, **o}", "[i, *l]", "[*l, v]", "\"s#{i}#{v}\"", "(i:v)", "(i:9:i + 1)",
		"{|x: i| [x, v]}", "m{|y: v| [self, y]}", "<{|n: i| yield n if n < 3; recur(n: n + 1)}>", "[{\"k#{i}\": v}]", "{in: {\"k#{i}\": v}}", "{|| {\"k#{i}\": v}}()"}
	uses := []string{"R.p", "R.S", "R.repr", "R.keys", "R.values", "R.items", "R.A", "R == R", "[R[0], R[1]] == [R[1], R[0]]", "R@{|a| a}", "{**R[1]}", "%{**R[1]}", "[*R[1]]", "R[1].keys(private?: true)", "R[1].len", "R@S", "R[1]()", "R[1].new.A"}
	argsets := []string{"[1, \"apple\", \"a\", {p: 1}, [7]], [2, \"banana\", \"b\", {q: 2, p: 3}, [8, 9]]", "[1, \"x\", \"k\", {}, []], [1, \"x\", \"k\", {}, []], [3, nil, \"_h\", {_p: 1}, [nil]]"}
	var srcs []string
	for _, l := range lits {
		for _, u := range uses {
			for _, a := range argsets {
				srcs = append(srcs, "mk := {|i, v, k, o, l| "+l+"}\nR := ["+a+"]@{|t| mk(*t)}\n"+u)
			}
		}
	}
	c.Note("reevaluated_literal_programs", len(srcs))
	tk.Sharded(c, len(srcs), func(i int) {
		s := srcs[i]
		c.Eval(1)
		o := r.EvalSrc(s, "")
		if i%499 == 0 {
			c.Sample(map[string]string{"mode": "literal evaluated again", "source": s})
		}
		if o.Kind == "value" {
			func() {
				defer func() {
					if p := recover(); p != nil {
						o = panrun.Obs{Kind: "panic", Panic: fmt.Sprint(p), Stack: "after-use"}
					}
				}()
				afterUse(r, o.Val)
			}()
		}
		judge("literal evaluated again: "+fmt.Sprintf("%q", s), scase{Mode: "source", Src: s}, s+"\n", o, "reeval-literal")
	})
}

func run(c *core.Ctx) {
	judge := newJudge(c)
	sweepLayouts(c, judge)
	sweepReevaluatedLiterals(c, judge)
	sweepREPL(c, judge)
	sweepIterators(c, judge)
	sweepFiniteRanges(c, judge)
	sweepNextless(c, judge)
	sweepRegex(c, judge)
	sweepCLI(c, judge)
	sweepSources(c, judge)
	sweepTokens(c, judge)
	sweepProps(c, judge)
	c.Journal("")
}

func replay(c *core.Ctx, raw json.RawMessage) {
	judge := newJudge(c)
	var probe struct {
		Mode    string `json:"mode"`
		Journal string `json:"journal"`
	}
	json.Unmarshal(raw, &probe)
	r := c.R()
	c.Eval(1)
	if probe.Journal != "" {
		c.HarnessError("a worker death cannot be replayed in-process; journal: %s", probe.Journal)
		return
	}
	if probe.Mode == "prop" {
		var a acase
		json.Unmarshal(raw, &a)
		o := r.EvalSrc(a.src(), "")
		judge(a.src(), a, a.src(), o, "prop")
		return
	}
	var s scase
	json.Unmarshal(raw, &s)
	if s.Mode == "cli-e" || s.Mode == "cli-file" {
		judgeCLI(c, judge, os.Getenv("PANMC_CLI"), s)
		return
	}
	if s.Mode == "repl" {
		judge("REPL session "+fmt.Sprintf("%q", s.Stdin), s, "", runREPL(s.Stdin), "repl")
		return
	}
	if s.Mode == "nextless" {
		saveT, saveD := panrun.FuelTicks, panrun.FuelDepth
		panrun.FuelTicks, panrun.FuelDepth = 30000, 400
		judgeNextless(c, judge, s, r.EvalSrc(sourcePrelude+s.Src, ""))
		panrun.FuelTicks, panrun.FuelDepth = saveT, saveD
		return
	}
	if s.Mode == "finite-range" {
		judgeFiniteRange(c, judge, s, r.EvalSrc(sourcePrelude+s.Src, ""))
		return
	}
	o := r.EvalSrc(sourcePrelude+s.Src, s.Stdin)
	if o.Kind == "value" {
		o = r.Guard(nil, "", func() object.PanObject { afterUse(r, o.Val); return o.Val })
	}
	judge(s.Src, s, s.Src, o, s.Mode)
	_ = evaluator.Eval
}
