// Package c10: exact integer arithmetic (property C10), decided by exhaustive enumeration of
// operand pairs against math/big.
package c10

import (
	"encoding/json"
	"fmt"
	"math"
	"math/big"
	"sort"
	"strings"

	"github.com/Syuparn/pangaea/object"

	"panmc/internal/core"
	"panmc/internal/panrun"
)

type tcase struct {
	Op   string `json:"op"`
	A    int64  `json:"a"`
	B    int64  `json:"b"`
	Mode string `json:"mode"` // direct | source
	// source mode: another spelling of the operand with the same int64 value (a boolean, the result of an
	// earlier operation, an instance of an Int descendant, a conversion)
	SA string `json:"sa,omitempty"`
	SB string `json:"sb,omitempty"`
}

var binOps = []string{"+", "-", "*", "//", "%", "**", "/", "<=>"}

func init() {
	core.Register(&core.Check{
		ID:    "C10",
		Level: "model_checking",
		Rule: "every operand pair of the bounded domain ([-B,B]^2, boundary-set^2, power table a in [-20,20] x b in [0,70]) x operators " +
			"{+,-,*,//,%,**,/,<=>,unary -} is evaluated on the real built-ins (direct call and through parsed source) and compared with math/big; " +
			"the source pass is preceded and followed, in the same process, by every operator applied to an instance of an Int descendant that overrides them all (history: who used an operator first); " +
			"a case is non-trivial when the oracle defines its result (exact result fits in int64 / zero divisor); distinct = distinct (op,a,b,mode); round 7: Every operator is also applied to operands that are ints by value but not written as int literals (booleans, computed zeros, instances of an Int descendant, conversions, the extremes) against 7 plain values and against each other; a zero divisor must raise however the zero was made.; round 8: Operands above 2^53 are also written in exponent and radix form.",
		Assumptions: []string{
			"math/big and strconv are correct",
			"results that do not fit in 64 bits are unconstrained by the property (don't-care)",
			"for %, any r with |r|<|b| and b | a-r is accepted",
		},
		Run:    run,
		Replay: replay,
	})
}

var boundary []int64

func init() {
	set := map[int64]bool{}
	add := func(v int64) { set[v] = true; set[-v] = true }
	for _, v := range []int64{0, 1, 2, 3, 5, 7, 10, 100, 255, 256, 1000, 65535, 65536,
		1<<31 - 1, 1 << 31, 1<<31 + 1, 1<<32 - 1, 1 << 32, 1<<32 + 1, 3037000499, 3037000500, 1<<53 - 1, 1 << 53, 1<<53 + 1,
		1<<62 - 1, 1 << 62, 1<<62 + 1, math.MaxInt64 - 1, math.MaxInt64, 1000000007, 1000000000000, 999999999999999999,
		4611686018427387904, 6074001000, 94906265, 94906266, 2097151, 2097152} {
		add(v)
	}
	set[math.MinInt64] = true
	set[math.MinInt64+1] = true
	for v := range set {
		boundary = append(boundary, v)
	}
	sort.Slice(boundary, func(i, j int) bool { return boundary[i] < boundary[j] })
}

type expect struct {
	kind string // int | float | zerodiv | dontcare | rem
	i    int64
	f    float64
}

var (
	minI = big.NewInt(math.MinInt64)
	maxI = big.NewInt(math.MaxInt64)
)

func fits(x *big.Int) bool { return x.Cmp(minI) >= 0 && x.Cmp(maxI) <= 0 }

func oracle(op string, a, b int64) expect {
	A, B := big.NewInt(a), big.NewInt(b)
	r := new(big.Int)
	switch op {
	case "+":
		r.Add(A, B)
	case "-":
		r.Sub(A, B)
	case "*":
		r.Mul(A, B)
	case "neg":
		r.Neg(A)
	case "**":
		if b < 0 {
			return expect{kind: "dontcare"}
		}
		if b > 4096 && (a > 1 || a < -1) {
			return expect{kind: "dontcare"}
		}
		r.Exp(A, B, nil)
	case "//":
		if b == 0 {
			return expect{kind: "zerodiv"}
		}
		// floor quotient: big.Int.Div is Euclidean; compute floor explicitly
		q, m := new(big.Int).QuoRem(A, B, new(big.Int))
		if m.Sign() != 0 && (m.Sign() < 0) != (B.Sign() < 0) {
			q.Sub(q, big.NewInt(1))
		}
		r = q
	case "%":
		if b == 0 {
			return expect{kind: "zerodiv"}
		}
		return expect{kind: "rem"}
	case "/":
		if b == 0 {
			return expect{kind: "zerodiv"}
		}
		return expect{kind: "float", f: float64(a) / float64(b)}
	case "<=>":
		return expect{kind: "int", i: int64(A.Cmp(B))}
	}
	if !fits(r) {
		return expect{kind: "dontcare"}
	}
	return expect{kind: "int", i: r.Int64()}
}

func findingKey(op string, a, b int64, e expect) string {
	switch op {
	case "//":
		if e.kind == "int" && e.i == -1 && (a < 0) != (b < 0) && abs64lt(a, b) {
			return "floordiv/zero-quotient-opposite-signs"
		}
		return "floordiv/other"
	case "**":
		if e.kind == "int" && (e.i >= 1<<53 || e.i <= -(1<<53)) {
			return "pow/exact-result-above-2^53"
		}
		return "pow/other"
	case "neg":
		return "neg/wrong"
	}
	return op + "/wrong"
}

func abs64lt(a, b int64) bool {
	A, B := new(big.Int).Abs(big.NewInt(a)), new(big.Int).Abs(big.NewInt(b))
	return A.Cmp(B) < 0
}

// judge compares an observation with the oracle; it returns "" when fine.
func judge(op string, a, b int64, e expect, o panrun.Obs) string {
	if o.Kind == "panic" {
		return "host panic: " + o.Panic
	}
	switch e.kind {
	case "dontcare":
		return ""
	case "zerodiv":
		if o.Kind == "error" && o.ErrKind == "ZeroDivisionErr" {
			return ""
		}
		return "expected ZeroDivisionErr"
	case "int":
		if o.Kind == "value" {
			if v, ok := o.Val.(*object.PanInt); ok && v.Value == e.i {
				return ""
			}
		}
		return fmt.Sprintf("expected Int %d", e.i)
	case "float":
		if o.Kind == "value" {
			if v, ok := o.Val.(*object.PanFloat); ok && (math.Float64bits(v.Value) == math.Float64bits(e.f) || (math.IsNaN(v.Value) && math.IsNaN(e.f))) { // the quotient itself, sign of zero included
				return ""
			}
		}
		return fmt.Sprintf("expected Float %v", e.f)
	case "rem":
		if o.Kind == "value" {
			if v, ok := o.Val.(*object.PanInt); ok {
				R, A, B := big.NewInt(v.Value), big.NewInt(a), big.NewInt(b)
				if new(big.Int).Abs(R).Cmp(new(big.Int).Abs(B)) < 0 {
					d := new(big.Int).Sub(A, R)
					if new(big.Int).Rem(d, B).Sign() == 0 {
						return ""
					}
				}
			}
		}
		return "expected a remainder r with |r|<|b| and b | a-r"
	}
	return ""
}

func lit(v int64) string {
	if v == math.MinInt64 {
		return "(-9223372036854775807 - 1)"
	}
	if v < 0 {
		return fmt.Sprintf("(-%d)", -v)
	}
	return fmt.Sprintf("%d", v)
}

func srcOf(t tcase) string {
	if t.SA != "" || t.SB != "" {
		a, b := lit(t.A), lit(t.B)
		if t.SA != "" {
			a = t.SA
		}
		if t.SB != "" {
			b = t.SB
		}
		if t.Op == "neg" {
			return "x := " + a + "; -x"
		}
		return fmt.Sprintf("x := %s; y := %s; x %s y", a, b, t.Op)
	}
	if t.Op == "neg" {
		if t.A == math.MinInt64 {
			return "x := " + lit(t.A) + "; -x"
		}
		return fmt.Sprintf("x := %s; -x", lit(t.A))
	}
	return fmt.Sprintf("%s %s %s", lit(t.A), t.Op, lit(t.B))
}

type env struct {
	c   *core.Ctx
	fns map[string]object.BuiltInFunc
}

func newEnv(c *core.Ctx) *env {
	e := &env{c: c, fns: map[string]object.BuiltInFunc{}}
	c.R() // make sure props are injected
	for _, op := range append([]string{"-%"}, binOps...) {
		p, ok := (*object.BuiltInIntObj.Pairs)[object.GetSymHash(op)]
		if !ok {
			c.HarnessError("Int has no own property %s", op)
			continue
		}
		b, ok := p.Value.(*object.PanBuiltIn)
		if !ok {
			c.HarnessError("Int#%s is not a built-in function", op)
			continue
		}
		e.fns[op] = b.Fn
	}
	return e
}

func (e *env) direct(t tcase) panrun.Obs {
	r := e.c.R()
	name := t.Op
	args := []object.PanObject{object.NewPanInt(t.A), object.NewPanInt(t.B)}
	if t.Op == "neg" {
		name = "-%"
		args = args[:1]
	}
	fn := e.fns[name]
	return r.Guard(nil, "", func() object.PanObject { return fn(r.Root, panrun.EmptyKwargs(), args...) })
}

func (e *env) report(t tcase, ex expect, o panrun.Obs, why string) {
	e.c.Violation(core.Violation{
		Key:      findingKey(t.Op, t.A, t.B, ex),
		Case:     core.JSON(t),
		Desc:     fmt.Sprintf("%s [%s]", srcOf(t), t.Mode),
		Expected: why,
		Observed: o.Short(),
		Repro:    "(" + srcOf(t) + ").p\n",
	})
}

func (e *env) checkDirect(op string, a, b int64) {
	t := tcase{Op: op, A: a, B: b, Mode: "direct"}
	ex := oracle(op, a, b)
	e.c.Eval(1)
	if ex.kind == "dontcare" {
		e.c.Outcome(op + ":dontcare")
		// still must not crash
		if o := e.direct(t); o.Kind == "panic" {
			e.report(t, ex, o, "no host panic")
		}
		return
	}
	e.c.Nontrivial(1)
	e.c.Validated(1)
	o := e.direct(t)
	e.c.Outcome(op + ":" + ex.kind + ":" + o.Kind)
	if why := judge(op, a, b, ex, o); why != "" {
		e.report(t, ex, o, why)
	}
}

func run(c *core.Ctx) {
	e := newEnv(c)
	B := int64(c.Pick(512, 2048))
	c.Note("small_range_B", B)
	c.Note("boundary_values", len(boundary))
	c.Note("power_table", "a in [-20,20], b in [0,70]")
	ops := append([]string{}, binOps...)
	// --- direct sweep over [-B,B]^2
	row := 0
	for a := -B; a <= B; a++ {
		row++
		if !c.Mine(row) {
			continue
		}
		if c.Expired() {
			c.Incomplete("small-range sweep stopped at the internal deadline")
			break
		}
		for b := -B; b <= B; b++ {
			for _, op := range ops {
				e.checkDirect(op, a, b)
			}
		}
		e.checkDirect("neg", a, 0)
	}
	// --- boundary set squared, direct + source
	var srcCases []tcase
	for i, a := range boundary {
		if !c.Mine(i) {
			continue
		}
		for _, b := range boundary {
			for _, op := range ops {
				e.checkDirect(op, a, b)
				srcCases = append(srcCases, tcase{Op: op, A: a, B: b, Mode: "source"})
			}
		}
		e.checkDirect("neg", a, 0)
		srcCases = append(srcCases, tcase{Op: "neg", A: a, Mode: "source"})
	}
	// --- power table
	k := 0
	for a := int64(-20); a <= 20; a++ {
		for b := int64(0); b <= 70; b++ {
			k++
			if !c.Mine(k) {
				continue
			}
			e.checkDirect("**", a, b)
			srcCases = append(srcCases, tcase{Op: "**", A: a, B: b, Mode: "source"})
		}
	}
	// boundary bases with small exponents
	for i, a := range boundary {
		if !c.Mine(i) {
			continue
		}
		for b := int64(0); b <= 5; b++ {
			e.checkDirect("**", a, b)
		}
	}
	// --- operands that are ints by value but were not written as int literals
	spell := map[int64][]string{
		0:             {"(true - 1)", "(false * 5)", "(-false)", "false", "(3 - 3)", "Int.bear.new(0)", "(Int.bear.new(4) - Int.bear.new(4))", `"0".I`, "[].len", "(0 * -1)"},
		1:             {"true", "Int.bear.new(1)", "(true * 1)", "[5].len"},
		7:             {"Int.bear.new(7)", "(true * 7)", `"7".I`},
		-3:            {"Int.bear.new(-3)", "(true * -3)", `"-3".I`},
		math.MaxInt64: {"Int.bear.new(9223372036854775807)", "(true * 9223372036854775807)", "9223372036854775807e0", "0x7fffffffffffffff", "0b" + strings.Repeat("1", 63)},
		// a sign written in front of a literal with leading zeros (decimal, like the literal without the sign)
		-10:  {"-010", "-0_10", "-0010"},
		-755: {"-0755"},
		-17:  {"-017", "-0_017"},
		10:   {"010", "0_10"},
		// values above 2^53 written in exponent / radix form (a float64 cannot hold them)
		9007199254740993:    {"9007199254740993e0", "900719925474099300e-2", "0x20000000000001"},
		123456789012345700:  {"1234567890123457e2", "12345678901234570e1"},
		900719925474099301:  {"900719925474099301e0", "0o62000000000000000145"},
		9000000000000000000: {"9e18", "90e17", "9_000e15"},
		math.MinInt64:       {"(false - 9223372036854775807 - 1)", "Int.bear.new(-9223372036854775807 - 1)"},
	}
	plain := []int64{math.MinInt64, -7, -1, 0, 1, 6, math.MaxInt64, 9007199254740992, 100}
	k = 0
	for _, v := range []int64{0, 1, 7, -3, -10, -755, -17, 10, math.MaxInt64, math.MinInt64, 9007199254740993, 123456789012345700, 900719925474099301, 9000000000000000000} {
		for _, sp := range spell[v] {
			k++
			if !c.Mine(k) {
				continue
			}
			for _, op := range ops {
				for _, p := range plain {
					srcCases = append(srcCases, tcase{Op: op, A: p, B: v, SB: sp, Mode: "source"}, tcase{Op: op, A: v, B: p, SA: sp, Mode: "source"})
				}
				for _, sp2 := range spell[v] {
					srcCases = append(srcCases, tcase{Op: op, A: v, B: v, SA: sp, SB: sp2, Mode: "source"})
				}
			}
			srcCases = append(srcCases, tcase{Op: "neg", A: v, SA: sp, Mode: "source"})
		}
	}
	// --- history: a descendant of Int that redefines every operator is used BEFORE and AFTER the plain ints of the
	// source pass in this process (the meaning of an operator for plain ints must not depend on who used it first)
	if !e.descendants("before the source pass") {
		return
	}
	defer e.descendants("after the source pass")
	// --- source pass
	// one sample per worker, of a different kind each (the merged evidence keeps the distinct ones)
	sm := []tcase{{Op: "//", A: -1, B: 2}, {Op: "**", A: 3, B: 35}, {Op: "%", A: -7, B: 3}, {Op: "*", A: 3037000500, B: 3037000500}, {Op: "-", A: -9223372036854775807, B: 1}, {Op: "<=>", A: 9007199254740993, B: 9007199254740992}, {Op: "/", A: 7, B: 0}, {Op: "+", A: 9223372036854775807, B: 1}}[c.Shard%8]
	c.Sample(map[string]interface{}{"source_case": srcOf(sm), "oracle": "math/big (exact result where it fits in 64 bits; ZeroDivisionErr for a zero divisor; a result that does not fit is a don't-care)"})
	const batch = 2000
	for i := 0; i < len(srcCases); i += batch {
		if c.Expired() {
			c.Incomplete("source pass stopped at the internal deadline")
			break
		}
		j := i + batch
		if j > len(srcCases) {
			j = len(srcCases)
		}
		e.runSource(srcCases[i:j])
	}
}

const descendantSrc = `P := Int.bear({'+: m{|o| 'ov}, '-: m{|o| 'ov}, '*: m{|o| 'ov}, '/: m{|o| 'ov}, '//: m{|o| 'ov}, '%: m{|o| 'ov}, '**: m{|o| 'ov}, '<=>: m{|o| 'ov}, '-%: m{'ov}, '+%: m{'ov}})
p := P.new(70)
[p + 50, p - 50, p * 2, p / 2, p // 2, p % 3, p ** 2, p <=> 1, -p, +p, p.+(1), [p]$(P.new(0))+]`

// descendants evaluates the operators on an instance of an Int descendant that overrides them all.
func (e *env) descendants(when string) bool {
	o := e.c.R().EvalSrc(descendantSrc, "")
	e.c.Eval(1)
	e.c.Validated(1)
	e.c.Nontrivial(1)
	want := `["ov", "ov", "ov", "ov", "ov", "ov", "ov", "ov", "ov", "ov", "ov", "ov"]`
	if o.Kind == "syntax" {
		e.c.HarnessError("descendant program does not parse: %s", o.ErrMsg)
		return false
	}
	if o.Kind != "value" || o.Repr != want {
		e.c.Violation(core.Violation{Key: "history/descendant-operators/" + strings.ReplaceAll(when, " ", "-"), Case: core.JSON(tcase{Op: "descendant", Mode: when}), Desc: "operators overridden by an Int descendant, " + when,
			Expected: want, Observed: o.Short(), Repro: descendantSrc + ".p\n"})
	}
	return true
}

func (e *env) runSource(cases []tcase) {
	bodies := make([]string, len(cases))
	for i, t := range cases {
		bodies[i] = srcOf(t)
	}
	obs := e.c.R().Thunks("", bodies, "")
	for i, t := range cases {
		ex := oracle(t.Op, t.A, t.B)
		o := obs[i]
		e.c.Eval(1)
		if o.Kind == "syntax" {
			e.c.HarnessError("generated source does not parse: %s: %s", bodies[i], o.ErrMsg)
			continue
		}
		if ex.kind == "dontcare" {
			if o.Kind == "panic" {
				e.report(t, ex, o, "no host panic")
			}
			continue
		}
		e.c.Nontrivial(1)
		e.c.Validated(1)
		e.c.Outcome("src:" + t.Op + ":" + ex.kind + ":" + o.Kind)
		if why := judge(t.Op, t.A, t.B, ex, o); why != "" {
			e.report(t, ex, o, why)
		}
	}
}

func replay(c *core.Ctx, raw json.RawMessage) {
	var t tcase
	if err := json.Unmarshal(raw, &t); err != nil {
		c.HarnessError("bad case: %v", err)
		return
	}
	e := newEnv(c)
	if t.Op == "descendant" {
		e.descendants(t.Mode)
		return
	}
	if t.Mode == "source" {
		e.runSource([]tcase{t})
		return
	}
	e.checkDirect(t.Op, t.A, t.B)
}
