// Package c06: values are immutable - no operation changes an existing value (property C06).
// Explicit-state exploration over operation histories on a live pool of values: after every
// operation the deep pointer-identity fingerprint (and printed form) of every value that existed
// before must be unchanged.
package c06

import (
	"encoding/json"
	"fmt"
	"os"
	"os/exec"
	"sort"
	"strings"

	"github.com/Syuparn/pangaea/ast"
	"github.com/Syuparn/pangaea/evaluator"
	"github.com/Syuparn/pangaea/object"

	"panmc/internal/core"
	"panmc/internal/panrun"
	"panmc/internal/tk"
)

func init() {
	core.Register(&core.Check{
		ID:    "C06",
		Level: "model_checking",
		// generous internal deadline: the run takes 1-2 minutes on an idle machine and several times that next to other jobs
		QuickBudget: 900,
		Rule: "history tree over a live pool (int, float, str, two arrays, nested array, object, bear child, map with scalar and non-scalar keys, map with several non-scalar keys, range, function, Either value, error wrapper): " +
			"depth 1 = every property reachable along the prototype chain of every pool value (discovered at run time) x {no argument, each of 10 arguments, 4 argument pairs, trailing function}, every infix operator over all ordered pool pairs, slices, unpacking, chains with chain argument; " +
			"depth 2 (thorough 3) = all sequences over the container-producing core (~45 templates) whose operands range over the pool and over earlier results; incl. 8 operations whose callee keeps the argument array / [acc, elem] pair it was given (result compared with what each held when created; a value that contains itself is a violation); after every operation the answers of every pool value to a list of read-only questions of the language itself (length, first/last element, slices, key/value listings, ==, S) and the deep fingerprint (Go pointer identity of elements/pairs/keys/bounds, payload, prototype) and Repr of every earlier value and the key lists of the built-in prototypes must be unchanged; " +
			"states = histories, transitions = operations executed; non-trivial = operation that returned a value (not an error); distinct = distinct history; round 7: A closure family observes functions by what they return: functions yielded by an iterator, born from one literal evaluated several times (keyword defaults from the enclosing scope, as function, method and iterator) or closing over a container are probed by calls after every operation of every sequence of <=3 (thorough 4) over 20 operations that advance/copy the iterator, evaluate the literals again and call the functions.",
		Assumptions: []string{
			"function environments and iterator state are excluded from the fingerprint (the statement allows them to change)",
			"histories are replayed from a fresh pool each time (live objects cannot be cloned), never merged",
		},
		Run:    run,
		Replay: replay,
	})
}

const preludeSrc = `n := 5
fl := 1.5
s := "abc"
a := [1, 2, 3]
a5 := [1, 2, 3, 4, 5]
o := {a: 1, b: 2}
ch := o.bear({c: 3})
m := %{1: 2, "k": 4, [1]: 3}
m2 := %{[1, 2]: "a", [3, 4]: "b", {x: 1}: "c", 5: 6, %{1: 2}: "d"}
r := (1:3)
f := {|x| x}
nested := [a, o, [7, 8]]
e := 1.try
ew := 1.try./(0).err
kf := {|a: 0, b: 0| [a, b, \_]}
kp := {|pair| pair}
d3 := a5[0:3]
dk := {x: 1, y: 2, z: 3}.keys
dv := {x: 1, y: 2, z: 3}.values
dm := a@{|x| x * 2}
dc := a + [4, 5]
dr := (1:4).A
do := {z: 9, **o}
oc := {swddgEpwqyega: 1, w: 2}
su := "héllo wörld"
`

var poolVars = []string{"n", "fl", "s", "a", "a5", "o", "ch", "m", "m2", "r", "f", "nested", "e", "ew", "d3", "dk", "dv", "dm", "dc", "dr", "do", "oc", "su"}

var poolKind = map[string]string{"n": "int", "fl": "float", "s": "str", "a": "arr", "a5": "arr", "o": "obj", "ch": "obj", "m": "map", "m2": "map", "r": "range", "f": "func", "nested": "arr", "e": "either", "ew": "err", "oc": "obj", "su": "str",
	"d3": "arr", "dk": "arr", "dv": "arr", "dm": "arr", "dc": "arr", "dr": "arr", "do": "obj"}

type tcase struct {
	Ops []string `json:"ops"`           // each `tK := expr`
	Fam string   `json:"fam,omitempty"` // "" = pool histories, "closure" = functions observed by calling them
}

// ---------------------------------------------------------------- fingerprint

func fp(v object.PanObject, depth int, sb *strings.Builder) {
	if v == nil {
		sb.WriteString("<nil>")
		return
	}
	if depth > 7 {
		fmt.Fprintf(sb, "…%p", v)
		return
	}
	switch x := v.(type) {
	case *object.PanInt:
		fmt.Fprintf(sb, "I%p:%d^%p", x, x.Value, x.Proto())
	case *object.PanFloat:
		fmt.Fprintf(sb, "F%p:%v^%p", x, x.Value, x.Proto())
	case *object.PanStr:
		fmt.Fprintf(sb, "S%p:%q/%v/%v^%p", x, x.Value, x.IsPublic, x.IsSym, x.Proto())
	case *object.PanBool:
		fmt.Fprintf(sb, "B%p:%v", x, x.Value)
	case *object.PanNil:
		fmt.Fprintf(sb, "N%p^%p", x, x.Proto())
	case *object.PanArr:
		fmt.Fprintf(sb, "A%p^%p[", x, x.Proto())
		for _, e := range x.Elems {
			fp(e, depth+1, sb)
			sb.WriteString(",")
		}
		sb.WriteString("]")
	case *object.PanRange:
		fmt.Fprintf(sb, "R%p^%p(", x, x.Proto())
		fp(x.Start, depth+1, sb)
		sb.WriteString(":")
		fp(x.Stop, depth+1, sb)
		sb.WriteString(":")
		fp(x.Step, depth+1, sb)
		sb.WriteString(")")
	case *object.PanObj:
		fmt.Fprintf(sb, "O%p^%p{", x, x.Proto())
		if x.Pairs != nil {
			if len(*x.Pairs) > 40 {
				// built-in prototype: names only
				fmt.Fprintf(sb, "#%d", len(*x.Pairs))
			} else {
				keys := make([]uint64, 0, len(*x.Pairs))
				for k := range *x.Pairs {
					keys = append(keys, k)
				}
				sort.Slice(keys, func(i, j int) bool { return keys[i] < keys[j] })
				for _, k := range keys {
					p := (*x.Pairs)[k]
					fmt.Fprintf(sb, "%d=", k)
					fp(p.Key, depth+1, sb)
					sb.WriteString("→")
					fp(p.Value, depth+1, sb)
					sb.WriteString(";")
				}
			}
		}
		if x.Keys != nil {
			fmt.Fprintf(sb, "|K%v", *x.Keys)
		}
		if x.PrivateKeys != nil {
			fmt.Fprintf(sb, "|P%v", *x.PrivateKeys)
		}
		sb.WriteString("}")
	case *object.PanMap:
		fmt.Fprintf(sb, "M%p^%p{", x, x.Proto())
		if x.HashKeys != nil {
			for _, hk := range *x.HashKeys {
				p := (*x.Pairs)[hk]
				fmt.Fprintf(sb, "%v=", hk)
				fp(p.Key, depth+1, sb)
				sb.WriteString("→")
				fp(p.Value, depth+1, sb)
				sb.WriteString(";")
			}
			fmt.Fprintf(sb, "#%d", len(*x.Pairs))
		}
		if x.NonHashablePairs != nil {
			for _, p := range *x.NonHashablePairs {
				fp(p.Key, depth+1, sb)
				sb.WriteString("→")
				fp(p.Value, depth+1, sb)
				sb.WriteString(";")
			}
		}
		sb.WriteString("}")
	case *object.PanFunc:
		fmt.Fprintf(sb, "Fn%p:%s", x, x.Inspect())
	case *object.PanErrWrapper:
		// an error VALUE also holds its stack trace (what an uncaught raise of it prints): part of what it contains
		fmt.Fprintf(sb, "EW%p:%s:%s:%q^%p", x, x.ErrKind, x.Msg, x.StackTrace, x.Proto())
	case *object.PanErr:
		fmt.Fprintf(sb, "Er%p:%s:%s", x, x.ErrKind, x.Msg)
	default:
		fmt.Fprintf(sb, "X%p:%s", v, v.Type())
	}
}

func fingerprint(v object.PanObject) string {
	var sb strings.Builder
	fp(v, 0, &sb)
	return sb.String()
}

var builtinProtos = []*object.PanObj{object.BuiltInArrObj, object.BuiltInObjObj, object.BuiltInBaseObj, object.BuiltInIntObj, object.BuiltInFloatObj, object.BuiltInStrObj,
	object.BuiltInMapObj, object.BuiltInRangeObj, object.BuiltInFuncObj, object.BuiltInNilObj, object.BuiltInIterableObj, object.BuiltInComparableObj, object.BuiltInEitherObj,
	object.BuiltInEitherValObj, object.BuiltInEitherErrObj, object.BuiltInKernelObj, object.BuiltInNumObj, object.BuiltInIterObj, object.BuiltInWrappableObj, object.BuiltInErrObj}

func protoPrint() string {
	var sb strings.Builder
	for _, p := range builtinProtos {
		keys := make([]uint64, 0, len(*p.Pairs))
		for k, pair := range *p.Pairs {
			keys = append(keys, k)
			_ = pair
		}
		sort.Slice(keys, func(i, j int) bool { return keys[i] < keys[j] })
		fmt.Fprintf(&sb, "%p:%v:", p, keys)
		for _, k := range keys {
			fmt.Fprintf(&sb, "%p,", (*p.Pairs)[k].Value)
		}
		fmt.Fprintf(&sb, "^%p;", p.Proto())
	}
	return sb.String()
}

// ---------------------------------------------------------------- running one history

type hrunner struct {
	c       *core.Ctx
	probe   *ast.Program
	prelude *ast.Program
	cache   map[string]*ast.Program
}

func newRunner(c *core.Ctx) *hrunner {
	p, o := panrun.Parse(preludeSrc)
	if o != nil {
		c.HarnessError("prelude does not parse: %s", o.ErrMsg)
		return nil
	}
	pp, po := panrun.Parse(probeSrc())
	if po != nil {
		c.HarnessError("probe program does not parse: %s", po.ErrMsg)
		return nil
	}
	return &hrunner{c: c, prelude: p, probe: pp, cache: map[string]*ast.Program{}}
}

func (h *hrunner) parse(src string) *ast.Program {
	if p, ok := h.cache[src]; ok {
		return p
	}
	p, o := panrun.Parse(src)
	if o != nil {
		p = nil
	}
	if len(h.cache) < 200000 {
		h.cache[src] = p
	}
	return p
}

const cyclicRepr = panrun.CyclicRepr

// behaviour probes: what a value "prints, contains, equals" is also asked through read-only operations of the
// language itself (a value may look unchanged field by field while an index, a slice or a key listing answers differently)
var probeByKind = map[string]string{
	"str":    "[V.len, V[0], V[-1], V[1:3], V[::-1], V.A, V.uc, V == V, V.S, V + \"\"]",
	"arr":    "[V.len, V[0], V[-1], V[1:3], V[::-1], V.A, V.S, V == V]",
	"obj":    "[V.keys(private?: true), V.values(private?: true), V.items, V.S, V == V]",
	"map":    "[V.keys, V.values, V.len, V.S, V == V]",
	"range":  "[V.A, V.start, V.stop, V.step, V.S]",
	"int":    "[V.S, V + 0, V == V]",
	"float":  "[V.S, V + 0, V == V]",
	"func":   "[V.S]",
	"either": "[V.S, V.A]",
	"err":    "[V.S, V.msg]",
}

func probeSrc() string {
	var parts []string
	for _, v := range poolVars {
		k := poolKind[v]
		pr, ok := probeByKind[k]
		if !ok {
			pr = "[V.S]"
		}
		parts = append(parts, replaceWord(pr, "V", v))
	}
	return "[" + strings.Join(parts, ", ") + "]"
}

// takeProbes evaluates the probes in a scope of its own (enclosed in env) and returns one text per pool variable.
func (h *hrunner) takeProbes(env *object.Env) map[string]string {
	res := map[string]string{}
	if h.probe == nil {
		return res
	}
	inner := object.NewEnclosedEnv(env)
	o := h.c.R().Guard(inner, "", func() object.PanObject { return evaluator.Eval(h.probe, inner) })
	a, ok := o.Val.(*object.PanArr)
	if o.Kind != "value" || !ok || len(a.Elems) != len(poolVars) {
		res["*"] = o.Short()
		return res
	}
	for i, v := range poolVars {
		res[v] = safeRepr(a.Elems[i])
	}
	return res
}

type snapshot struct {
	fps   map[string]string
	reprs map[string]string
	vals  map[string]object.PanObject
	proto string
}

func takeSnapshot(env *object.Env) snapshot {
	s := snapshot{fps: map[string]string{}, reprs: map[string]string{}, vals: map[string]object.PanObject{}, proto: protoPrint()}
	for k, v := range env.Store {
		name, _ := object.SymHash2Str(k)
		key := fmt.Sprint(k)
		if ps, ok := name.(*object.PanStr); ok {
			key = ps.Value
		}
		if key == "IO" {
			continue
		}
		s.fps[key] = fingerprint(v)
		s.vals[key] = v
		s.reprs[key] = safeRepr(v)
	}
	return s
}

func safeRepr(v object.PanObject) (r string) {
	if panrun.Cyclic(v) {
		return cyclicRepr
	}
	defer func() {
		if p := recover(); p != nil {
			r = fmt.Sprintf("<Repr panicked: %v>", p)
		}
	}()
	return v.Repr()
}

// runHistory executes the history; it reports a violation for the first operation that changes an earlier value.
func (h *hrunner) runHistory(t tcase) {
	c := h.c
	r := c.R()
	env := object.NewEnclosedEnv(r.Root)
	o := r.Guard(env, "", func() object.PanObject { return evaluator.Eval(h.prelude, env) })
	if o.Kind != "value" {
		c.HarnessError("prelude failed: %s", o.Short())
		return
	}
	c.State(1)
	for i, opSrc := range t.Ops {
		prog := h.parse(opSrc)
		if prog == nil {
			c.Counter("ops_not_parsable", 1)
			return
		}
		before := takeSnapshot(env)
		probesBefore := h.takeProbes(env)
		if i == 0 {
			if msg, bad := probesBefore["*"]; bad {
				c.HarnessError("the behaviour probes do not evaluate on the fresh pool: %s", msg)
				return
			}
		}
		res := r.Guard(env, "", func() object.PanObject { return evaluator.Eval(prog, env) })
		c.Transition(1)
		c.Outcome(res.Kind)
		switch res.Kind {
		case "panic":
			c.Counter("ops_host_panic(C01)", 1)
		case "discard":
			c.Discard(1)
		case "value":
			if i == len(t.Ops)-1 {
				c.Nontrivial(1)
			}
		}
		after := takeSnapshot(env)
		c.Validated(1)
		for name, rp := range after.reprs {
			if rp == cyclicRepr && before.reprs[name] != cyclicRepr {
				c.Violation(core.Violation{Key: "value-contains-itself/" + opShape(opSrc), Case: core.JSON(t), Desc: strings.Join(t.Ops[:i+1], "; ") + "  => " + name + " contains itself",
					Expected: "a finite value (containers are built from values that existed before them)", Observed: name + " is reachable from itself: a value was changed after its creation",
					Repro: preludeSrc + strings.Join(t.Ops[:i+1], "\n") + "\n" + name + "[0][1].p\n"})
				return
			}
		}
		if want, ok := retained(opSrc, before.vals); ok && res.Kind == "value" {
			c.Counter("retention_oracle_checked", 1)
			if got := safeRepr(res.Val); got != want {
				c.Violation(core.Violation{Key: "retained-argument-changed/" + opShape(opSrc), Case: core.JSON(t), Desc: strings.Join(t.Ops[:i+1], "; "),
					Expected: want + " (every argument array / pair the callee kept still holds what it was created with)", Observed: got,
					Repro: preludeSrc + strings.Join(t.Ops[:i+1], "\n") + "\n" + strings.SplitN(opSrc, " :=", 2)[0] + ".p\n"})
				return
			}
		}
		for name, f := range before.fps {
			// the operation's own target variable may be (re)assigned: variables may change, values may not
			if strings.HasPrefix(opSrc, name+" :=") {
				continue
			}
			if after.fps[name] != f || after.reprs[name] != before.reprs[name] {
				c.Violation(core.Violation{Key: keyOf(opSrc, name, t), Case: core.JSON(t), Desc: strings.Join(t.Ops[:i+1], "; ") + "  => changes " + name,
					Expected: name + " = " + before.reprs[name] + " (unchanged)", Observed: name + " = " + after.reprs[name],
					Repro: preludeSrc + strings.Join(t.Ops[:i+1], "\n") + "\n" + name + ".p\n"})
				return
			}
		}
		probesAfter := h.takeProbes(env)
		for _, name := range poolVars {
			if strings.HasPrefix(opSrc, name+" :=") {
				continue
			}
			if probesAfter[name] != probesBefore[name] || probesAfter["*"] != probesBefore["*"] {
				c.Violation(core.Violation{Key: "answers-differently/" + poolKind[name] + "/" + opShape(opSrc), Case: core.JSON(t), Desc: strings.Join(t.Ops[:i+1], "; ") + "  => " + name + " answers read-only questions differently",
					Expected: replaceWord(probeByKind[poolKind[name]], "V", name) + " = " + probesBefore[name] + " (as before the operation)", Observed: probesAfter[name] + probesAfter["*"],
					Repro: preludeSrc + replaceWord(probeByKind[poolKind[name]], "V", name) + ".p\n" + strings.Join(t.Ops[:i+1], "\n") + "\n" + replaceWord(probeByKind[poolKind[name]], "V", name) + ".p\n"})
				return
			}
		}
		if after.proto != before.proto {
			c.Violation(core.Violation{Key: "builtin-prototype-changed/" + opShape(opSrc), Case: core.JSON(t), Desc: strings.Join(t.Ops[:i+1], "; "), Expected: "built-in prototypes keep their properties", Observed: "a built-in prototype's property table changed"})
			return
		}
		if res.Kind != "value" {
			return // the history ends at a failing operation
		}
	}
}

func opShape(opSrc string) string {
	// strip the assignment target and replace variable names by their kind
	e := opSrc
	if i := strings.Index(e, ":= "); i >= 0 {
		e = e[i+3:]
	}
	for _, v := range poolVars {
		e = replaceWord(e, v, "<"+poolKind[v]+">")
	}
	for i := 9; i >= 0; i-- {
		e = replaceWord(e, fmt.Sprintf("t%d", i), "<res>")
	}
	if len(e) > 60 {
		e = e[:60]
	}
	return e
}

func replaceWord(s, w, by string) string {
	var sb strings.Builder
	for i := 0; i < len(s); {
		if strings.HasPrefix(s[i:], w) && (i == 0 || !isWord(s[i-1])) && (i+len(w) == len(s) || !isWord(s[i+len(w)])) {
			sb.WriteString(by)
			i += len(w)
			continue
		}
		sb.WriteByte(s[i])
		i++
	}
	return sb.String()
}

func isWord(b byte) bool {
	return b == '_' || b >= '0' && b <= '9' || b >= 'a' && b <= 'z' || b >= 'A' && b <= 'Z'
}

func keyOf(opSrc, changed string, t tcase) string {
	kind := poolKind[changed]
	if kind == "" {
		kind = "earlier-result"
	}
	return "mutates-" + kind + "/" + opShape(opSrc)
}

// ---------------------------------------------------------------- callees that keep their arguments

// retention templates: the callee returns (keeps) the argument array / the [acc, elem] pair it was called
// with, so the result shows at the end what every one of them held when it was created.
var retentionOps = []struct {
	suffix string
	want   func(elems []string) string
}{
	{"@{\\0}", wrapEach("[%s]")},
	{".map {\\0}", wrapEach("[%s]")},
	{"@{|v| [\\0, \\_]}", wrapEach("[[%s], {}]")},
	{"$(nil){|pair| pair}", foldPairs("nil", "[%s, %s]")},
	{"$(nil){|acc, v| \\0}", foldPairs("nil", "[%s, %s]")},
	{"$(nil){\\0}", foldPairs("nil", "[[%s, %s]]")},
	{"$(nil)^kp", foldPairs("nil", "[%s, %s]")},
	{".reduce({|pair| pair}, init: 0)", foldPairs("0", "[%s, %s]")},
}

func wrapEach(f string) func([]string) string {
	return func(es []string) string {
		out := make([]string, len(es))
		for i, e := range es {
			out[i] = fmt.Sprintf(f, e)
		}
		return "[" + strings.Join(out, ", ") + "]"
	}
}

func foldPairs(init, f string) func([]string) string {
	return func(es []string) string {
		acc := init
		for _, e := range es {
			acc = fmt.Sprintf(f, acc, e)
		}
		return acc
	}
}

// retained returns the expected Repr of a retention operation whose receiver is an array variable.
func retained(opSrc string, vals map[string]object.PanObject) (string, bool) {
	i := strings.Index(opSrc, ":= ")
	if i < 0 {
		return "", false
	}
	e := opSrc[i+3:]
	for _, r := range retentionOps {
		if !strings.HasSuffix(e, r.suffix) {
			continue
		}
		arr, ok := vals[strings.TrimSuffix(e, r.suffix)].(*object.PanArr)
		if !ok || arr.Proto() != object.BuiltInArrObj {
			return "", false
		}
		es := make([]string, len(arr.Elems))
		for k, el := range arr.Elems {
			if el.Type() == object.NilType && !strings.Contains(r.suffix, "$") {
				return "", false // list chains drop nil results: not modelled here
			}
			es[k] = safeRepr(el)
		}
		return r.want(es), true
	}
	return "", false
}

// ---------------------------------------------------------------- operation alphabets

var argSet = []string{"1", "0", `"a"`, "[9]", "{z: 1}", "f", "a", "o", "s", "nil"}
var argPairs = [][2]string{{"1", "2"}, {"a", "f"}, {"0", "[9]"}, {`"a"`, `"z"`}}

func propNames(v object.PanObject) []string {
	seen := map[string]bool{}
	var names []string
	for p := v; p != nil; p = p.Proto() {
		if po, ok := p.(*object.PanObj); ok && po.Pairs != nil {
			for _, pair := range *po.Pairs {
				if ks, ok := pair.Key.(*object.PanStr); ok && !seen[ks.Value] {
					seen[ks.Value] = true
					names = append(names, ks.Value)
				}
			}
		}
	}
	sort.Strings(names)
	return names
}

var skipProps = map[string]bool{"import": true, "invite!": true, "read": true, "p": false, "exit": true, "doWhile": true, "doUntil": true, "eval": true, "evalEnv": true, "argv": true}

func depth1Ops(h *hrunner) []string {
	r := h.c.R()
	env := object.NewEnclosedEnv(r.Root)
	r.Guard(env, "", func() object.PanObject { return evaluator.Eval(h.prelude, env) })
	var ops []string
	for _, v := range poolVars {
		val, ok := env.Get(object.GetSymHash(v))
		if !ok {
			continue
		}
		for _, name := range propNames(val) {
			if skipProps[name] || strings.HasPrefix(name, "_") && name != "_iter" && name != "_incBy" {
				continue
			}
			call := v + "." + name
			ops = append(ops, "t0 := "+call)
			for _, a := range argSet {
				ops = append(ops, "t0 := "+call+"("+a+")")
			}
			for _, ap := range argPairs {
				ops = append(ops, "t0 := "+call+"("+ap[0]+", "+ap[1]+")")
			}
			ops = append(ops, "t0 := "+call+" {|x| x}", "t0 := "+call+" {|x, y| [x, y]}")
		}
	}
	infix := []string{"+", "-", "*", "/", "//", "%", "**", "==", "!=", "<=>", "<<", ">>", "/&", "/|", "/^", "&&", "||", "===", "<", ">="}
	for _, x := range poolVars {
		for _, y := range poolVars {
			for _, op := range infix {
				ops = append(ops, "t0 := "+x+" "+op+" "+y)
			}
		}
	}
	for _, op := range []string{"-", "!", "+", "/~", "*", "**"} {
		for _, x := range poolVars {
			if op == "*" {
				ops = append(ops, "t0 := [*"+x+"]")
			} else if op == "**" {
				ops = append(ops, "t0 := {**"+x+"}", "t0 := %{**"+x+"}")
			} else {
				ops = append(ops, "t0 := "+op+x)
			}
		}
	}
	for _, x := range []string{"a", "a5", "s", "nested", "n", "m", "o"} {
		for _, ix := range []string{"[0]", "[-1]", "[1:]", "[:2]", "[::-1]", "[1:3]", "[9]", "['a]", "[[1]]"} {
			ops = append(ops, "t0 := "+x+ix)
		}
	}
	ops = append(ops, coreOps("t0", append([]string{}, poolVars...))...)
	// built-in prototypes as the first of several expansions / as unpack sources
	for _, proto := range []string{"Int", "Obj", "Arr", "Str", "Kernel", "BaseObj", "Map", "Either"} {
		ops = append(ops, "t0 := kf(**"+proto+", **{marker: 1})", "t0 := kf(**{marker: 1}, **"+proto+")", "t0 := {**"+proto+", marker: 1}.keys.len", "t0 := "+proto+".bear({marker: 1})",
			"t0 := 1.p(**"+proto+", **{end: \"\"})")
	}
	return dedup(ops)
}

func dedup(l []string) []string {
	seen := map[string]bool{}
	var out []string
	for _, s := range l {
		if !seen[s] {
			seen[s] = true
			out = append(out, s)
		}
	}
	return out
}

// coreOps: container-producing templates; operands range over the given variables by kind.
func coreOps(target string, vars []string) []string {
	kindOf := func(v string) string {
		if k, ok := poolKind[v]; ok {
			return k
		}
		return "res" // result of an earlier operation: tried in every position
	}
	pick := func(kind string) []string {
		var l []string
		for _, v := range vars {
			if k := kindOf(v); k == kind || k == "res" {
				l = append(l, v)
			}
		}
		return l
	}
	var ops []string
	add := func(s string) { ops = append(ops, target+" := "+s) }
	arrs, objs, maps, strs := pick("arr"), pick("obj"), pick("map"), pick("str")
	for _, x := range arrs {
		add(x + " + [4]")
		add(x + " + [5, 6]")
		add(x + " * 2")
		add("[*" + x + ", 9]")
		add("[9, *" + x + "]")
		add(x + "[1:]")
		add(x + "[:2]")
		add(x + "[::-1]")
		add(x + ".sort")
		add(x + ".A")
		add(x + "@{|v| v}")
		add(x + "@([]){|v| v}")
		add(x + ".append(7)")
		add(x + ".exclude {|v| v == 1}")
		add(x + ".select {|v| v == 1}")
		add(x + ".uniq")
		add(x + ".flatten")
		add(x + ".zip(" + x + ")")
		add(x + ".withI")
		add(x + ".chunk(2)")
		add(x + ".bear")
		add("Arr.new(" + x + ")")
		for _, r := range retentionOps {
			add(x + r.suffix)
		}
		for _, y := range arrs {
			add(x + " + " + y)
			add(x + "$(" + y + "){|acc, v| acc + [v]}")
			add("[*" + x + ", *" + y + "]")
		}
	}
	for _, x := range objs {
		add("{**" + x + ", z: 1}")
		add("{z: 1, **" + x + "}")
		add(x + ".bear({q: 1})")
		add(x + ".bro({q: 2})")
		add(x + ".patch(a: 9)")
		add(x + ".del('a)")
		add(x + ".items")
		add(x + "@({}){|k, v| [k, v]}")
		add("%{**" + x + "}")
		// several `**` expansions in one argument list (merged into one kwargs object)
		add("kf(**" + x + ", **{zz: 1})")
		add("kf(**{zz: 1}, **" + x + ")")
		add("kf(a: 1, **" + x + ", **{zz: 1})")
		add(x + ".keys(**" + x + ", **{private?: true})")
		add("kf(**" + x + ", **{zz: 1}, **{yy: 2})")
		for _, y := range objs {
			add("{**" + x + ", **" + y + "}")
			add("kf(**" + x + ", **" + y + ")")
		}
	}
	for _, x := range maps {
		add("%{**" + x + ", 9: 9}")
		add("%{[2]: 0, **" + x + "}")
		add(x + ".items")
		add(x + ".keys")
		add(x + "@(%{}){|k, v| [k, v]}")
		// reads of a map: looking keys up (scalar, non-scalar, first/last/absent), asking, comparing, printing
		for _, k := range []string{"[1]", "[1, 2]", "[3, 4]", "{x: 1}", "%{1: 2}", "5", "\"k\"", "[9]"} {
			add(x + "[" + k + "]")
			add(x + ".has?(" + k + ")")
		}
		add(x + " == " + x)
		add(x + ".S")
		add(x + ".values")
		add(x + ".len")
		for _, y := range maps {
			add("%{**" + x + ", **" + y + "}")
		}
	}
	for _, x := range strs {
		add(x + " + \"d\"")
		add(x + " * 2")
		add(x + "[1:]")
		add(x + ".uc")
		add(x + ".sub(\"a\", \"z\")")
		add(x + " / \"b\"")
	}
	return ops
}

func gen(h *hrunner, thorough bool, emit func(tcase)) {
	for _, op := range depth1Ops(h) {
		emit(tcase{Ops: []string{op}})
	}
	// names first used after a value that holds an equal-keyed name exists; strs used as range bounds / stepped
	for _, op := range []string{"t1 := 'lwvgwfgDAyorc", "t1 := {lwvgwfgDAyorc: 2}", "t1 := {**oc, lwvgwfgDAyorc: 3}", "t1 := \"lwvgwfgDAyorc: 5\".evalEnv", "t1 := oc.lwvgwfgDAyorc",
		"t1 := nil.try.{|u| raise ew}.err", "t1 := nil.try.{|u| {|| {|| raise ew}()}()}.err", "t1 := nil.try.{|u| raise ew if true}.err", "t1 := [1, 2]@{|i| nil.try.{|u| raise ew}.err?}", "t1 := nil.try.{|u| ew.abandon}.err?", "t1 := e.abandon",
		"t1 := (s:\"abf\").A", "t1 := (s:\"abf\")._iter.next", "t1 := s._incBy(1)", "t1 := s._incBy(2)", "t1 := (\"abb\":s).A", "t1 := (s:\"abz\":3).A", "t1 := su._incBy(1)", "t1 := (su:su).A", "t1 := [s, su]@_incBy(1)"} {
		emit(tcase{Ops: []string{op}})
		emit(tcase{Ops: []string{op, op}})
		emit(tcase{Ops: []string{op, "t2 := [s[0], s[-1], su[0], su.len, oc.keys]"}})
	}
	// depth 2: core x core (second operation may use the first result)
	first := coreOps("t1", poolVars)
	for _, o1 := range first {
		second := coreOps("t2", append(append([]string{}, poolVars...), "t1"))
		for _, o2 := range second {
			// only sequences in which the second operation can interact with the first: it uses t1
			// or shares an operand with it
			if !strings.Contains(o2, "t1") && !sharesOperand(o1, o2) {
				continue
			}
			emit(tcase{Ops: []string{o1, o2}})
		}
	}
	if thorough {
		small := []string{"a", "o", "m"}
		f1 := coreOps("t1", small)
		for _, o1 := range f1 {
			for _, o2 := range coreOps("t2", append(append([]string{}, small...), "t1")) {
				if !strings.Contains(o2, "t1") && !sharesOperand(o1, o2) {
					continue
				}
				for _, o3 := range coreOps("t3", []string{"a", "o", "m", "t1", "t2"}) {
					if !strings.Contains(o3, "t1") && !strings.Contains(o3, "t2") && !sharesOperand(o1, o3) {
						continue
					}
					emit(tcase{Ops: []string{o1, o2, o3}})
				}
			}
		}
	}
}

// ---------------------------------------------------------------- functions observed by what they return

// A function value "never changes what it ... contains": for closures the observable content is what a call
// returns. The functions below were yielded by an iterator (closing over its parameters), born from one
// literal evaluated several times (keyword defaults taken from the enclosing scope) or close over a
// container; the operations advance/copy the iterator, evaluate the literals again and call the functions.
// After every operation every probe must print what it printed before the first operation.
const closurePrelude = `gen := <{|n| yield {|k: n| [n, k]} if n < 6; recur(n + 1)}>
it := gen.new(0)
f0 := it.next
f1 := it.next
mk := {|d| {|x, by: d| x * by}}
g2 := mk(2)
mkm := {|d| m{|x, by: d| [x, by]}}
m2 := mkm(2)
acc := {|a| {|| a}}
h1 := acc([1])
mki := {|d| <{|x, by: d| yield x * by; recur(x + 1)}>}
i2 := mki(2)
`

const closureProbe = "[f0(), f1(), f0.kwargs, g2(5), g2.kwargs, 5.^m2, m2.kwargs, h1(), i2.new(3).next, i2.new(3, by: 4).next, f0, g2]"

var closureOps = []string{
	"it.next", "u1 := it.next", "it.A", "it@{|f| f()}", "it.new(7).next", "it2 := it.new(9); it2.next", "gen.new(5).next",
	"mk(3)", "g3 := mk(3)", "[4, 5]@{|i| mk(i)}", "g2(1, by: 9)", "f0(k: 7)", "mkm(3)", "u3 := mkm(4); 9.^u3", "mki(3)", "mki(3).new(1).next", "u4 := i2.new(1); u4.next; u4.next",
	"acc([2])", "h1() + [3]", "u2 := it.next; u2()",
}

func genClosure(depth int, emit func(tcase)) {
	var rec func(ops []string)
	rec = func(ops []string) {
		if len(ops) > 0 {
			emit(tcase{Fam: "closure", Ops: append([]string{}, ops...)})
		}
		if len(ops) == depth {
			return
		}
		for _, o := range closureOps {
			rec(append(ops, o))
		}
	}
	rec(nil)
}

func (h *hrunner) runClosure(t tcase) {
	c := h.c
	r := c.R()
	env := object.NewEnclosedEnv(r.Root)
	pre := h.parse(closurePrelude)
	probe := h.parse(closureProbe)
	if pre == nil || probe == nil {
		c.HarnessError("closure prelude/probe does not parse")
		return
	}
	o := r.Guard(env, "", func() object.PanObject { return evaluator.Eval(pre, env) })
	if o.Kind != "value" {
		c.HarnessError("closure prelude failed: %s", o.Short())
		return
	}
	c.State(1)
	look := func() string {
		o := r.Guard(env, "", func() object.PanObject { return evaluator.Eval(probe, env) })
		if o.Kind == "value" {
			return safeRepr(o.Val)
		}
		return o.Short()
	}
	want := look()
	if !strings.HasPrefix(want, "[") {
		c.HarnessError("closure probe is not a value: %s", want)
		return
	}
	for i, opSrc := range t.Ops {
		prog := h.parse(opSrc)
		if prog == nil {
			c.HarnessError("closure operation does not parse: %s", opSrc)
			return
		}
		res := r.Guard(env, "", func() object.PanObject { return evaluator.Eval(prog, env) })
		c.Transition(1)
		c.Outcome("closure:" + res.Kind)
		if res.Kind == "value" && i == len(t.Ops)-1 {
			c.Nontrivial(1)
		}
		c.Validated(1)
		got := look()
		if os.Getenv("C06_DEBUG") != "" {
			fmt.Fprintf(os.Stderr, "DEBUG want=%s\n got=%s res=%s\n", want, got, res.Short())
		}
		if got != want {
			c.Violation(core.Violation{Key: "function-result-changed/" + opShape(opSrc), Case: core.JSON(t), Desc: strings.Join(t.Ops[:i+1], "; "),
				Expected: want + " (what the functions returned and showed before the operations)", Observed: got,
				Repro: closurePrelude + strings.Join(t.Ops[:i+1], "\n") + "\n" + closureProbe + ".p\n"})
			return
		}
	}
}

func sharesOperand(o1, o2 string) bool {
	for _, v := range poolVars {
		if containsWord(o1, v) && containsWord(o2, v) {
			return true
		}
	}
	return false
}

func containsWord(s, w string) bool { return replaceWord(s, w, "\x00") != s }

// Lines read from standard input are str values like any other: a line that is kept (in a variable, an array, as a map
// key) while the program goes on reading - past every buffer size a reader might use - stays what it was.
func runStdin(c *core.Ctx) {
	if c.Shard != 0 {
		return
	}
	for _, n := range []int{3, 120, 400, 3000} {
		var in strings.Builder
		for i := 1; i <= n; i++ {
			fmt.Fprintf(&in, "record %04d payload-%04d-abcdefghij\n", i, i)
		}
		first := "record 0001 payload-0001-abcdefghij"
		for _, prog := range []string{
			"first := <>.S\nkept := [first]\nm := %{first: 1}\nrest := <>.A\n[first, kept[0], m.keys[0], first == kept[0], first.len, rest.len].p",
			"first := <>.S\nkept := [first]\nm := %{first: 1}\nrest := <>@{|l| l.len}\n[first, kept[0], m.keys[0], first == \"" + first + "\", first.len, rest.len].p",
			"ls := <>@{|l| l}\n[ls[0], ls.first, ls[0] + \"\", ls[0] == \"" + first + "\", ls[0].len, ls.len - 1].p",
		} {
			cmd := exec.Command("timeout", "60", os.Getenv("PANMC_CLI"), "-e", prog)
			cmd.Stdin = strings.NewReader(in.String())
			outb, rerr := cmd.Output()
			if ee, isExit := rerr.(*exec.ExitError); isExit && ee.ExitCode() == 124 {
				c.Incomplete("stdin family: the binary did not finish within 60 s (machine overloaded?)") // never an oracle
				continue
			}
			got := strings.TrimSpace(string(outb))
			c.Eval(1)
			c.Validated(1)
			c.Nontrivial(1)
			want := fmt.Sprintf("[%q, %q, %q, true, %d, %d]", first, first, first, len(first), n-1)
			c.Outcome("stdin:" + map[bool]string{true: "ok", false: "differs"}[got == want])
			if got != want {
				c.Violation(core.Violation{Key: "line-read-from-stdin-changes-while-reading-on", Case: core.JSON(tcase{Fam: "stdin", Ops: []string{prog, fmt.Sprint(n)}}), Desc: fmt.Sprintf("%d input lines; %s", n, strings.ReplaceAll(prog, "\n", "; ")), Expected: want, Observed: got})
			}
		}
	}
}

func run(c *core.Ctx) {
	runStdin(c)
	h := newRunner(c)
	if h == nil {
		return
	}
	var cases []tcase
	gen(h, c.Thorough(), func(t tcase) { cases = append(cases, t) })
	genClosure(c.Pick(3, 4), func(t tcase) { cases = append(cases, t) })
	c.Note("histories_total", len(cases))
	tk.Sharded(c, len(cases), func(i int) {
		c.Eval(1)
		if i%5003 == 0 {
			c.Sample(map[string]interface{}{"pool": poolVars, "history": cases[i].Ops})
		}
		if cases[i].Fam == "closure" {
			h.runClosure(cases[i])
			return
		}
		h.runHistory(cases[i])
	})
}

func replay(c *core.Ctx, raw json.RawMessage) {
	var t tcase
	if err := json.Unmarshal(raw, &t); err != nil {
		c.HarnessError("bad case: %v", err)
		return
	}
	h := newRunner(c)
	if h == nil {
		return
	}
	c.Eval(1)
	if t.Fam == "stdin" {
		runStdin(c)
		return
	}
	if t.Fam == "closure" {
		h.runClosure(t)
		return
	}
	h.runHistory(t)
}
