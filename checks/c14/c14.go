// Package c14: iterator literals follow the next/yield/recur protocol and are independent
// (property C14). Explicit-state exploration: the complete history tree of operations
// (new / new-from-iterator / alias / next / A / list chain / reduce chain / outer reassignment) on up
// to 3 iterators derived from one literal is explored to a depth bound; a per-iterator state-machine
// model predicts every observation and every path is replayed on the real interpreter.
package c14

import (
	"encoding/json"
	"fmt"
	"strings"

	"panmc/internal/core"
	"panmc/internal/panrun"
	"panmc/internal/tk"
)

func init() {
	core.Register(&core.Check{
		ID:    "C14",
		Level: "model_checking",
		// generous internal deadline: the run takes 1-2 minutes on an idle machine and several times that next to other jobs
		QuickBudget: 900,
		Rule: "for each of 13 body shapes (an int-valued guard; a yielded expression that would raise / would consume a shared source on the stop step; guarded yield then recur; recur then guarded yield; two yields; no recur; keyword arguments; body reading a reassigned outer variable; unguarded infinite; nil first yield; no declared parameters with \\ resp. \\1) the complete history tree of depth <=5 (thorough 6) over the operations " +
			"{iK := gen.new(0|2), iK := iJ.new(1), iK := iJ (alias), iJ.next, iJ.A, iJ@{..}, iJ$(0)+ (thorough), lim := 1|5} on <=3 iterator variables; states = model states reached, transitions = operations; " +
			"freshness (no model): for 7 literals incl. ones that keep progress in body-local assignments or threaded keyword arguments, every history of <=3 (thorough 4) operations over 9 (next, A, chains, _iter copy, new, advancing the literal itself) followed by b := a.new(args) and c := gen.new(args): both must yield exactly what a first iterator yielded; " +
			"every path is one program on the real interpreter and every observation along it (value / StopIterErr / collected list) is compared with the model; A and chains are generated only where the model proves the iteration finite; " +
			"non-trivial = path touching >=2 iterator objects or containing a chain/A; distinct = distinct operation sequence; round 7: A factory family: an iterator literal written inside a function (keyword default from the scope, body reading the scope, threaded keyword, literal in a chain block) is evaluated for every sequence of <=3 (thorough 4) of 6 uses; expected values follow from arithmetic.; round 8: Property-call chains (`@S`, `@nil?`) run over iterators that yield nil; a cross family lets the body of a chain over a (lengths 0..4) step a sibling iterator b (lengths 0..5) in 5 chain forms: the StopIterErr of the body comes out, a is not advanced.",
		Assumptions: []string{
			"bodies without any yield (value of the body unspecified by the statement) are not generated",
			"histories are not merged: iterators are compared through complete paths, so sharing of hidden state between aliases/copies cannot be abstracted away",
		},
		Run:    run,
		Replay: replay,
	})
}

type shape struct {
	Name string
	Gen  string // source defining gen (and lim)
	Kw   bool
}

var shapes = []shape{
	{Name: "yield-then-recur", Gen: "gen := <{|i| yield i if i < 3; recur(i + 1)}>"},
	{Name: "recur-then-yield", Gen: "gen := <{|i| recur(i + 1); yield i if i < 3}>"},
	{Name: "two-yields", Gen: "gen := <{|i| yield i if i < 3; yield 99; recur(i + 1)}>"},
	{Name: "no-recur", Gen: "gen := <{|i| yield i if i < 3}>"},
	{Name: "kwargs", Gen: "gen := <{|i, step: 1| yield i if i < 4; recur(i + step, step: step)}>", Kw: true},
	{Name: "outer-variable", Gen: "lim := 3\ngen := <{|i| yield i if i < lim; recur(i + 1)}>"},
	{Name: "infinite", Gen: "gen := <{|i| yield i; recur(i + 1)}>"},
	// the first yield of an evaluation is nil for even i; a second yield and a non-nil last statement follow
	// no declared parameters: the state lives only in the implicit argument variables
	{Name: "implicit-args", Gen: "gen := <{yield \\ if \\ < 3; recur(\\ + 1)}>"},
	{Name: "implicit-numbered-args", Gen: "gen := <{yield \\1 if \\1 < 3; recur(\\1 + 1)}>"},
	// the guard protects the yielded expression: on the stop step it would raise / would consume a shared source
	{Name: "value-raises-at-stop", Gen: "gen := <{|i| yield 12 // (3 - i) if i < 3; recur(i + 1)}>"},
	{Name: "value-consumes-shared-source", Gen: "src := <{|k| yield k; recur(k + 1)}>.new(100)\ngen := <{|i| yield src.next if i < 3; recur(i + 1)}>"},
	// the guard is an int (truthy when non-zero, also when negative)
	{Name: "int-guard", Gen: "gen := <{|i| yield i if i - 3; recur(i + 1)}>"},
	// an unguarded yield succeeds first; a guarded yield written after it still decides whether the step stops
	{Name: "plain-yield-then-guarded-yield", Gen: "gen := <{|i| yield i; yield 99 if i < 3; recur(i + 1)}>"},
	{Name: "plain-yield-recur-then-guarded-yield", Gen: "gen := <{|i| yield i; recur(i + 1); yield 99 if i < 3}>"},
	// the recur is deferred: it runs when the body is left, also when the guard stops the step
	{Name: "deferred-recur", Gen: "gen := <{|i| defer recur(i + 1); yield i if i < 3}>"},
	// ... and the guard is true again for later arguments: the step after a stop goes on (the arguments of the most recent recur)
	{Name: "deferred-recur-guard-true-again", Gen: "gen := <{|i| defer recur(i + 1); yield i if i % 3 != 2}>"},
	{Name: "nil-first-yield", Gen: "gen := <{|i| yield [nil, i][i % 2] if i < 4; yield 99; recur(i + 1); 77}>"},
}

type op struct {
	K    string `json:"k"` // new | newfrom | alias | next | A | list | reduce | lim
	J    int    `json:"j"` // operand variable
	Arg  int    `json:"arg"`
	Step int    `json:"step,omitempty"`
}

type tcase struct {
	Shape int  `json:"shape"`
	Ops   []op `json:"ops"`
}

// model
type mit struct {
	i, step int
}

type mstate struct {
	shape int
	vars  []*mit
	lim   int
	src   int // next value of the shared source (shape value-consumes-shared-source)
}

func (s *mstate) clone() *mstate {
	n := &mstate{shape: s.shape, lim: s.lim, src: s.src}
	seen := map[*mit]*mit{}
	for _, v := range s.vars {
		if c, ok := seen[v]; ok {
			n.vars = append(n.vars, c)
			continue
		}
		c := *v
		seen[v] = &c
		n.vars = append(n.vars, &c)
	}
	return n
}

// next returns (value, stopped) and advances it.
func (s *mstate) next(it *mit) (int, bool) {
	switch shapes[s.shape].Name {
	case "yield-then-recur", "two-yields", "implicit-args", "implicit-numbered-args", "int-guard", "plain-yield-then-guarded-yield":
		if it.i < 3 {
			v := it.i
			it.i++
			return v, false
		}
		return 0, true
	case "value-raises-at-stop":
		if it.i < 3 {
			v := 12 / (3 - it.i)
			it.i++
			return v, false
		}
		return 0, true
	case "value-consumes-shared-source":
		if it.i < 3 {
			v := s.src
			s.src++
			it.i++
			return v, false
		}
		return 0, true
	case "recur-then-yield", "plain-yield-recur-then-guarded-yield", "deferred-recur":
		v := it.i
		it.i++
		if v < 3 {
			return v, false
		}
		return 0, true
	case "deferred-recur-guard-true-again":
		v := it.i
		it.i++
		if v%3 != 2 {
			return v, false
		}
		return 0, true
	case "no-recur":
		if it.i < 3 {
			return it.i, false
		}
		return 0, true
	case "kwargs":
		if it.i < 4 {
			v := it.i
			it.i += it.step
			return v, false
		}
		return 0, true
	case "outer-variable":
		if it.i < s.lim {
			v := it.i
			it.i++
			return v, false
		}
		return 0, true
	case "infinite":
		v := it.i
		it.i++
		return v, false
	case "nil-first-yield":
		if it.i < 4 {
			v := it.i
			it.i++
			if v%2 == 0 {
				return nilValue, false
			}
			return v, false
		}
		return 0, true
	}
	return 0, true
}

// nilValue marks a yielded nil in the model (values are small non-negative ints otherwise)
const nilValue = -1000000

// collect returns the values a copy of it would produce; ok=false if it does not stop within the cap.
func (s *mstate) collect(it *mit) ([]int, bool) {
	c := *it
	var vs []int
	for n := 0; n < 40; n++ {
		v, stop := s.next(&c)
		if stop {
			return vs, true
		}
		vs = append(vs, v)
	}
	return nil, false
}

// ints renders collected values; a list chain (and A, which is one) drops nil results
func ints(vs []int, f func(int) int) string {
	var p []string
	for _, v := range vs {
		if v == nilValue {
			continue
		}
		p = append(p, fmt.Sprint(f(v)))
	}
	return "[" + strings.Join(p, ", ") + "]"
}

// apply runs the op on the model, returns the source statement and the expected observation ("" = none).
func (s *mstate) apply(o op, n int) (src string, want string) {
	r := fmt.Sprintf("r%d", n)
	switch o.K {
	case "new":
		k := len(s.vars)
		step := 1
		arg := fmt.Sprint(o.Arg)
		if shapes[s.shape].Kw && o.Step > 0 {
			step = o.Step
			if o.Step == 3 {
				// the keyword arrives through an expansion only (no keyword is written at the call)
				arg += ", **{step: 3}"
			} else {
				arg += fmt.Sprintf(", step: %d", o.Step)
			}
		}
		s.vars = append(s.vars, &mit{i: o.Arg, step: step})
		return fmt.Sprintf("i%d := gen.new(%s)", k, arg), ""
	case "newfrom":
		k := len(s.vars)
		s.vars = append(s.vars, &mit{i: o.Arg, step: 1})
		return fmt.Sprintf("i%d := i%d.new(%d)", k, o.J, o.Arg), ""
	case "alias":
		k := len(s.vars)
		s.vars = append(s.vars, s.vars[o.J])
		return fmt.Sprintf("i%d := i%d", k, o.J), ""
	case "next":
		v, stop := s.next(s.vars[o.J])
		if stop {
			return fmt.Sprintf("%s := i%d.try.next.A", r, o.J), "[nil, [StopIterErr: iter stopped]]"
		}
		if v == nilValue {
			return fmt.Sprintf("%s := i%d.try.next.A", r, o.J), "[nil, nil]"
		}
		return fmt.Sprintf("%s := i%d.try.next.A", r, o.J), fmt.Sprintf("[%d, nil]", v)
	case "A":
		vs, _ := s.collect(s.vars[o.J])
		return fmt.Sprintf("%s := i%d.A", r, o.J), ints(vs, func(v int) int { return v })
	case "list":
		vs, _ := s.collect(s.vars[o.J])
		if shapes[s.shape].Name == "nil-first-yield" {
			// strict list chain: yielded nils are kept as elements
			var p []string
			for _, v := range vs {
				if v == nilValue {
					p = append(p, "nil")
				} else {
					p = append(p, fmt.Sprint(v))
				}
			}
			// ... and a property-call chain visits them too (nil.S is "nil", nil.nil? is true)
			q := make([]string, len(p))
			nq := make([]string, len(p))
			for i, x := range p {
				q[i] = `"` + x + `"`
				nq[i] = fmt.Sprint(x == "nil")
			}
			return fmt.Sprintf("%s := [i%d=@{|v| v}, i%d@S, i%d@nil?]", r, o.J, o.J, o.J), "[[" + strings.Join(p, ", ") + "], [" + strings.Join(q, ", ") + "], [" + strings.Join(nq, ", ") + "]]"
		}
		return fmt.Sprintf("%s := i%d@{|v| v * 10 + 1}", r, o.J), ints(vs, func(v int) int { return v*10 + 1 })
	case "reduce":
		vs, _ := s.collect(s.vars[o.J])
		sum := 0
		for _, v := range vs {
			if v != nilValue { // `acc + nil` is acc
				sum += v
			}
		}
		return fmt.Sprintf("%s := i%d$(0)+", r, o.J), fmt.Sprint(sum)
	case "lim":
		s.lim = o.Arg
		return fmt.Sprintf("lim := %d", o.Arg), ""
	}
	return "", ""
}

func enabled(s *mstate, thorough bool) []op {
	var ops []op
	for j, v := range s.vars {
		ops = append(ops, op{K: "next", J: j})
		if _, fin := s.clone().collect(v); fin {
			ops = append(ops, op{K: "A", J: j}, op{K: "list", J: j})
			if thorough {
				ops = append(ops, op{K: "reduce", J: j})
			}
		}
	}
	if len(s.vars) < 3 {
		ops = append(ops, op{K: "new", Arg: 0}, op{K: "new", Arg: 2})
		if shapes[s.shape].Kw {
			ops = append(ops, op{K: "new", Arg: 0, Step: 2}, op{K: "new", Arg: 0, Step: 3})
		}
		for j := range s.vars {
			ops = append(ops, op{K: "newfrom", J: j, Arg: 1}, op{K: "alias", J: j})
		}
	}
	if shapes[s.shape].Name == "outer-variable" {
		ops = append(ops, op{K: "lim", Arg: 1}, op{K: "lim", Arg: 5})
	}
	return ops
}

func initial(shape int) *mstate { return &mstate{shape: shape, lim: 3, src: 100} }

// build returns the program and the expected rendering of its final array.
func (t tcase) build() (string, string, bool) {
	s := initial(t.Shape)
	var lines []string
	var wants, names []string
	lines = append(lines, shapes[t.Shape].Gen)
	for n, o := range t.Ops {
		if o.J >= len(s.vars) && (o.K != "new" && o.K != "lim") {
			return "", "", false
		}
		src, want := s.apply(o, n)
		lines = append(lines, src)
		if want != "" {
			wants = append(wants, want)
			names = append(names, fmt.Sprintf("r%d", n))
		}
	}
	lines = append(lines, "["+strings.Join(names, ", ")+"]")
	return strings.Join(lines, "\n"), "[" + strings.Join(wants, ", ") + "]", true
}

func (s *mstate) key() string {
	var sb strings.Builder
	idx := map[*mit]int{}
	for _, v := range s.vars {
		if _, ok := idx[v]; !ok {
			idx[v] = len(idx)
		}
		fmt.Fprintf(&sb, "%d:%d/%d ", idx[v], v.i, v.step)
	}
	fmt.Fprintf(&sb, "lim%d src%d", s.lim, s.src)
	return sb.String()
}

func gen(thorough bool, depth int, states map[string]bool, emit func(tcase)) {
	for si := range shapes {
		var rec func(s *mstate, ops []op)
		rec = func(s *mstate, ops []op) {
			states[fmt.Sprintf("%d|%s", si, s.key())] = true
			if len(ops) > 0 {
				last := ops[len(ops)-1]
				// only paths that end with an observation are programs of their own
				if last.K == "next" || last.K == "A" || last.K == "list" || last.K == "reduce" {
					emit(tcase{Shape: si, Ops: append([]op{}, ops...)})
				}
			}
			if len(ops) == depth+1 {
				return
			}
			for _, o := range enabled(s, thorough) {
				n := s.clone()
				n.apply(o, len(ops))
				rec(n, append(ops, o))
			}
		}
		s0 := initial(si)
		first := op{K: "new", Arg: 0}
		s0.apply(first, 0)
		rec(s0, []op{first})
	}
}

func nontrivial(t tcase) bool {
	objs := 0
	for _, o := range t.Ops {
		switch o.K {
		case "new", "newfrom":
			objs++
		case "A", "list", "reduce", "alias", "lim":
			return true
		}
	}
	return objs >= 2
}

func classify(t tcase) string {
	has := map[string]bool{}
	for _, o := range t.Ops {
		has[o.K] = true
	}
	switch {
	case has["alias"]:
		return "with-alias"
	case has["newfrom"]:
		return "with-new-from-iterator"
	case has["A"] || has["list"] || has["reduce"]:
		return "with-chain-or-A"
	case has["lim"]:
		return "with-outer-reassignment"
	}
	return "next-only"
}

func judge(c *core.Ctx, t tcase, o panrun.Obs) {
	if nontrivial(t) {
		c.Nontrivial(1)
	}
	c.Validated(1)
	c.Transition(len(t.Ops))
	src, want, ok := t.build()
	if !ok {
		c.HarnessError("malformed path %+v", t)
		return
	}
	if o.Kind == "syntax" {
		c.HarnessError("generated path does not parse: %s: %s", src, o.ErrMsg)
		return
	}
	c.Outcome(shapes[t.Shape].Name + ":" + o.Kind)
	if o.Kind == "value" && o.Repr == want {
		return
	}
	c.Violation(core.Violation{Key: shapes[t.Shape].Name + "/" + classify(t), Case: core.JSON(t), Desc: strings.ReplaceAll(src, "\n", "; "), Expected: want, Observed: o.Short(),
		Repro: "zz := {||\n" + src + "\n}\nzz().p\n"})
}

// ---------------------------------------------------------------- freshness of new, whatever the history of its receiver

// freshGens: iterator literals incl. ones that keep progress outside their parameters (a body-local assignment,
// a keyword argument threaded through recur); no model is needed: what `x.new(args)` yields must not depend on
// what happened to x (or to any other iterator of the family) before.
var freshGens = []struct{ name, gen, args string }{
	{"body-local-counter", "n := 0\ngen := <{yield (n := n + 1) if n < 3}>", ""},
	{"body-local-after-yield", "gen := <{|i| yield i if i < 3; i := i + 1}>", "0"},
	{"kwarg-threaded", "gen := <{|i, acc: 0| yield i + acc if i < 3; recur(i + 1, acc: acc + 10)}>", "0"},
	{"param-and-local", "gen := <{|i| k := (k2 || 0); yield i + k if i < 3; k2 := k + 100; recur(i + 1)}>", "0"},
	{"yield-then-recur", "gen := <{|i| yield i if i < 3; recur(i + 1)}>", "0"},
	{"implicit-args", "gen := <{yield \\ if \\ < 3; recur(\\ + 1)}>", "0"},
	{"two-yields-nil-first", "gen := <{|i| yield [nil, i][i % 2] if i < 4; yield 99; recur(i + 1); 77}>", "0"},
}

var freshOps = []string{"a.next", "a.A", "a@{|x| x}", "a$(0){|s, x| x}", "a2 := a._iter", "a2.next", "a3 := a.new(%s)", "a3.next", "gen.next"}

type fcase struct {
	Mode string   `json:"mode"` // "fresh"
	Gen  int      `json:"gen"`
	Hist []string `json:"hist"`
}

func (f fcase) src() string {
	g := freshGens[f.Gen]
	obs := func(v string) string {
		return "[" + v + ".try.next.A.S, " + v + ".try.next.A.S, " + v + ".try.next.A.S, " + v + ".try.next.A.S, " + v + ".try.next.A.S]"
	}
	var sb strings.Builder
	sb.WriteString("k2 := nil\n" + g.gen + "\n")
	sb.WriteString("base := gen.new(" + g.args + ")\nr0 := " + obs("base") + "\n")
	sb.WriteString("a := gen.new(" + g.args + ")\na2 := a\na3 := a\n")
	for _, h := range f.Hist {
		sb.WriteString("nil.try.{|u| " + strings.Replace(h, "%s", g.args, 1) + "}\n")
	}
	sb.WriteString("b := a.new(" + g.args + ")\nr1 := " + obs("b") + "\n")
	sb.WriteString("c := gen.new(" + g.args + ")\nr2 := " + obs("c") + "\n")
	sb.WriteString("[r0 == r1, r0 == r2, r0, r1, r2]")
	return sb.String()
}

func judgeFresh(c *core.Ctx, f fcase, o panrun.Obs) {
	c.Validated(1)
	c.Nontrivial(1)
	c.Transition(len(f.Hist) + 3)
	if o.Kind == "syntax" {
		c.HarnessError("freshness program does not parse: %s: %s", f.src(), o.ErrMsg)
		return
	}
	c.Outcome("fresh:" + o.Kind)
	if o.Kind == "value" && strings.HasPrefix(o.Repr, "[true, true, ") {
		return
	}
	class := "new-from-used-iterator"
	if o.Kind == "value" && strings.HasPrefix(o.Repr, "[true, false") {
		class = "new-from-literal-after-use"
	}
	c.Violation(core.Violation{Key: "fresh/" + freshGens[f.Gen].name + "/" + class, Case: core.JSON(f), Desc: strings.ReplaceAll(f.src(), "\n", "; "),
		Expected: "[true, true, ...]: an iterator made by new yields the same whatever happened to its receiver before", Observed: o.Short(), Repro: "zz := {||\n" + f.src() + "\n}\nzz().p\n"})
}

// ---------------------------------------------------------------- one literal evaluated several times

// An iterator literal written inside a factory function is evaluated on every call of the factory: each result
// is bound to the scope (and to the keyword defaults) of ITS evaluation. Expected values follow from arithmetic:
// an iterator started at i with step d yields i, i+d, ... below 10.
var factories = []struct {
	name, src string
	stepKw    bool // the iterator declares the keyword parameter `step`
}{
	{"kw-default-from-scope", "mk := {|d| <{|i, step: d| yield i if i < 10; recur(i + step)}>}", true},
	{"body-reads-scope", "mk := {|d| <{|i| yield i if i < 10; recur(i + d)}>}", false},
	{"kw-default-expression-threaded", "mk := {|d| <{|i, step: d * 1| yield i if i < 10; recur(i + step, step: step)}>}", true},
	{"literal-in-chain-block", "mk := {|d| [d]@{|e| <{|i, step: e| yield i if i < 10; recur(i + step)}>}[0]}", true},
}

type facOp struct {
	src            string
	start, d, step int // step > 0: an explicit step: argument
}

var facOps = []facOp{
	{"mk(2).new(0).A", 0, 2, 0}, {"mk(3).new(0).A", 0, 3, 0}, {"[mk(4).new(2).next]", 2, 4, -1}, {"mk(2).new(1, step: 5).A", 1, 2, 5}, {"{|| h := mk(5); h.new(0).A}()", 0, 5, 0}, {"mk(3).new(1).A", 1, 3, 0},
}

func (f fcase) facSrc() string {
	var sb strings.Builder
	sb.WriteString(factories[f.Gen].src + "\n[")
	for i, h := range f.Hist {
		if i > 0 {
			sb.WriteString(", ")
		}
		sb.WriteString("(" + h + ")")
	}
	sb.WriteString("]")
	return sb.String()
}

func (f fcase) facWant() string {
	fac := factories[f.Gen]
	var parts []string
	for _, h := range f.Hist {
		var op facOp
		for _, o := range facOps {
			if o.src == h {
				op = o
			}
		}
		step := op.d
		if op.step > 0 && fac.stepKw && fac.name != "kw-default-from-scope" && fac.name != "literal-in-chain-block" {
			step = op.step // threaded through recur
		}
		var vals []string
		first := true
		for i := op.start; i < 10; {
			vals = append(vals, fmt.Sprint(i))
			if op.step == -1 {
				break
			}
			if first && op.step > 0 && fac.stepKw {
				// the explicit step is used for the first recur; without threading the default comes back afterwards
				i += op.step
			} else {
				i += step
			}
			first = false
		}
		parts = append(parts, "["+strings.Join(vals, ", ")+"]")
	}
	return "[" + strings.Join(parts, ", ") + "]"
}

func judgeFactory(c *core.Ctx, f fcase, o panrun.Obs) {
	c.Validated(1)
	c.Nontrivial(1)
	c.Transition(len(f.Hist))
	if o.Kind == "syntax" {
		c.HarnessError("factory program does not parse: %s: %s", f.facSrc(), o.ErrMsg)
		return
	}
	c.Outcome("factory:" + o.Kind)
	want := f.facWant()
	if o.Kind == "value" && o.Repr == want {
		return
	}
	c.Violation(core.Violation{Key: "literal-evaluated-again/" + factories[f.Gen].name, Case: core.JSON(f), Desc: strings.ReplaceAll(f.facSrc(), "\n", "; "),
		Expected: want, Observed: o.Short(), Repro: "zz := {||\n" + f.facSrc() + "\n}\nzz().p\n"})
}

func runFactory(c *core.Ctx) {
	depth := c.Pick(3, 4)
	tk.Batched(c, 300, "", func(emit func(fcase)) {
		for gi := range factories {
			var rec func(h []string)
			rec = func(h []string) {
				if len(h) > 0 {
					emit(fcase{Mode: "factory", Gen: gi, Hist: append([]string{}, h...)})
				}
				if len(h) == depth {
					return
				}
				for _, o := range facOps {
					rec(append(h, o.src))
				}
			}
			rec(nil)
		}
	}, func(f fcase) string { return f.facSrc() }, func(f fcase, o panrun.Obs) { judgeFactory(c, f, o) })
}

// ---------------------------------------------------------------- the body of a chain steps another iterator

// a visits 0..A-1, b yields 10..10+B-1. A chain over a whose body calls b.next visits every value of a; when b is
// exhausted first the StopIterErr of the body comes out of the chain (the chain does not end quietly), and a is
// not advanced in either case.
func (f fcase) crossSrc() string {
	var a, b, form int
	fmt.Sscanf(f.Hist[0], "%d %d %d", &a, &b, &form)
	chain := []string{"a@{|x| [x, b.next]}", "a@^g", "a=@{|x| [x, b.next]}", "a$([]){|acc, x| acc + [[x, b.next]]}", "a&@{|x| [x, b.next]}"}[form]
	return fmt.Sprintf("gen := <{|i, n| yield i if i < n; recur(i + 1, n)}>\na := gen.new(0, %d)\nb := gen.new(10, %d)\ng := {|x| [x, b.next]}\nr := nil.try.{|u| %s}.A\n[r, a.A, b.A]", a, 10+b, chain)
}

func (f fcase) crossWant() string {
	var a, b, form int
	fmt.Sscanf(f.Hist[0], "%d %d %d", &a, &b, &form)
	seq := func(from, to int) string {
		var p []string
		for i := from; i < to; i++ {
			p = append(p, fmt.Sprint(i))
		}
		return "[" + strings.Join(p, ", ") + "]"
	}
	if b < a {
		return "[[nil, [StopIterErr: iter stopped]], " + seq(0, a) + ", []]"
	}
	var pairs []string
	for i := 0; i < a; i++ {
		pairs = append(pairs, fmt.Sprintf("[%d, %d]", i, 10+i))
	}
	return "[[[" + strings.Join(pairs, ", ") + "], nil], " + seq(0, a) + ", " + seq(10+a, 10+b) + "]"
}

func judgeCross(c *core.Ctx, f fcase, o panrun.Obs) {
	c.Validated(1)
	c.Nontrivial(1)
	if o.Kind == "syntax" {
		c.HarnessError("cross program does not parse: %s: %s", f.crossSrc(), o.ErrMsg)
		return
	}
	c.Outcome("cross:" + o.Kind)
	want := f.crossWant()
	if o.Kind == "value" && o.Repr == want {
		return
	}
	c.Violation(core.Violation{Key: "chain-body-steps-another-iterator", Case: core.JSON(f), Desc: strings.ReplaceAll(f.crossSrc(), "\n", "; "), Expected: want, Observed: o.Short(), Repro: "zz := {||\n" + f.crossSrc() + "\n}\nzz().p\n"})
}

// an iterator whose body raises something other than StopIterErr at its third step: every way of consuming it raises that error
func runNextRaises(c *core.Ctx) {
	forms := []string{"a@{|x| x}", "a@^g", "a=@{|x| x}", "a$(0){|s, x| s + x}", "a$(0)^h", "a.A", "a$(0)+", "a@S", "a~@{|x| nil}", "[a.next, a.next, a.next]"}
	tk.Batched(c, 20, "", func(emit func(fcase)) {
		for i := range forms {
			emit(fcase{Mode: "nextraises", Gen: i})
		}
	}, func(f fcase) string {
		return "a := <{|i| yield 12 / (2 - i) if i < 5; recur(i + 1)}>.new(0)\ng := {|x| x}\nh := {|s, x| s + x}\nnil.try.{|u| " + forms[f.Gen] + "}.A"
	}, func(f fcase, o panrun.Obs) {
		c.Validated(1)
		c.Nontrivial(1)
		c.Outcome("nextraises:" + o.Kind)
		want := "[nil, [ZeroDivisionErr: cannot be divided by 0]]"
		if o.Kind == "value" && o.Repr == want {
			return
		}
		c.Violation(core.Violation{Key: "error-of-next-lost-by-consumer", Case: core.JSON(f), Desc: forms[f.Gen] + " over an iterator whose third step divides by zero", Expected: want, Observed: o.Short()})
	})
}

func runCross(c *core.Ctx) {
	tk.Batched(c, 100, "", func(emit func(fcase)) {
		for a := 0; a <= 4; a++ {
			for b := 0; b <= 5; b++ {
				for form := 0; form < 5; form++ {
					emit(fcase{Mode: "cross", Hist: []string{fmt.Sprintf("%d %d %d", a, b, form)}})
				}
			}
		}
	}, func(f fcase) string { return f.crossSrc() }, func(f fcase, o panrun.Obs) { judgeCross(c, f, o) })
}

func runFresh(c *core.Ctx) {
	depth := c.Pick(3, 4)
	tk.Batched(c, 300, "", func(emit func(fcase)) {
		for gi := range freshGens {
			var rec func(h []string)
			rec = func(h []string) {
				emit(fcase{Mode: "fresh", Gen: gi, Hist: append([]string{}, h...)})
				if len(h) == depth {
					return
				}
				for _, o := range freshOps {
					rec(append(h, o))
				}
			}
			rec(nil)
		}
	}, func(f fcase) string { return f.src() }, func(f fcase, o panrun.Obs) { judgeFresh(c, f, o) })
}

// The arguments given by `new` / `recur` are the arguments the body is evaluated with - exactly those, whatever their
// number and type (a single array for an iterator of several parameters stays one argument, missing ones are nil).
func runArgs(c *core.Ctx) {
	type ac struct{ src, want string }
	var cases []ac
	gens := []struct{ params, yield string }{{"v, n", "[v, n]"}, {"v", "[v]"}, {"v, n, m", "[v, n, m]"}, {"v, k: 9", "[v, k]"}}
	args := []struct{ a, bound2, bound1, bound3, boundK string }{
		{"[1, 2]", "[[1, 2], nil]", "[[1, 2]]", "[[1, 2], nil, nil]", "[[1, 2], 9]"},
		{"[1, 2], 3", "[[1, 2], 3]", "[[1, 2]]", "[[1, 2], 3, nil]", "[[1, 2], 9]"},
		{"[[7, 8]]", "[[[7, 8]], nil]", "[[[7, 8]]]", "[[[7, 8]], nil, nil]", "[[[7, 8]], 9]"},
		{"[]", "[[], nil]", "[[]]", "[[], nil, nil]", "[[], 9]"},
		{"5", "[5, nil]", "[5]", "[5, nil, nil]", "[5, 9]"},
		{"{a: 1}", "[{\"a\": 1}, nil]", "[{\"a\": 1}]", "[{\"a\": 1}, nil, nil]", "[{\"a\": 1}, 9]"},
		{"*[1, 2]", "[1, 2]", "[1]", "[1, 2, nil]", "[1, 9]"},
	}
	for gi, g := range gens {
		for _, a := range args {
			want := []string{a.bound2, a.bound1, a.bound3, a.boundK}[gi]
			lit := "<{|" + g.params + "| yield " + g.yield + "}>"
			cases = append(cases, ac{lit + ".new(" + a.a + ").next", want})
			cases = append(cases, ac{"it := " + lit + ".new(" + a.a + ")\n[it.next, it.next]", "[" + want + ", " + want + "]"})
			cases = append(cases, ac{"g := " + lit + "\ng.new(0).new(" + a.a + ").next", want})
			// the same arguments given by recur: the first step yields the start arguments, the second what recur gave
			rl := "<{|" + g.params + "| yield " + g.yield + "; recur(" + a.a + ")}>"
			cases = append(cases, ac{"it := " + rl + ".new(0)\nit.next\nit.next", want})
			cases = append(cases, ac{"it := " + rl + ".new(0)\nit.next\n[it.next, it.next]", "[" + want + ", " + want + "]"})
		}
	}
	tk.Batched(c, 100, "", func(emit func(int)) {
		for i := range cases {
			emit(i)
		}
	}, func(i int) string { return cases[i].src }, func(i int, o panrun.Obs) {
		c.Validated(1)
		c.Nontrivial(1)
		c.Outcome("args:" + o.Kind)
		if o.Kind == "syntax" {
			c.HarnessError("argument program does not parse: %s: %s", cases[i].src, o.ErrMsg)
			return
		}
		if o.Kind == "value" && o.Repr == cases[i].want {
			return
		}
		c.Violation(core.Violation{Key: "arguments-of-new-or-recur-not-bound-as-given", Case: core.JSON(fcase{Mode: "args", Gen: i}), Desc: strings.ReplaceAll(cases[i].src, "\n", "; "), Expected: cases[i].want, Observed: o.Short(), Repro: "(" + strings.ReplaceAll(cases[i].src, "\n", "; ") + ").p\n"})
	})
}

func run(c *core.Ctx) {
	runArgs(c)
	runFresh(c)
	runFactory(c)
	runCross(c)
	runNextRaises(c)
	depth := c.Pick(5, 6)
	c.Note("depth_after_first_new", depth)
	states := map[string]bool{}
	n := 0
	total := tk.Batched(c, 600, "", func(emit func(tcase)) { gen(c.Thorough(), depth, states, emit) }, func(t tcase) string {
		src, _, _ := t.build()
		return src
	}, func(t tcase, o panrun.Obs) {
		n++
		if n%4000 == 1 {
			src, want, _ := t.build()
			c.Sample(map[string]string{"shape": shapes[t.Shape].Name, "program": src, "model_expects": want})
		}
		judge(c, t, o)
	})
	c.Note("paths_total", total)
	if c.Shard == 0 {
		c.State(len(states))
	}
}

func replay(c *core.Ctx, raw json.RawMessage) {
	var f fcase
	if json.Unmarshal(raw, &f) == nil && f.Mode == "args" {
		runArgs(c)
		return
	}
	if json.Unmarshal(raw, &f) == nil && f.Mode == "cross" {
		obs := c.R().Thunks("", []string{f.crossSrc()}, "")
		c.Eval(1)
		judgeCross(c, f, obs[0])
		return
	}
	if json.Unmarshal(raw, &f) == nil && f.Mode == "factory" {
		obs := c.R().Thunks("", []string{f.facSrc()}, "")
		c.Eval(1)
		judgeFactory(c, f, obs[0])
		return
	}
	if json.Unmarshal(raw, &f) == nil && f.Mode == "fresh" {
		obs := c.R().Thunks("", []string{f.src()}, "")
		c.Eval(1)
		judgeFresh(c, f, obs[0])
		return
	}
	var t tcase
	if err := json.Unmarshal(raw, &t); err != nil {
		c.HarnessError("bad case: %v", err)
		return
	}
	src, _, ok := t.build()
	if !ok {
		c.HarnessError("malformed path")
		return
	}
	obs := c.R().Thunks("", []string{src}, "")
	c.Eval(1)
	judge(c, t, obs[0])
}
