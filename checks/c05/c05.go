// Package c05: property resolution follows the prototype chain, then _missing, then NoPropErr
// (property C05). Explicit-state exploration of all prototype forests built by bounded sequences of
// object literals, bear and bro; every lookup in every reached state is compared with a forest model.
package c05

import (
	"encoding/json"
	"fmt"
	"sort"
	"strings"

	"github.com/Syuparn/pangaea/object"

	"panmc/internal/core"
	"panmc/internal/panrun"
	"panmc/internal/tk"
)

func init() {
	core.Register(&core.Check{
		ID:    "C05",
		Level: "model_checking",
		// generous internal deadline: the run takes 1-2 minutes on an idle machine and several times that next to other jobs
		QuickBudget: 900,
		Rule: "history tree of all sequences of <=2 operations over all 32 property layouts (a,b in {absent,value,function,method}; _missing in {absent,method}) and of <=3 operations over 8 layouts " +
			"(thorough: <=3 over 16 layouts, <=4 over 4) where an operation is `v := {L}`, `v := 1.bear({L})`, `v := \"s\".bear({L})`, `v := [3, 4].bear({L})`, `v := vJ.bear({L})`, `v := vJ.bro({L})`, or takes the own properties of an existing object: `v := vJ.bear(vK)`, `v := vJ.bro(vK)`, `v := Obj.bear(vK)`; in every final state every object is probed with " +
			"(plus two further families: a property shadowing the built-in S with a non-callable _missing, and objects identified only by a private `_id` so that same-layout objects have identical public properties) " +
			"every forest of <=2 (thorough 3) objects is probed a second time after 10 operations per object that only read it (merging literals, ** into calls/maps, digest, chain digest, bear/bro, listing, comparing, printing, patch, del); " +
			"chains of n bears for 20 lengths n up to 200 (a name owned by the far end, the far _missing, proto/ancestors/which/kindOf?); " +
			"o.n, o.n(9), o['n], which for n in {a,b,c}, proto, ancestors, keys, keys(private?), kindOf? against every object; states = forests, transitions = operations; " +
			"non-trivial = forest with inheritance (at least one bear/bro); distinct = distinct operation sequence; round 7: A fourth family gives plain-value properties other kinds of non-callable values (an object descending from a function, an iterator literal), depth 2 (thorough 3).; round 8: Forests may be rooted at nil; for every object the walk passes Obj and ends at BaseObj and kindOf? agrees; one list-chain call with three arguments runs over all objects of each forest.; round 10: one scalar call site (block body / function body) is evaluated for every object of the forest in turn, in both orders.",
		Assumptions: []string{
			"objects are identified by an own `id` (or private `_id`) property; the names a, b, c are not defined on the built-in prototypes",
			"histories are not merged (the whole history tree is explored), so no abstraction of hidden state is assumed",
		},
		Run:    run,
		Replay: replay,
	})
}

type odef struct {
	Op   string `json:"op"` // lit | int | str | bear | bro
	Of   int    `json:"of"` // operand object for bear/bro
	A    byte   `json:"a"`  // '-', 'v', 'f', 'm'
	B    byte   `json:"b"`
	Miss bool   `json:"miss"`
	// second family: a property that shadows a built-in name (Obj#S) and a non-callable _missing
	S       byte `json:"s,omitempty"`        // 0 / '-', 'v', 'm'
	MissVal bool `json:"miss_val,omitempty"` // _missing is a plain value
	// third family: the identifying property is private (`_id`), so objects of the same layout have
	// identical public properties and differ only in a private one
	PID bool `json:"pid,omitempty"`
	// VK: what a 'v' (plain value) property holds: 0 an int, 1 an object that descends from a function
	// (not callable: `x(1)` raises TypeErr), 2 an iterator literal - both
	// non-callable, so they are returned as they are and arguments are ignored
	VK int `json:"vk,omitempty"`
	// bearof / broof / rootof: the new object takes the own properties of the existing object Src
	// (vOf.bear(vSrc), vOf.bro(vSrc), Obj.bear(vSrc)) instead of a literal
	Src int `json:"src,omitempty"`
}

// def returns the object whose literal defines k's own properties (k itself unless k was made from an existing object).
func (t tcase) def(k int) int {
	for k >= 0 {
		switch t.Objs[k].Op {
		case "bearof", "broof", "rootof":
			k = t.Objs[k].Src
		default:
			return k
		}
	}
	return k
}

// own returns the layout of k's own properties.
func (t tcase) own(k int) odef { return t.Objs[t.def(k)] }

func (o odef) idn() string {
	if o.PID {
		return "_id"
	}
	return "id"
}

func (t tcase) idn() string { return t.Objs[0].idn() }

type tcase struct {
	Objs []odef `json:"objs"`
	// Noise: after the forest is built every object is read by operations that build other values from it
	// (merging literals, ** into calls and maps, digest, bear, listing, comparing, printing); lookups must be unaffected
	Noise bool `json:"noise,omitempty"`
}

func (t tcase) noise() string {
	if !t.Noise {
		return ""
	}
	var sb strings.Builder
	sb.WriteString("kfn := {|| \\_}\n")
	for k := range t.Objs {
		v := fmt.Sprintf("v%d", k)
		for _, e := range []string{
			"{**" + v + ", **{a: 777, b: 777, c: 777, S: 777, zz: 1}}",
			"{**" + v + ", **" + v + ", **{c: 778}}",
			"%{**" + v + ", **%{'c: 779}}",
			"kfn(**" + v + ", **{c: 780, a: 780})",
			v + ".digest([['c, 781], ['a, 781]])",
			"[['q, 1]]@(" + v + "){|x| x}",
			v + ".bear({c: 782}).bro({a: 782})",
			"[" + v + ".keys, " + v + ".values, " + v + ".items, " + v + ".A, " + v + " == " + v + ", " + v + ".S, " + v + ".repr]",
			v + ".patch(c: 783, a: 783)",
			v + ".del('a)",
		} {
			sb.WriteString("nil.try.{|u| " + e + "}\n")
		}
	}
	return sb.String()
}

// parent returns the model parent: >=0 user object, -1 Obj, -2 the int 1, -3 the str "s".
func (t tcase) parent(k int) int {
	o := t.Objs[k]
	switch o.Op {
	case "lit":
		return -1
	case "int":
		return -2
	case "str":
		return -3
	case "arr":
		return -4
	case "nil":
		return -5
	case "bear":
		return o.Of
	case "bro", "broof":
		return t.parent(o.Of)
	case "bearof":
		return o.Of
	case "rootof":
		return -1
	}
	return -1
}

func (t tcase) chain(k int) []int {
	var c []int
	for k >= 0 {
		c = append(c, k)
		k = t.parent(k)
	}
	return c
}

func (t tcase) root(k int) int {
	p := k
	for p >= 0 {
		p = t.parent(p)
	}
	return p
}

func (o odef) kind(n string) byte {
	switch n {
	case "a":
		return o.A
	case "b":
		return o.B
	case "S":
		if o.S != 0 {
			return o.S
		}
	}
	return '-'
}

func layoutSrc(k int, o odef) string {
	id := o.idn()
	parts := []string{fmt.Sprintf("%s: %d", id, k)}
	for _, n := range []string{"a", "b", "S"} {
		switch o.kind(n) {
		case 'v':
			parts = append(parts, fmt.Sprintf("%s: %s", n, o.valSrc(k, n)))
		case 'f':
			parts = append(parts, fmt.Sprintf(`%s: {|s, y| ["f%s", %d, s['%s], y]}`, n, n, k, id))
		case 'm':
			parts = append(parts, fmt.Sprintf(`%s: m{|y| ["m%s", %d, self['%s], y]}`, n, n, k, id))
		}
	}
	if o.Miss {
		parts = append(parts, fmt.Sprintf(`_missing: m{|n, y| ["miss", %d, self['%s], n, y]}`, k, id))
	}
	if o.MissVal {
		parts = append(parts, fmt.Sprintf(`_missing: %d`, 9000+k))
	}
	return "{" + strings.Join(parts, ", ") + "}"
}

func (o odef) valSrc(k int, n string) string {
	switch o.VK {
	case 1:
		return fmt.Sprintf(`{|x, y| ["called", x, y]}.bear({tag: %d})`, val(k, n))
	case 2:
		return fmt.Sprintf("<{|x| yield %d}>", val(k, n))
	}
	return fmt.Sprint(val(k, n))
}

func (o odef) valRepr(k int, n string) string {
	switch o.VK {
	case 1:
		return fmt.Sprintf(`{"tag": %d}`, val(k, n))
	case 2:
		return fmt.Sprintf("<{|x| yield %d}>", val(k, n))
	}
	return fmt.Sprint(val(k, n))
}

func val(k int, n string) int {
	switch n {
	case "a":
		return 100*k + 1
	case "S":
		return 100*k + 3
	}
	return 100*k + 2
}

func (t tcase) defs() string {
	var sb strings.Builder
	for k, o := range t.Objs {
		l := layoutSrc(k, o)
		switch o.Op {
		case "lit":
			fmt.Fprintf(&sb, "v%d := %s\n", k, l)
		case "int":
			fmt.Fprintf(&sb, "v%d := 1.bear(%s)\n", k, l)
		case "str":
			fmt.Fprintf(&sb, "v%d := \"s\".bear(%s)\n", k, l)
		case "arr":
			fmt.Fprintf(&sb, "v%d := [3, 4].bear(%s)\n", k, l)
		case "nil":
			fmt.Fprintf(&sb, "v%d := nil.bear(%s)\n", k, l)
		case "bear":
			fmt.Fprintf(&sb, "v%d := v%d.bear(%s)\n", k, o.Of, l)
		case "bro":
			fmt.Fprintf(&sb, "v%d := v%d.bro(%s)\n", k, o.Of, l)
		case "bearof":
			fmt.Fprintf(&sb, "v%d := v%d.bear(v%d)\n", k, o.Of, o.Src)
		case "broof":
			fmt.Fprintf(&sb, "v%d := v%d.bro(v%d)\n", k, o.Of, o.Src)
		case "rootof":
			fmt.Fprintf(&sb, "v%d := Obj.bear(v%d)\n", k, o.Src)
		}
	}
	return sb.String() + t.noise()
}

type probe struct {
	src    string
	want   string // expected Inspect; for raising probes: "E:" + kind + ": " + msg
	what   string // classification
	raises bool
}

func (t tcase) probes() []probe {
	var ps []probe
	n := len(t.Objs)
	// the same property called on all objects of the forest by one list chain with three arguments (one argument
	// array serves every element: a lookup that falls back to _missing must not disturb the next element's call)
	lcRecv, lcWant := map[string][]string{}, map[string][]string{}
	// ... and by ONE scalar call site (the body of a block / of a function) that is evaluated for every object of the
	// forest in turn, in both orders: what the site found for one receiver says nothing about the next
	siteRecv, siteWant := map[string][]string{}, map[string][]string{}
	for k := 0; k < n; k++ {
		ch := t.chain(k)
		names := []string{"a", "b", "c"}
		if t.family2() {
			names = []string{"a", "S", "c"}
		}
		for _, name := range names {
			owner := -1
			for _, c := range ch {
				if t.own(c).kind(name) != '-' {
					owner = c
					break
				}
			}
			mowner := -1
			mIsVal := false
			for _, c := range ch {
				if t.own(c).Miss || t.own(c).MissVal {
					mowner = c
					mIsVal = t.own(c).MissVal
					break
				}
			}
			if name == "S" && owner < 0 {
				// not shadowed: the built-in Obj#S is found before any _missing; only its owner is probed
				ps = append(ps, probe{src: fmt.Sprintf("v%d.which('S) == Obj", k), want: "true", what: "which-builtin"})
				continue
			}
			v := fmt.Sprintf("v%d", k)
			call := func(y string) probe {
				src := v + "." + name
				if y != "nil" {
					src += "(" + y + ")"
				}
				switch {
				case owner >= 0 && t.own(owner).kind(name) == 'v':
					return probe{src: src, want: t.own(owner).valRepr(t.def(owner), name), what: "call/value-property"}
				case owner >= 0:
					tag := string(t.own(owner).kind(name)) + name
					return probe{src: src, want: fmt.Sprintf(`["%s", %d, %d, %s]`, tag, t.def(owner), t.def(k), y), what: "call/callable-property"}
				case mowner >= 0 && mIsVal:
					return probe{src: src, want: fmt.Sprint(9000 + t.def(mowner)), what: "call/_missing-non-callable"}
				case mowner >= 0:
					return probe{src: src, want: fmt.Sprintf(`["miss", %d, %d, "%s", %s]`, t.def(mowner), t.def(k), name, y), what: "call/_missing"}
				}
				return probe{src: src, want: "E:NoPropErr: property `" + name + "` is not defined.", what: "call/no-prop", raises: true}
			}
			ps = append(ps, call("nil"), call("9"))
			if p9 := call("9"); name != "S" {
				siteRecv[name] = append(siteRecv[name], v)
				if p9.raises {
					siteWant[name] = append(siteWant[name], "[nil, ["+strings.TrimPrefix(p9.want, "E:")+"]]")
				} else {
					siteWant[name] = append(siteWant[name], "["+p9.want+", nil]")
				}
			}
			if p9 := call("9"); !p9.raises && name != "S" {
				lcRecv[name] = append(lcRecv[name], v)
				lcWant[name] = append(lcWant[name], p9.want)
			}
			// indexing by symbol and which agree with the same walk
			switch {
			case owner >= 0 && t.own(owner).kind(name) == 'v':
				ps = append(ps, probe{src: v + "['" + name + "]", want: t.own(owner).valRepr(t.def(owner), name), what: "index"})
			case owner >= 0:
				tag := string(t.own(owner).kind(name)) + name
				ps = append(ps, probe{src: v + "['" + name + "](" + v + ", 9)", want: fmt.Sprintf(`["%s", %d, %d, 9]`, tag, t.def(owner), t.def(k)), what: "index"})
			default:
				ps = append(ps, probe{src: v + "['" + name + "]", want: "nil", what: "index"})
			}
			if owner >= 0 {
				ps = append(ps, probe{src: v + ".which('" + name + ")['" + t.idn() + "]", want: fmt.Sprint(t.def(owner)), what: "which"})
			} else {
				ps = append(ps, probe{src: v + ".which('" + name + ")", want: "nil", what: "which"})
			}
		}
		v := fmt.Sprintf("v%d", k)
		// proto
		switch p := t.parent(k); {
		case p >= 0:
			ps = append(ps, probe{src: fmt.Sprintf("%s.proto['%s]", v, t.idn()), want: fmt.Sprint(t.def(p)), what: "proto"})
		case p == -1:
			ps = append(ps, probe{src: v + ".proto == Obj", want: "true", what: "proto"})
		case p == -2:
			ps = append(ps, probe{src: v + ".proto == 1", want: "true", what: "proto"})
		case p == -4:
			ps = append(ps, probe{src: v + ".proto == [3, 4]", want: "true", what: "proto"})
		case p == -3:
			ps = append(ps, probe{src: v + `.proto == "s"`, want: "true", what: "proto"})
		case p == -5:
			ps = append(ps, probe{src: v + ".proto == nil", want: "true", what: "proto"})
		}
		// ancestors (user objects only: built-in prototypes have no id and are dropped by the list chain)
		ids := []string{}
		for _, c := range ch[1:] {
			ids = append(ids, fmt.Sprint(t.def(c)))
		}
		ps = append(ps, probe{src: v + ".ancestors@{|x| x['" + t.idn() + "]}", want: "[" + strings.Join(ids, ", ") + "]", what: "ancestors"})
		last := "BaseObj"
		ps = append(ps, probe{src: v + ".ancestors[-1] == " + last, want: "true", what: "ancestors-end"})
		// whatever the root is, the walk passes Obj and ends at BaseObj, and kindOf? agrees
		ps = append(ps, probe{src: "[" + v + ".ancestors[-2] == Obj, " + v + ".kindOf?(Obj), " + v + ".kindOf?(BaseObj)]", want: "[true, true, true]", what: "ancestors-builtin-part"})
		// keys
		pub := []string{`"id"`}
		if t.own(k).PID {
			pub = nil
		}
		if t.own(k).A != '-' {
			pub = append(pub, `"a"`)
		}
		if t.own(k).B != '-' {
			pub = append(pub, `"b"`)
		}
		if t.own(k).S != 0 && t.own(k).S != '-' {
			pub = append(pub, `"S"`)
		}
		sort.Strings(pub)
		ps = append(ps, probe{src: v + ".keys", want: "[" + strings.Join(pub, ", ") + "]", what: "keys"})
		all := append([]string{}, pub...)
		if t.own(k).PID {
			all = append(all, `"_id"`)
		}
		if t.own(k).Miss || t.own(k).MissVal {
			all = append(all, `"_missing"`)
		}
		ps = append(ps, probe{src: v + ".keys(private?: true)", want: "[" + strings.Join(all, ", ") + "]", what: "keys-private"})
		// kindOf?
		for j := 0; j < n; j++ {
			if t.root(j) != -1 {
				// don't-care: kindOf? compares with ==, and == on children of a str/int value looks only at the
				// wrapped value (not reflexive for str children, true for any two children of 1): objects made by
				// applying bear to a non-object value are outside C18's domain
				continue
			}
			// j itself on the chain, or a chain member made from the own properties of j (== compares own
			// properties, so such an object equals j); the latter is a don't-care for members rooted in a str/int value
			in, dontCare := false, false
			for _, c := range ch {
				switch {
				case c == j:
					in = true
				case t.def(c) == t.def(j) && t.root(c) == -1:
					in = true
				case t.def(c) == t.def(j):
					dontCare = true
				}
			}
			if !in && dontCare {
				continue
			}
			ps = append(ps, probe{src: fmt.Sprintf("%s.kindOf?(v%d)", v, j), want: fmt.Sprint(in), what: "kindOf"})
		}
		rootName := map[int]string{-1: "Obj", -2: "Int", -3: "Str", -4: "Arr"}[t.root(k)]
		ps = append(ps, probe{src: v + ".kindOf?(" + rootName + ")", want: "true", what: "kindOf-builtin"})
		ps = append(ps, probe{src: v + ".kindOf?(BaseObj)", want: "true", what: "kindOf-builtin"})
	}
	// the root prototype lists its own names like any object, and objects made from evaluated text (evalEnv) have
	// public and private names like objects written as literals
	if n == 1 {
		// a _missing that itself asks the receiver for another absent name (answered by the same _missing): every absent
		// name goes to the first _missing found, also while that _missing is running
		ps = append(ps, probe{src: "{|hm| {|hk| [hm.foo, hk.bar, hk.own, [hm, hk]@baz, hm.foo, hm.unknown(7)]}(hm.bear({own: 1}))}({_missing: m{|name, a| return \"u:\" + a.S if name == 'unknown; .unknown(name)}})",
			want: `["u:foo", "u:bar", 1, ["u:baz", "u:baz"], "u:foo", "u:7"]`, what: "_missing-asks-for-another-absent-name"})
		ps = append(ps, probe{src: "[Obj.keys.has?(\"bro\"), v0.which('bro) == Obj, v0.which('bro).keys.has?(\"bro\"), Obj.keys.has?(\"bear\")]", want: "[true, true, true, false]", what: "keys-of-root-prototypes"})
		ps = append(ps, probe{src: "\"ea := 1; _ep := 2; eb := 3\".evalEnv.{|ee| [ee.keys, ee.keys(private?: true), ee.values, ee.bear({z: 9}).ea, ee.bear({z: 9}).keys, ee.which('ea) == ee]}", want: `[["ea", "eb"], ["ea", "eb", "_ep"], [1, 3], 1, ["z"], true]`, what: "object-from-evaluated-text"})
	}
	for _, name := range []string{"a", "b", "c"} {
		if len(siteRecv[name]) >= 2 {
			rv, wt := siteRecv[name], siteWant[name]
			rrv, rwt := make([]string, len(rv)), make([]string, len(wt))
			for i := range rv {
				rrv[len(rv)-1-i], rwt[len(wt)-1-i] = rv[i], wt[i]
			}
			ps = append(ps, probe{src: "[" + strings.Join(rv, ", ") + "]@{|o| nil.try.{|u| o." + name + "(9)}.A}", want: "[" + strings.Join(wt, ", ") + "]", what: "one-call-site-for-all-objects"})
			ps = append(ps, probe{src: "[" + strings.Join(rrv, ", ") + "]@{|o| nil.try.{|u| o." + name + "(9)}.A}", want: "[" + strings.Join(rwt, ", ") + "]", what: "one-call-site-for-all-objects"})
			var calls []string
			for _, r := range rv {
				calls = append(calls, "nil.try.{|u| look("+r+")}.A")
			}
			ps = append(ps, probe{src: "{|look| [" + strings.Join(calls, ", ") + "]}({|o| o." + name + "(9)})", want: "[" + strings.Join(wt, ", ") + "]", what: "one-call-site-for-all-objects"})
		}
		if len(lcRecv[name]) >= 2 {
			ps = append(ps, probe{src: "[" + strings.Join(lcRecv[name], ", ") + "]@" + name + "(9, 8, 7)", want: "[" + strings.Join(lcWant[name], ", ") + "]", what: "list-chain-call"})
		}
	}
	return ps
}

func (t tcase) family2() bool {
	for _, o := range t.Objs {
		if o.S != 0 || o.MissVal {
			return true
		}
	}
	return false
}

func (t tcase) bodies() (string, []probe, []probe) {
	all := t.probes()
	var safe, raising []probe
	for _, p := range all {
		if p.raises {
			raising = append(raising, p)
		} else {
			safe = append(safe, p)
		}
	}
	srcs := make([]string, len(safe))
	for i, p := range safe {
		srcs[i] = p.src
	}
	return t.defs() + "[" + strings.Join(srcs, ", ") + "]", safe, raising
}

func (t tcase) desc() string { return strings.ReplaceAll(strings.TrimSpace(t.defs()), "\n", "; ") }

func (t tcase) shape() string {
	var s []string
	for _, o := range t.Objs {
		s = append(s, o.Op)
	}
	return strings.Join(s, ">")
}

// ---------------------------------------------------------------- generation

func layouts(set string) []odef {
	var ls []odef
	kinds := []byte{'-', 'v', 'f', 'm'}
	switch set {
	case "full":
		for _, a := range kinds {
			for _, b := range kinds {
				for _, m := range []bool{false, true} {
					ls = append(ls, odef{A: a, B: b, Miss: m})
				}
			}
		}
	case "16":
		for _, a := range kinds {
			for _, b := range []byte{'-', 'v'} {
				for _, m := range []bool{false, true} {
					ls = append(ls, odef{A: a, B: b, Miss: m})
				}
			}
		}
	case "8":
		ls = []odef{{A: '-', B: '-'}, {A: 'v', B: '-'}, {A: 'm', B: '-'}, {A: '-', B: 'f'}, {A: 'v', B: 'm'}, {A: '-', B: '-', Miss: true}, {A: 'f', B: '-', Miss: true}, {A: 'm', B: 'v', Miss: true}}
	case "4":
		ls = []odef{{A: '-', B: '-'}, {A: 'v', B: '-'}, {A: 'm', B: '-', Miss: true}, {A: '-', B: 'f'}}
	case "family2":
		for _, a := range []byte{'-', 'v', 'm'} {
			for _, sk := range []byte{'-', 'v', 'm'} {
				for mk := 0; mk < 3; mk++ {
					ls = append(ls, odef{A: a, B: '-', S: sk, Miss: mk == 1, MissVal: mk == 2})
				}
			}
		}
	case "family3":
		for _, a := range []byte{'-', 'v', 'm'} {
			for _, b := range []byte{'-', 'f'} {
				for _, m := range []bool{false, true} {
					ls = append(ls, odef{A: a, B: b, Miss: m, PID: true})
				}
			}
		}
	case "valkinds":
		for vk := 1; vk <= 2; vk++ {
			ls = append(ls, odef{A: 'v', B: '-', VK: vk}, odef{A: '-', B: 'v', Miss: true, VK: vk}, odef{A: 'v', B: 'm', VK: vk})
		}
		ls = append(ls, odef{A: '-', B: '-'}, odef{A: 'm', B: '-', Miss: true})
	case "family3-small":
		ls = []odef{{A: '-', B: '-', PID: true}, {A: 'v', B: '-', PID: true}, {A: '-', B: '-', Miss: true, PID: true}, {A: 'm', B: 'f', PID: true}}
	case "family2-small":
		ls = []odef{{A: '-', B: '-', S: '-'}, {A: 'v', B: '-', S: 'm'}, {A: '-', B: '-', S: 'v', MissVal: true}, {A: 'm', B: '-', S: '-', Miss: true}, {A: '-', B: '-', S: '-', MissVal: true}}
	}
	return ls
}

// fromExisting: also generate bear/bro whose source is an existing object (families 1 and 3)
var fromExisting = true

// noiseDepth: forests of up to this many objects are also probed after the noise operations
var noiseDepth = 2

func gen(depth int, ls []odef, emit func(tcase)) {
	var rec func(objs []odef)
	rec = func(objs []odef) {
		if len(objs) == depth {
			emit(tcase{Objs: append([]odef{}, objs...)})
			if depth <= noiseDepth {
				emit(tcase{Objs: append([]odef{}, objs...), Noise: true})
			}
			return
		}
		for li, l := range ls {
			with := func(op string, of int) {
				o := l
				o.Op, o.Of = op, of
				rec(append(objs, o))
			}
			with("lit", 0)
			if len(objs) == 0 && l.S == 0 {
				with("int", 0)
				with("str", 0)
				with("arr", 0)
				with("nil", 0)
			}
			for j := range objs {
				with("bear", j)
				with("bro", j)
			}
			if li == 0 && fromExisting {
				// own properties taken from an existing object-rooted object (layout irrelevant: once per step)
				cur := tcase{Objs: objs}
				for src := range objs {
					if cur.root(src) != -1 {
						continue
					}
					for j := range objs {
						o := odef{Op: "bearof", Of: j, Src: src, PID: l.PID}
						rec(append(objs, o))
						o.Op = "broof"
						rec(append(objs, o))
					}
					rec(append(objs, odef{Op: "rootof", Src: src, PID: l.PID}))
				}
			}
		}
	}
	rec(nil)
}

type unit struct {
	t    tcase
	kind int // 0 = main array thunk, 1.. = raising probe index+1
}

func judgeMain(c *core.Ctx, t tcase, safe []probe, o panrun.Obs) {
	inherit := false
	for _, ob := range t.Objs {
		if ob.Op == "bear" || ob.Op == "bro" {
			inherit = true
		}
	}
	if inherit {
		c.Nontrivial(1)
	}
	c.State(1)
	c.Transition(len(t.Objs))
	if o.Kind == "syntax" {
		c.HarnessError("generated forest does not parse: %s: %s", t.desc(), o.ErrMsg)
		return
	}
	arr, ok := o.Val.(*object.PanArr)
	if o.Kind != "value" || !ok || len(arr.Elems) != len(safe) {
		c.Outcome("main:" + o.Kind)
		c.Violation(core.Violation{Key: "forest/" + t.shape() + "/probe-batch-failed", Case: core.JSON(t), Desc: t.desc(), Expected: "all non-raising probes evaluate", Observed: o.Short(),
			Repro: t.defs()})
		return
	}
	c.Outcome("main:ok")
	for i, p := range safe {
		c.Validated(1)
		got := arr.Elems[i].Inspect()
		if got != p.want {
			c.Violation(core.Violation{Key: p.what + "/" + t.shape(), Case: core.JSON(t), Desc: t.desc() + " :: " + p.src, Expected: p.want, Observed: got,
				Repro: t.defs() + "(" + p.src + ").p\n"})
		}
	}
}

func judgeRaise(c *core.Ctx, t tcase, p probe, o panrun.Obs) {
	c.Validated(1)
	got := o.Short()
	if o.Kind == "error" {
		got = "E:" + o.ErrKind + ": " + o.ErrMsg
	}
	c.Outcome("raise:" + o.Kind)
	if got != p.want {
		c.Violation(core.Violation{Key: p.what + "/" + t.shape(), Case: core.JSON(t), Desc: t.desc() + " :: " + p.src, Expected: p.want, Observed: got, Repro: t.defs() + "(" + p.src + ").p\n"})
	}
}

// ---------------------------------------------------------------- long chains

var deepLens = []int{1, 2, 3, 30, 59, 60, 61, 62, 63, 64, 65, 66, 67, 70, 100, 127, 128, 129, 150, 200}

func deepSrc(n int) string {
	return fmt.Sprintf("root := {id: 0, a: 1, _missing: m{|n| ['miss, n]}}\ndeep := (0:%d)$(root){|acc, i| acc.bear({lvl: i})}\n"+
		"[deep.a, deep.zz, deep['a], deep.which('a)['id], deep.ancestors.len, deep.kindOf?(root), deep.proto['lvl], deep.lvl, deep.keys, deep.bear({}).a, deep.which('keys) == Obj, deep.which('bear) == BaseObj, deep.which('zz)]", n)
}

func deepWant(n int) string {
	pl := fmt.Sprint(n - 2)
	if n == 1 {
		pl = "nil"
	}
	return fmt.Sprintf(`[1, ["miss", "zz"], 1, 0, %d, true, %s, %d, ["lvl"], 1, true, true, nil]`, n+2, pl, n-1)
}

// runDeep: a name owned by the far end of a chain of n bears (n up to 200) is found, missing names reach the far
// _missing, and proto / ancestors / which / kindOf? agree, for every length of a list around powers of two.
func runDeep(c *core.Ctx) {
	tk.Batched(c, 4, "", func(emit func(int)) {
		for _, n := range deepLens {
			emit(n)
		}
	}, deepSrc, func(n int, o panrun.Obs) {
		c.Validated(1)
		c.Nontrivial(1)
		c.State(1)
		c.Transition(n)
		if o.Kind == "syntax" {
			c.HarnessError("deep chain program does not parse: %s", o.ErrMsg)
			return
		}
		c.Outcome("deep:" + o.Kind)
		if o.Kind == "discard" {
			c.Discard(1) // the harness's recursion guard cut the evaluation (the walk is recursive)
			return
		}
		if o.Kind != "value" || o.Repr != deepWant(n) {
			c.Violation(core.Violation{Key: "long-chain/lookup-through-many-prototypes", Case: core.JSON(map[string]int{"deep": n}), Desc: strings.ReplaceAll(deepSrc(n), "\n", "; "), Expected: deepWant(n), Observed: o.Short(),
				Repro: deepSrc(n) + ".p\n"})
		}
	})
}

func run(c *core.Ctx) {
	runDeep(c)
	type plan struct {
		depth int
		set   string
	}
	plans := []plan{{1, "full"}, {2, "full"}, {3, "8"}, {2, "family2"}, {3, "family2-small"}, {2, "family3"}, {3, "family3-small"}, {2, "valkinds"}}
	if c.Thorough() {
		plans = []plan{{1, "full"}, {2, "full"}, {3, "16"}, {4, "4"}, {2, "family2"}, {3, "family2"}, {3, "family3"}, {4, "family3-small"}, {3, "valkinds"}}
	}
	if c.Thorough() {
		noiseDepth = 3
	}
	c.Note("plans(depth,layout-set)", fmt.Sprint(plans))
	c.Note("noise_variants_up_to_depth", noiseDepth)
	n := 0
	var curSafe []probe
	var curRaising []probe
	total := tk.Batched(c, 300, "", func(emit func(unit)) {
		for _, pl := range plans {
			gen(pl.depth, layouts(pl.set), func(t tcase) {
				_, _, raising := t.bodies()
				emit(unit{t, 0})
				for i := range raising {
					emit(unit{t, i + 1})
				}
			})
		}
	}, func(u unit) string {
		body, _, raising := u.t.bodies()
		if u.kind == 0 {
			return body
		}
		return u.t.defs() + raising[u.kind-1].src
	}, func(u unit, o panrun.Obs) {
		if u.kind == 0 {
			_, curSafe, curRaising = u.t.bodies()
			n++
			if n%3000 == 1 {
				c.Sample(map[string]interface{}{"forest": u.t.desc(), "probes": len(curSafe) + len(curRaising), "first_probe": curSafe[0].src + " => " + curSafe[0].want})
			}
			judgeMain(c, u.t, curSafe, o)
			return
		}
		_, _, raising := u.t.bodies()
		judgeRaise(c, u.t, raising[u.kind-1], o)
	})
	c.Note("thunks_total", total)
}

func replay(c *core.Ctx, raw json.RawMessage) {
	var dp struct {
		Deep int `json:"deep"`
	}
	if json.Unmarshal(raw, &dp) == nil && dp.Deep > 0 {
		obs := c.R().Thunks("", []string{deepSrc(dp.Deep)}, "")
		c.Eval(1)
		if obs[0].Kind != "value" || obs[0].Repr != deepWant(dp.Deep) {
			c.Violation(core.Violation{Key: "long-chain/lookup-through-many-prototypes", Case: raw, Desc: deepSrc(dp.Deep), Expected: deepWant(dp.Deep), Observed: obs[0].Short()})
		}
		return
	}
	var t tcase
	if err := json.Unmarshal(raw, &t); err != nil {
		c.HarnessError("bad case: %v", err)
		return
	}
	body, safe, raising := t.bodies()
	bodies := []string{body}
	for _, p := range raising {
		bodies = append(bodies, t.defs()+p.src)
	}
	obs := c.R().Thunks("", bodies, "")
	c.Eval(len(bodies))
	judgeMain(c, t, safe, obs[0])
	for i, p := range raising {
		judgeRaise(c, t, p, obs[i+1])
	}
}
