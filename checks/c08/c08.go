// Package c08: evaluation order is left-to-right and every run is reproducible (property C08).
// (a) a tracer in every evaluation slot of every construct the statement names: the trace must
//
//	respect source order, each slot exactly once;
//
// (b) every map-iteration order at every range-over-map site reached (deviation bound 1/2 from the
//
//	canonical order) - the observation must be identical in all executions.
package c08

import (
	"bytes"
	"crypto/sha1"
	"encoding/hex"
	"encoding/json"
	"fmt"
	"io"
	"os"
	"os/exec"
	"sort"
	"strings"
	"sync"

	"github.com/Syuparn/pangaea/ast"
	"github.com/Syuparn/pangaea/evaluator"
	"github.com/Syuparn/pangaea/object"

	verifrt "github.com/Syuparn/pangaea/verifrt"

	"panmc/internal/core"
	"panmc/internal/explore"
	"panmc/internal/panrun"
	"panmc/internal/tk"
)

func init() {
	core.Register(&core.Check{
		ID:    "C08",
		Level: "model_checking",
		Rule: "(a) for every construct named by the statement (call receiver / chain argument / positional then keyword arguments in all interleavings, array elements incl. unpacking, operands of all 23 infix operators, range bounds, successive object and map pairs, interpolated string parts, callee and trailing function) a tracer is put in every slot (also stdin-reading and iterator-advancing variants): the printed trace must be the source order with each slot once; " +
			"(b) 48 programs reaching the range-over-map sites of the interpreter (keyword arguments, duplicates, defaults, \\_, **obj/**map into literals and calls, object/map ==, printing incl. keys that tie in printed form, evalEnv, JSON.dec, case, patch/del/bear, env copying, parsing) are each evaluated under EVERY map iteration order at every site reached with <=1 (thorough <=2) sites deviating from the canonical order per execution; every execution must give the same (stdout, value, error); " +
			"states = executions explored, transitions = choice points answered; non-trivial = execution with at least one deviation / trace with >=2 slots; distinct = distinct (program, choice vector); round 7: The slot tracers also sit in chains that may skip the call (`nil&.f(..)`, `&@`, `~.`): chain argument and arguments are still evaluated once, in order; equal non-scalar keys across two and three map expansions have expected outputs.; round 8: Slot tracers also sit in continued chains (`recv NEWLINE |=$(arg)prop(args)`, 16 constructs); two JSON programs with several members a stricter decoder could reject are explored under every map order.",
		Assumptions: []string{
			"inside one object/map pair the value is evaluated before the key; the statement orders only successive pairs (don't-care)",
			"maps with more than 4 keys are permuted by a menu of 4 orders (canonical, reversed, rotated, first two swapped) instead of all n!",
			"goroutine timing at start-up is explored by C20's start-up scenario, which asserts schedule-independent final tables",
		},
		Run:            run,
		Replay:         replay,
		ThoroughBudget: 3000,
	})
	core.RegisterCommand("c08boot", bootHelper)
}

const prelude = `t := {|k, v| ("t" + k.S).p; v}
ff := {|a, b, c, k: 0, j: 0, i: 0| [a, b, c, k, j, i]}
oo := {m: m{|a, b, k: 0, j: 0| [a, b, k, j]}}
id := {|x| x}
`

// ---------------------------------------------------------------- (a) order traces

type orderCase struct {
	Name  string   `json:"name"`
	Src   string   `json:"src"`
	Order []string `json:"order"` // expected trace (t<k> lines) in source order
	// Before lists pairs that must be ordered (indices into slots); nil = total order Order
	Partial [][2]int `json:"partial,omitempty"`
	Stdin   string   `json:"stdin,omitempty"`
	WantOut string   `json:"want_out,omitempty"` // for stdin variants: full expected stdout
}

func seq(n int) []string {
	var s []string
	for i := 0; i < n; i++ {
		s = append(s, fmt.Sprintf("t%d", i))
	}
	return s
}

func slots(tmpl string, defaults []string) string {
	s := tmpl
	for i := len(defaults) - 1; i >= 0; i-- {
		s = strings.ReplaceAll(s, fmt.Sprintf("§%d", i), fmt.Sprintf("t(%d, %s)", i, defaults[i]))
	}
	return s
}

func orderCases() []orderCase {
	var cs []orderCase
	add := func(name, tmpl string, defaults ...string) {
		cs = append(cs, orderCase{Name: name, Src: slots(tmpl, defaults), Order: seq(len(defaults))})
	}
	add("arr", "[§0, §1, §2, §3]", "1", "2", "3", "4")
	add("arr-unpack", "[§0, *§1, §2, *§3]", "1", "[2]", "3", "[4]")
	add("call-args", "ff(§0, §1, §2)", "1", "2", "3")
	add("call-kwargs", "ff(§0, k: §1, j: §2, i: §3)", "1", "2", "3", "4")
	add("call-kwargs-4", "ff(k: §0, j: §1, i: §2)", "1", "2", "3")
	add("propcall", "§0.m(§1, §2, k: §3, j: §4)", "oo", "1", "2", "3", "4")
	add("propcall-chainarg", "§0@(§1)at(§2)", "[[1, 2]]", "[]", "[0]")
	add("reduce-chainarg", "§0$(§1)+(§2)", "[1, 2]", "0", "1")
	add("literalcall", "§0.{|x| x}", "1")
	add("callee", "§0(§1, §2)", "ff", "1", "2")
	add("trailing-func", "ff(§0, §1) {|y| y}", "1", "2")
	add("call-unpack", "ff(*§0, **§1)", "[1, 2]", "{k: 3}")
	add("range", "(§0:§1:§2)", "1", "5", "1")
	add("obj-values", "{a: §0, b: §1, c: §2}", "1", "2", "3")
	add("obj-embed", "{a: §0, **§1, **§2}", "1", "{b: 2}", "{c: 3}")
	add("map-values", "%{1: §0, 2: §1, 3: §2}", "1", "2", "3")
	add("map-embed", "%{1: §0, **§1, **§2}", "1", "%{2: 2}", "%{3: 3}")
	// duplicated names/keys: every written value is evaluated once, in order (resolution only picks the kept one)
	add("obj-duplicate-name", "{a: §0, b: §1, a: §2, a: §3}", "1", "2", "3", "4")
	add("obj-duplicate-name-spellings", `{'a: §0, a: §1, "a": §2, a: §3}`, "1", "2", "3", "4")
	add("map-duplicate-key", "%{1: §0, 2: §1, 1: §2, [1]: §3, [1]: §4}", "1", "2", "3", "4", "5")
	add("call-duplicate-kwarg", "ff(1, k: §0, j: §1, k: §2)", "1", "2", "3")
	add("propcall-duplicate-kwarg", "oo.m(1, 2, k: §0, k: §1)", "1", "2")
	add("kwarg-default-duplicate", "{|a, k: §0, k: §1| a}", "1", "2")
	// a function literal used as the callee of a literal call is evaluated where it is written: after the receiver and the chain argument
	add("literalcall-kwarg-default", "§0.{|x, k: §1| x}", "1", "2")
	add("literalcall-chainarg-kwarg-default", "§0@(§1){|x, k: §2| x}", "[1]", "[]", "2")
	// variable calls: receiver, chain argument, then the callee variable is looked up; written arguments are evaluated
	add("varcall-chainarg", "§0@(§1)^id", "[1]", "[]")
	add("varcall-args", "§0.^ff(§1, k: §2)", "1", "2", "3")
	add("trailing-func-kwarg-default", "ff(§0, §1) {|y, k: §2| y}", "1", "2", "3")
	// chains that may skip the call: the receiver decides whether the property is called, never whether the written
	// chain argument and arguments are evaluated
	add("lonely-nil-receiver", "§0&.foo(§1, §2)", "nil", "1", "2")
	add("lonely-nil-receiver-chainarg-kwargs", "§0&.(§1)foo(§2, *§3, k: §4, j: §5)", "nil", "0", "1", "[2]", "3", "4")
	add("lonely-nil-receiver-unpack", "§0&.foo(§1, *§2, **§3)", "nil", "1", "[2]", "{j: 4}")
	add("lonely-receiver", "§0&.at(§1)", "[5]", "[0]")
	add("lonely-list-nil-elements", "§0&@at(§1)", "[nil, [5], nil]", "[0]")
	add("thoughtful-receiver", "§0~.+(§1)", "1", "2")
	add("thoughtful-failing-call", "§0~.at(§1, §2)", "1", "0", "0")
	// chains continued on the next line, every additional context x main chain, with chain argument and argument
	for _, ad := range []string{"", "&", "~", "="} {
		add("multiline-chain-"+ad+"@", "§0\n  |"+ad+"@(§1)at(§2)", "[[1, 2]]", "[]", "[0]")
		add("multiline-chain-"+ad+"$", "§0\n  |"+ad+"$(§1)+(§2)", "[1, 2]", "0", "1")
		add("multiline-chain-"+ad+".", "§0\n  |"+ad+".(§1)at(§2)", "[5]", "0", "[0]")
		add("multiline-literal-chain-"+ad+"@", "§0\n  |"+ad+"@(§1){|x| x}", "[[1, 2]]", "[]")
	}
	add("embedded-str", `"a#{§0}b#{§1}c#{§2}d"`, "1", "2", "3")
	add("embedded-str-2", `"#{§0}#{§1}"`, "1", "2")
	add("index", "§0[§1]", "[1, 2]", "0")
	add("nested-calls", "ff(id(§0), [§1, §2], {a: §3})", "1", "2", "3", "4")
	for _, op := range []string{"+", "-", "*", "/", "//", "%", "**", "==", "!=", "===", "!==", "<", ">", "<=", ">=", "<=>", "<<", ">>", "/&", "/|", "/^"} {
		add("infix"+op, "§0 "+op+" §1", "6", "3")
	}
	add("infix&&", "§0 && §1", "true", "2")
	add("infix||", "§0 || §1", "false", "2")
	add("infix-chain", "§0 + §1 * §2 - §3", "1", "2", "3", "4")
	// keyword arguments written between positionals: positionals in order, then keywords in order
	cs = append(cs, orderCase{Name: "call-kwargs-interleaved", Src: "ff(k: t(0, 1), t(1, 2), j: t(2, 3), t(3, 4))", Order: []string{"t1", "t3", "t0", "t2"}})
	// calls written over several lines (a later line may start in a smaller column)
	cs = append(cs, orderCase{Name: "call-kwargs-multiline-dedent", Src: "ff(1, k: t(0, 1),\n  j: t(1, 2),\ni: t(2, 3))", Order: seq(3)})
	cs = append(cs, orderCase{Name: "call-kwargs-multiline-indent", Src: "ff(1,\n k: t(0, 1),\n    j: t(1, 2),\n        i: t(2, 3))", Order: seq(3)})
	cs = append(cs, orderCase{Name: "call-args-multiline", Src: "ff(t(0, 1),\nt(1, 2),\n        t(2, 3), k: t(3, 4),\nj: t(4, 5))", Order: seq(5)})
	cs = append(cs, orderCase{Name: "kwarg-defaults-multiline-dedent", Src: "{|a, k: t(0, 1),\n  j: t(1, 2),\ni: t(2, 3)| a}", Order: seq(3)})
	cs = append(cs, orderCase{Name: "arr-multiline", Src: "[t(0, 1),\nt(1, 2),\n     t(2, 3)]", Order: seq(3)})
	cs = append(cs, orderCase{Name: "obj-multiline-dedent", Src: "{a: t(0, 1),\n      b: t(1, 2),\nc: t(2, 3)}", Order: seq(3)})
	cs = append(cs, orderCase{Name: "map-multiline-dedent", Src: "%{1: t(0, 1),\n      2: t(1, 2),\n3: t(2, 3)}", Order: seq(3)})
	// pairs with computed keys: successive pairs are ordered, key/value inside a pair are not
	cs = append(cs, orderCase{Name: "obj-key-value-pairs", Src: `{t(0, "a"): t(1, 1), t(2, "b"): t(3, 2), t(4, "c"): t(5, 3)}`, Order: seq(6),
		Partial: [][2]int{{0, 2}, {0, 3}, {1, 2}, {1, 3}, {2, 4}, {2, 5}, {3, 4}, {3, 5}}})
	cs = append(cs, orderCase{Name: "map-key-value-pairs", Src: `%{t(0, "a"): t(1, 1), t(2, [1]): t(3, 2), t(4, 3): t(5, 3)}`, Order: seq(6),
		Partial: [][2]int{{0, 2}, {0, 3}, {1, 2}, {1, 3}, {2, 4}, {2, 5}, {3, 4}, {3, 5}}})
	// duplicate-key resolution across several `**` expansions in one call / literal: first occurrence wins
	cs = append(cs, orderCase{Name: "dup-call-two-unpacks", Src: "ff(1, **{k: 1}, **{k: 2, j: 3}).p", WantOut: "[1, nil, nil, 1, 3, 0]\n"})
	cs = append(cs, orderCase{Name: "dup-call-three-unpacks", Src: "{|k: 0| k}(**{k: 'first}, **{k: 'second}, **{k: 'third}).p", WantOut: "first\n"})
	cs = append(cs, orderCase{Name: "dup-call-explicit-vs-unpack", Src: "ff(1, k: 9, **{k: 1, j: 2}).p", WantOut: "[1, nil, nil, 9, 2, 0]\n"})
	cs = append(cs, orderCase{Name: "dup-propcall-two-unpacks", Src: "oo.m(1, 2, **{k: 1}, **{k: 2, j: 3}).p", WantOut: "[1, 2, 1, 3]\n"})
	cs = append(cs, orderCase{Name: "dup-obj-two-unpacks", Src: "{**{y: 1}, **{y: 2, z: 3}}.p", WantOut: "{\"y\": 1, \"z\": 3}\n"})
	cs = append(cs, orderCase{Name: "dup-map-two-unpacks", Src: "%{**%{1: 1}, **%{1: 2, 2: 3}}.p", WantOut: "%{1: 1, 2: 3}\n"})
	cs = append(cs, orderCase{Name: "dup-map-nonscalar-key-two-unpacks", Src: "%{**%{[1]: \"first\", \"x\": 1}, **%{[1]: \"second\", \"y\": 2}}.p", WantOut: "%{\"x\": 1, \"y\": 2, [1]: \"first\"}\n"})
	cs = append(cs, orderCase{Name: "dup-map-obj-key-three-unpacks", Src: "%{**%{{id: 1}: \"p\"}, **%{\"z\": 0}, **%{{id: 1}: \"q\"}}.p", WantOut: "%{\"z\": 0, {\"id\": 1}: \"p\"}\n"})
	cs = append(cs, orderCase{Name: "dup-map-nonscalar-key-literal-and-unpacks", Src: "%{[1]: \"lit\", **%{[1]: 1}, **%{[1]: 2, [2]: 3}}.p", WantOut: "%{[1]: \"lit\", [2]: 3}\n"})
	cs = append(cs, orderCase{Name: "dup-kwargs-var", Src: "{|| \\_}(**{k: 1}, **{k: 2, j: 3}).p", WantOut: "{\"j\": 3, \"k\": 1}\n"})
	// stdin-consuming and iterator-advancing variants (value shows the order)
	cs = append(cs, orderCase{Name: "stdin-array", Src: "[<>.S, <>.S, <>.S].p", Stdin: "l1\nl2\nl3\n", WantOut: "[\"l1\", \"l2\", \"l3\"]\n"})
	// the parts of an interpolated string are evaluated AND converted one after the other (the conversion of a
	// part is a property call like any other: here it reads a line / prints / advances an iterator)
	cs = append(cs, orderCase{Name: "stdin-embedded-str-implicit-conversion", Src: `"#{<>}|#{<>.uc}|#{<>}".p`, Stdin: "x\ny\nz\n", WantOut: "x|Y|z\n"})
	cs = append(cs, orderCase{Name: "embedded-str-conversion-interleaved", Src: "d := {S: m{\"S\".p; \"d\"}}\n\"#{d}#{t(1, 1)}#{d}#{t(2, 2)}\".p", WantOut: "S\nt1\nS\nt2\nd1d2\n"})
	cs = append(cs, orderCase{Name: "embedded-str-conversion-advances-iterator", Src: "it := <{|n| yield n; recur(n + 1)}>.new(1)\nd := {S: m{it.next.S}}\n\"#{d} #{it.next} #{d}\".p", WantOut: "1 2 3\n"})
	// a literal with keyword defaults is evaluated completely every time it is reached
	cs = append(cs, orderCase{Name: "kwarg-defaults-of-a-literal-evaluated-again", Src: "mk := {|n| {|x, step: t(n, n)| x + step}}\n[mk(1)(10), mk(5)(10), mk(1)(10)].p", WantOut: "t1\nt5\nt1\n[11, 15, 11]\n"})
	cs = append(cs, orderCase{Name: "kwarg-defaults-of-literals-in-a-chain", Src: "[1, 2]@{|n| {|step: t(n, n)| step}}@{|f| f()}.p\n[3, 4]@{|n| <{|i, step: t(n, n)| yield step}>.new(0).next}.p", WantOut: "t1\nt2\n[1, 2]\nt3\nt4\n[3, 4]\n"})
	cs = append(cs, orderCase{Name: "stdin-embedded-str", Src: `"#{<>.S} #{<>.S}".p`, Stdin: "l1\nl2\n", WantOut: "l1 l2\n"})
	cs = append(cs, orderCase{Name: "stdin-kwargs", Src: "ff(<>.S, k: <>.S, j: <>.S).p", Stdin: "l1\nl2\nl3\n", WantOut: "[\"l1\", nil, nil, \"l2\", \"l3\", 0]\n"})
	cs = append(cs, orderCase{Name: "stdin-infix", Src: "(<>.S + <>.S).p", Stdin: "l1\nl2\n", WantOut: "l1l2\n"})
	cs = append(cs, orderCase{Name: "stdin-obj", Src: "{a: <>.S, b: <>.S}.p", Stdin: "l1\nl2\n", WantOut: "{\"a\": \"l1\", \"b\": \"l2\"}\n"})
	cs = append(cs, orderCase{Name: "iter-array", Src: "it := <{|n| yield n; recur(n + 1)}>.new(1)\n[it.next, it.next, it.next].p", WantOut: "[1, 2, 3]\n"})
	cs = append(cs, orderCase{Name: "iter-range", Src: "it := <{|n| yield n; recur(n + 1)}>.new(1)\n(it.next:it.next:it.next).p", WantOut: "(1:2:3)\n"})
	cs = append(cs, orderCase{Name: "iter-embedded-str", Src: "it := <{|n| yield n; recur(n + 1)}>.new(1)\n\"#{it.next}-#{it.next}-#{it.next}\".p", WantOut: "1-2-3\n"})
	// the multi-line cases again with CR and CRLF line breaks (the grammar accepts all three)
	for _, oc := range append([]orderCase{}, cs...) {
		if strings.Contains(oc.Src, "\n") && oc.Stdin == "" {
			for _, nl := range [][2]string{{"CR", "\r"}, {"CRLF", "\r\n"}} {
				v := oc
				v.Name = oc.Name + "/" + nl[0]
				v.Src = strings.ReplaceAll(oc.Src, "\n", nl[1])
				cs = append(cs, v)
			}
		}
	}
	cs = append(cs, orderCase{Name: "iter-kwargs", Src: "it := <{|n| yield n; recur(n + 1)}>.new(1)\nff(it.next, k: it.next, j: it.next, i: it.next).p", WantOut: "[1, nil, nil, 2, 3, 4]\n"})
	return cs
}

func judgeOrder(c *core.Ctx, oc orderCase, o panrun.Obs) {
	c.Validated(1)
	if len(oc.Order) >= 2 || oc.WantOut != "" {
		c.Nontrivial(1)
	}
	viol := func(class, exp string) {
		c.Violation(core.Violation{Key: "order/" + oc.Name + "/" + class, Case: core.JSON(oc), Desc: oc.Src, Expected: exp, Observed: fmt.Sprintf("out=%q %s", o.Out, o.Short()),
			Repro: prelude + oc.Src + "\n", Stdin: oc.Stdin})
	}
	if o.Kind == "syntax" {
		c.HarnessError("order case does not parse: %s: %s", oc.Src, o.ErrMsg)
		return
	}
	c.Outcome("order:" + o.Kind)
	if o.Kind != "value" {
		viol("evaluation-failed", "a value")
		return
	}
	if oc.WantOut != "" {
		if o.Out != oc.WantOut {
			viol("wrong-order", fmt.Sprintf("out=%q", oc.WantOut))
		}
		return
	}
	lines := strings.Split(strings.TrimSuffix(o.Out, "\n"), "\n")
	if o.Out == "" {
		lines = nil
	}
	// each slot exactly once
	count := map[string]int{}
	pos := map[string]int{}
	for i, l := range lines {
		count[l]++
		pos[l] = i
	}
	for _, s := range oc.Order {
		if count[s] != 1 {
			viol("slot-not-evaluated-exactly-once", strings.Join(oc.Order, " ")+" (each once)")
			return
		}
	}
	if len(lines) != len(oc.Order) {
		viol("slot-not-evaluated-exactly-once", strings.Join(oc.Order, " ")+" (each once)")
		return
	}
	if oc.Partial != nil {
		for _, p := range oc.Partial {
			a, b := fmt.Sprintf("t%d", p[0]), fmt.Sprintf("t%d", p[1])
			if pos[a] > pos[b] {
				viol("wrong-order", fmt.Sprintf("%s before %s (successive pairs in source order)", a, b))
				return
			}
		}
		return
	}
	if strings.Join(lines, " ") != strings.Join(oc.Order, " ") {
		viol("wrong-order", strings.Join(oc.Order, " "))
	}
}

// ---------------------------------------------------------------- (b) map-order exploration

type prog struct {
	Name  string `json:"name"`
	Src   string `json:"src"`
	Parse bool   `json:"parse,omitempty"` // explore the parse as well
}

var programs = []prog{
	{Name: "kwargs-traced", Src: "ff(1, k: t(1, \"k\"), j: t(2, \"j\"), i: t(3, \"i\"))"},
	{Name: "kwargs-duplicate", Src: "ff(1, k: 1, k: 2, k: 3)"},
	{Name: "kwargs-duplicate-multiline-dedent", Src: "ff(1, k: 1,\n  k: 2,\nk: 3)"},
	{Name: "kwargs-traced-multiline-dedent", Src: "ff(1, k: t(1, \"k\"),\n  j: t(2, \"j\"),\ni: t(3, \"i\"))"},
	{Name: "kwarg-default-duplicate-multiline", Src: "g := {|k: 1,\nk: 2| k}\ng()"},
	{Name: "kwargs-duplicate-traced", Src: "ff(1, k: t(1, 1), k: t(2, 2))"},
	{Name: "kwarg-defaults-traced", Src: "g := {|k: t(1, 1), j: t(2, 2), i: t(3, 3)| [k, j, i]}\ng()"},
	{Name: "kwarg-default-duplicate", Src: "g := {|k: 1, k: 2| k}\ng()"},
	{Name: "kwargs-var", Src: "{|a: 1, b: 2| [\\_, \\a, \\b]}(a: 5, b: 6)"},
	{Name: "kwargs-var-keys", Src: "{|| \\_.keys}(z: 1, y: 2, x: 3)"},
	{Name: "kwargs-to-method", Src: "oo.m(1, 2, j: t(1, 1), k: t(2, 2))"},
	{Name: "kwargs-to-builtin", Src: "\"abc\".p(end: \"!\")\n[1, 2].p(end: \"\")"},
	{Name: "unpack-call", Src: "ff(**{k: 1, j: 2, i: 3})"},
	{Name: "unpack-call-duplicate", Src: "ff(k: 9, **{k: 1, j: 2})"},
	{Name: "unpack-obj", Src: "{**{b: 1, a: 2}, **{c: 3, a: 9}}"},
	{Name: "unpack-obj-items", Src: "{z: 0, **{b: 1, a: 2}}.items"},
	{Name: "unpack-map", Src: "%{**%{3: 1, 1: 2, 2: 3}}.keys"},
	{Name: "unpack-map-obj", Src: "%{**{b: 1, a: 2, c: 3}}.A"},
	{Name: "unpack-map-nonscalar", Src: "%{**%{[2]: 1, [1]: 2, 5: 0}, **%{[1]: 9}}.A"},
	{Name: "obj-eq", Src: "[{a: 1, b: 2, c: 3} == {c: 3, b: 2, a: 1}, {a: 1, b: 2} == {a: 1, b: 3}, {a: 1} == {a: 1, b: 2}]"},
	{Name: "map-eq", Src: "[%{1: 2, 3: 4, 5: 6} == %{5: 6, 3: 4, 1: 2}, %{1: 2, 3: 4} == %{1: 2, 3: 5}, %{[1]: 1, [2]: 2} == %{[2]: 2, [1]: 1}]"},
	// equality of containers whose elements have an own `==` (traced / raising for a non-U operand)
	{Name: "map-eq-traced-elements", Src: "U := {'==: m{|o| (\"eq\" + .id.S).p; .id == o.id}}\n%{'a: U.bear({id: 1}), 'b: U.bear({id: 2}), 'c: U.bear({id: 3})} == %{'a: U.bear({id: 1}), 'b: U.bear({id: 2}), 'c: U.bear({id: 3})}"},
	{Name: "map-eq-unequal-and-raising-element", Src: "U := {'==: m{|o| .id == o.id}}\n(%{'owner: U.bear({id: 7}), 'count: 1} == %{'owner: nil, 'count: 2}).try.A"},
	{Name: "map-eq-two-unequal-traced", Src: "U := {'==: m{|o| (\"eq\" + .id.S).p; .id == o.id}}\n%{'a: U.bear({id: 1}), 'b: U.bear({id: 2})} == %{'a: U.bear({id: 8}), 'b: U.bear({id: 9})}"},
	{Name: "obj-eq-traced-elements", Src: "U := {'==: m{|o| (\"eq\" + .id.S).p; .id == o.id}}\n{a: U.bear({id: 1}), b: U.bear({id: 2}), c: U.bear({id: 3})} == {a: U.bear({id: 1}), b: U.bear({id: 2}), c: U.bear({id: 3})}"},
	{Name: "obj-eq-unequal-and-raising-element", Src: "U := {'==: m{|o| .id == o.id}}\n({owner: U.bear({id: 7}), count: 1} == {owner: nil, count: 2}).try.A"},
	{Name: "map-nonscalar-eq-traced", Src: "U := {'==: m{|o| (\"eq\" + .id.S).p; .id == o.id}}\n%{[1]: U.bear({id: 1}), [2]: U.bear({id: 2})} == %{[2]: U.bear({id: 2}), [1]: U.bear({id: 1})}"},
	// names that are equal ignoring case / that differ only in a suffix: listing and iteration order
	{Name: "obj-keys-case", Src: "o := {q: 1, Q: 2, b: 3, _r: 4, _R: 5}\n[o.keys, o.values, o.items, o.keys(private?: true), o@{|k, v| k}, %{**o}.keys, o == {Q: 2, q: 1, b: 3, _R: 5, _r: 4}]"},
	{Name: "obj-keys-suffix", Src: "o := {ab: 1, ab!: 2, ab?: 3, aB: 4, Ab: 5}\n[o.keys, o.values, o.S, %{**o}.A]"},
	{Name: "print-map", Src: "%{\"b\": 1, \"a\": 2, 3: 4, nil: 5}.p\n%{\"b\": 1, \"a\": 2, 3: 4}.S"},
	{Name: "print-map-tie", Src: "%{1.0000001: 'a, 1.0000002: 'b}.S"},
	{Name: "print-map-tie-3", Src: "%{1.00000011: 1, 1.00000012: 2, 1.00000013: 3}.p"},
	{Name: "print-obj", Src: "{b: 1, a: 2, _c: 3}.p\n{b: 1, a: 2, _c: 3}.S"},
	{Name: "print-nested", Src: "[{b: %{2: 1, 1: 2}, a: {d: 1, c: 2}}].p"},
	{Name: "evalEnv", Src: "\"x := 1; y := 2; z := 3\".evalEnv.p"},
	{Name: "evalEnv-items", Src: "\"x := 1; y := 2; z := 3\".evalEnv.items"},
	{Name: "json-dec", Src: "JSON.dec(`{\"b\": 1, \"a\": [1, {\"d\": 2, \"c\": 3}], \"e\": {\"g\": 1, \"f\": 2}}`).p"},
	// several members that a stricter decoder could reject: whatever is reported must not depend on the order the members are visited in
	{Name: "json-dec-out-of-range-numbers", Src: "nil.try.{|u| JSON.dec(`{\"a\": 1e300, \"b\": 2e300, \"c\": -3e300, \"d\": {\"e\": 4e300, \"f\": 5e300}}`)}.A"},
	{Name: "json-dec-odd-members", Src: "nil.try.{|u| `{\"a\": 9223372036854775808, \"b\": -9223372036854775809, \"c\": 1.5e-400, \"d\": \"\\ud800\"}`.decJSON}.A"},
	{Name: "json-dec-keys", Src: "JSON.dec(`{\"b\": 1, \"a\": 2, \"c\": 3}`).keys"},
	{Name: "obj-iteration", Src: "{b: 1, a: 2, c: 3}@{|k, v| k.p}"},
	{Name: "obj-accessors", Src: "o := {b: 1, a: 2, _p: 3}\n[o.keys, o.values, o.items, o.keys(private?: true), o.A]"},
	{Name: "map-accessors", Src: "m := %{2: 1, 1: 2, [0]: 3}\n[m.keys, m.values, m.items, m.A, m.len]"},
	{Name: "map-iteration", Src: "%{2: 1, 1: 2, 3: 0}@{|k, v| k.p}"},
	{Name: "bear-pairs", Src: "c := {a: 1}.bear({c: 1, b: 2})\n[c.keys, c.items, c]"},
	{Name: "patch-del", Src: "o := {a: 1, b: 2, c: 3}\n[o.patch(b: 3, d: 4), o.del('a), o.patch(z: 0).keys]"},
	{Name: "case-map", Src: "[5.case(%{1: 'a, Int: 'b, Obj: 'c}), \"s\".case(%{Int: 'i, Str: 's, Obj: 'o}), nil.case(%{1: 2})]"},
	// objects and maps with more own properties than any display limit, shown by every conversion
	{Name: "big-obj-shown", Src: "o := {k00: 0, k01: 1, k02: 2, k03: 3, k04: 4, k05: 5, k06: 6, k07: 7, k08: 8, k09: 9, k10: 10, k11: 11, k12: 12, k13: 13, k14: 14, k15: 15, k16: 16, k17: 17, k18: 18, k19: 19}.bear({z: 1, y: 2})\nb := {k00: 0, k01: 1, k02: 2, k03: 3, k04: 4, k05: 5, k06: 6, k07: 7, k08: 8, k09: 9, k10: 10, k11: 11, k12: 12, k13: 13, k14: 14, k15: 15, k16: 16, k17: 17, k18: 18, k19: 19}\n[o.repr, b.repr, b.S, [b].repr, {in: b}.repr, b.bear({}).repr, \"#{b}\"].p\nb.p"},
	{Name: "big-map-shown", Src: "m := %{'m00: 0, 'm01: 1, 'm02: 2, 'm03: 3, 'm04: 4, 'm05: 5, 'm06: 6, 'm07: 7, 'm08: 8, 'm09: 9, 'm10: 10, 'm11: 11, 'm12: 12, 'm13: 13, 'm14: 14, 'm15: 15, 'm16: 16, 'm17: 17, 'm18: 18, 'm19: 19}\n[m.repr, m.S, [m].repr]"},
	// error messages that name things of the scope (a later program must see the same message every run)
	{Name: "error-messages-about-near-names", Src: "total1 := 1\ntotal2 := 2\ntotal3 := 3\ncount := 4\n[nil.try.{|u| total4}.err.msg, nil.try.{|u| totl1}.err.msg, nil.try.{|u| {a1: 1, a2: 2, a3: 3}.a4}.err.msg, nil.try.{|u| coun}.err.S]"},
	{Name: "digest", Src: "[[\"b\", 1], [\"a\", 2], [\"b\", 3]]@({}){|x| x}.p\n[[2, 1], [1, 2], [2, 3]]@(%{}){|x| x}.p"},
	{Name: "closures-env-copy", Src: "x := 1\ny := 2\nz := 3\nh := {|a| w := a + x\n{|b| [x, y, z, w, a, b]}}\nh(10)(20)"},
	{Name: "recursion-env-copy", Src: "fact := {|n| return 1 if n < 2\nm := n - 1\nn * fact(m)}\nfact(5)"},
	{Name: "embedded-str-obj", Src: "o := {b: 1, a: 2}\nm := %{2: 1, 1: 2}\n\"#{o} #{m}\""},
	{Name: "obj-in-map-key", Src: "%{{b: 1, a: 2}: 1, {a: 2, b: 1}: 2}.A"},
	{Name: "obj-literal-duplicates", Src: "{a: t(1, 1), b: t(2, 2), a: t(3, 3)}"},
	{Name: "map-literal-duplicates", Src: "%{1: t(1, 1), 2: t(2, 2), 1: t(3, 3)}.A"},
	{Name: "func-inspect", Src: "{|a, k: 1, j: 2, i: 3| a}.S"},
	{Name: "func-inspect-duplicate-kwarg", Src: "{|a, k: 1, k: 2, j: 3, k: 0| a}.S"},
	{Name: "parse-duplicate-kwargs-string", Src: "ff(1, k: 1, k: 2, j: 3, k: 0)", Parse: true},
	{Name: "parse-duplicate-kwarg-defaults-string", Src: "{|k: 2, k: 1| k}", Parse: true},
	{Name: "func-kwargs-prop", Src: "{|a, k: 1, j: 2, i: 3| a}.kwargs"},
	{Name: "method-missing-kwargs", Src: "o := {_missing: m{|name| [name, \\_]}}\no.foo(b: 1, a: 2)"},
	{Name: "either-kwargs", Src: "oo.try.m(1, 2, j: 3, k: 4).val"},
	{Name: "iter-kwargs", Src: "<{|n, step: 1, lim: 5| yield n if n < lim; recur(n + step, step: step, lim: lim)}>.new(0, lim: 4, step: 2).A"},
	{Name: "parse-symbols", Src: "['<=>, '==, '!=, '>=, '<=, '<<, '>>, '/&, '/|, '/^, '/~, '**, '//, '+%, '-%, '+, '-, '*, '/, '%, '!, '<, '>, '===, '!==]", Parse: true},
	{Name: "parse-kwargs-string", Src: "ff(1, k: 1, j: 2, i: 3)", Parse: true},
}

type bcase struct {
	Prog    prog     `json:"prog"`
	Choices []int    `json:"choices,omitempty"`
	Boot    *bootReq `json:"boot,omitempty"`
}

type mapRunner struct {
	c     *core.Ctx
	cache map[string]*ast.Program
}

func (m *mapRunner) body(p prog) func() panrun.Obs {
	r := m.c.R()
	full := prelude + p.Src
	var pre *ast.Program
	if !p.Parse {
		if a, ok := m.cache[full]; ok {
			pre = a
		} else {
			a, o := panrun.Parse(full)
			if o != nil {
				m.c.HarnessError("program %s does not parse: %s", p.Name, o.ErrMsg)
				return nil
			}
			m.cache[full] = a
			pre = a
		}
	}
	return func() panrun.Obs {
		env := object.NewEnclosedEnv(r.Root)
		if p.Parse {
			a, o := panrun.Parse(full)
			if o != nil {
				return *o
			}
			return withRepr(r.Guard(env, "", func() object.PanObject { return evaluator.Eval(a, env) }))
		}
		return withRepr(r.Guard(env, "", func() object.PanObject { return evaluator.Eval(pre, env) }))
	}
}

// withRepr adds the REPL rendering (Repr) to the observation; it runs inside the explored body.
func withRepr(o panrun.Obs) (res panrun.Obs) {
	res = o
	if o.Kind != "value" || o.Val == nil {
		return
	}
	defer func() {
		if p := recover(); p != nil {
			res.Kind, res.Panic = "panic", fmt.Sprintf("Repr: %v", p)
		}
	}()
	res.Repr = o.Repr + " ~ " + o.Val.Repr()
	return
}

// ---------------------------------------------------------------- (c) start-up under other map orders

type bootReq struct {
	Site string `json:"site"`
	Alt  int    `json:"alt"`
}

type bootRes struct {
	Sites  map[string]int `json:"sites"`
	Digest string         `json:"digest"`
	Detail []string       `json:"detail"`
}

var bootPrograms = []string{"[1, 2, 3]@{|i| i * 2}", "{b: 1, a: 2}.items", "%{2: 1, 1: 2}.A", "5.try./(0).err", "\"abc\".uc", "(1:5).A", "Obj.keys.len", "Kernel.keys", "3.prime?", "[3, 1, 2].max",
	"Int.keys", "Arr.keys", "Str.keys", "Map.keys", "Iterable.keys", "Comparable.keys", "Either.keys", "Func.keys", "Range.keys", "Float.keys", "Nil.keys", "BaseObj.keys", "Iter.keys", "Num.keys"}

// bootHelper builds an interpreter in this (new) process with every map at one site iterated in a
// non-canonical order and prints a digest of what start-up produced.
func bootHelper(args []string) int {
	var req bootReq
	b, _ := io.ReadAll(os.Stdin)
	if json.Unmarshal(b, &req) != nil {
		return 2
	}
	var mu sync.Mutex
	sites := map[string]int{}
	verifrt.Chooser = func(site string, n int) int {
		mu.Lock()
		sites[strings.TrimPrefix(site, "map:")]++
		mu.Unlock()
		if strings.TrimPrefix(site, "map:") == req.Site && req.Alt > 0 {
			return req.Alt % n
		}
		return 0
	}
	r := panrun.New()
	verifrt.Chooser = nil
	res := bootRes{Sites: sites}
	h := sha1.New()
	for _, src := range bootPrograms {
		o := r.EvalSrc(src, "")
		line := src + " => " + o.Key()
		res.Detail = append(res.Detail, line)
		h.Write([]byte(line + "\n"))
	}
	res.Digest = hex.EncodeToString(h.Sum(nil))
	out, _ := json.Marshal(res)
	os.Stdout.Write(out)
	return 0
}

func bootRun(c *core.Ctx, req bootReq) (bootRes, bool) {
	self, _ := os.Executable()
	in, _ := json.Marshal(req)
	cmd := exec.Command(self, "c08boot")
	cmd.Stdin = bytes.NewReader(in)
	var so, se bytes.Buffer
	cmd.Stdout, cmd.Stderr = &so, &se
	err := cmd.Run()
	var res bootRes
	if err != nil || json.Unmarshal(so.Bytes(), &res) != nil {
		c.HarnessError("start-up helper failed for %+v: %v %s", req, err, se.String())
		return res, false
	}
	return res, true
}

func exploreBoot(c *core.Ctx) {
	base, ok := bootRun(c, bootReq{})
	if !ok {
		return
	}
	again, ok := bootRun(c, bootReq{})
	if !ok || again.Digest != base.Digest {
		c.HarnessError("start-up is not reproducible under the canonical map order (goroutine timing?)")
		return
	}
	var sites []string
	for s := range base.Sites {
		sites = append(sites, s)
	}
	sort.Strings(sites)
	c.Note("startup_map_sites", sites)
	k := 0
	for _, s := range sites {
		for alt := 1; alt <= 5; alt++ {
			k++
			if !c.Mine(k) {
				continue
			}
			res, ok := bootRun(c, bootReq{Site: s, Alt: alt})
			if !ok {
				continue
			}
			c.Eval(1)
			c.State(1)
			c.Transition(base.Sites[s])
			c.Nontrivial(1)
			c.Validated(1)
			c.Outcome("startup:" + map[bool]string{true: "same", false: "differs"}[res.Digest == base.Digest])
			if res.Digest != base.Digest {
				diff := ""
				for i := range res.Detail {
					if i < len(base.Detail) && res.Detail[i] != base.Detail[i] {
						diff = base.Detail[i] + "   VS   " + res.Detail[i]
						break
					}
				}
				c.Violation(core.Violation{Key: "startup-map-order-dependence/" + s, Case: core.JSON(bcase{Boot: &bootReq{Site: s, Alt: alt}}),
					Desc: fmt.Sprintf("interpreter start-up with every map at %s iterated in order #%d", s, alt), Expected: "same built-in properties and results as under the canonical order", Observed: diff})
			}
		}
	}
}

func siteOf(x *explore.Exec) string {
	var sites []string
	for i, c := range x.Choices {
		if c != 0 {
			sites = append(sites, strings.TrimPrefix(x.Points[i].Site, "map:"))
		}
	}
	sort.Strings(sites)
	return strings.Join(sites, "+")
}

func exploreProg(c *core.Ctx, m *mapRunner, p prog, bound int, sitesSeen map[string]int) {
	run := m.body(p)
	if run == nil {
		return
	}
	var base panrun.Obs
	var cur panrun.Obs
	first := true
	reported := map[string]bool{}
	distinct := map[string]bool{}
	st, div := explore.Explore(bound, map[bool]int{false: 60000, true: 400000}[c.Thorough()], nil, func() { cur = run() }, func(x *explore.Exec) bool {
		c.Eval(1)
		c.State(1)
		c.Transition(len(x.Points))
		c.Validated(1)
		if first {
			first = false
			base = cur
			for _, pt := range x.Points {
				if pt.N >= 2 {
					sitesSeen[strings.TrimPrefix(pt.Site, "map:")]++
				}
			}
			if base.Kind == "panic" || base.Kind == "discard" {
				c.HarnessError("program %s: %s", p.Name, base.Short())
				return false
			}
			distinct[base.Key()] = true
			return true
		}
		c.Nontrivial(1)
		distinct[cur.Key()] = true
		if cur.Key() != base.Key() {
			site := siteOf(x)
			if !reported[site] {
				reported[site] = true
				// the same choice vector twice must reproduce before it is believed
				again, d2 := explore.Run(x.Choices, x.Points, func() { cur = run() })
				_ = again
				if d2 != "" {
					c.HarnessError("program %s: replay of a failing choice vector diverged: %s", p.Name, d2)
					return false
				}
				c.Violation(core.Violation{Key: "map-order-dependence/" + site, Case: core.JSON(bcase{Prog: p, Choices: append([]int{}, x.Choices...)}),
					Desc:     p.Name + ": " + strings.ReplaceAll(p.Src, "\n", "; ") + "  [iteration order changed at " + site + "]",
					Expected: "canonical order: " + base.Key(), Observed: "other order:     " + cur.Key(), Repro: prelude + p.Src + "\n"})
			}
		}
		return true
	})
	if div != "" {
		c.HarnessError("program %s: %s", p.Name, div)
	}
	if st.Capped {
		c.Incomplete(fmt.Sprintf("program %s: execution cap reached at deviation bound %d", p.Name, bound))
	}
	c.Outcome(fmt.Sprintf("%s:distinct-observations=%d", p.Name, len(distinct)))
	c.Counter("choice_points_default_runs", int64(st.Points))
}

func run(c *core.Ctx) {
	// (a)
	ocs := orderCases()
	c.Note("order_cases", len(ocs))
	byStdin := map[string][]orderCase{}
	for _, oc := range ocs {
		byStdin[oc.Stdin] = append(byStdin[oc.Stdin], oc)
	}
	if c.Shard == 0 {
		for stdin, list := range byStdin {
			bodies := make([]string, len(list))
			for i, oc := range list {
				bodies[i] = oc.Src
			}
			obs := c.R().Thunks(prelude, bodies, stdin)
			for i, oc := range list {
				c.Eval(1)
				judgeOrder(c, oc, obs[i])
			}
		}
		c.Sample(map[string]interface{}{"order_case": ocs[3].Src, "expected_trace": ocs[3].Order})
	}
	// (b)
	bound := c.Pick(1, 2)
	c.Note("map_order_deviation_bound", bound)
	c.Note("programs", len(programs))
	m := &mapRunner{c: c, cache: map[string]*ast.Program{}}
	sites := map[string]int{}
	tk.Sharded(c, len(programs), func(i int) {
		exploreProg(c, m, programs[i], bound, sites)
		if i%9 == 0 {
			c.Sample(map[string]interface{}{"program": programs[i].Name, "source": programs[i].Src, "explored": "every iteration order at every range-over-map site reached"})
		}
	})
	for s, n := range sites {
		c.Counter("site:"+s, int64(n))
	}
	// (c)
	exploreBoot(c)
}

func replay(c *core.Ctx, raw json.RawMessage) {
	var oc orderCase
	if json.Unmarshal(raw, &oc) == nil && oc.Src != "" && oc.Name != "" && len(oc.Order)+len(oc.WantOut) > 0 {
		obs := c.R().Thunks(prelude, []string{oc.Src}, oc.Stdin)
		c.Eval(1)
		judgeOrder(c, oc, obs[0])
		return
	}
	var b bcase
	if err := json.Unmarshal(raw, &b); err != nil {
		c.HarnessError("bad case: %v", err)
		return
	}
	if b.Boot != nil {
		base, ok := bootRun(c, bootReq{})
		res, ok2 := bootRun(c, *b.Boot)
		c.Eval(1)
		if ok && ok2 && res.Digest != base.Digest {
			c.Violation(core.Violation{Key: "startup-map-order-dependence/" + b.Boot.Site, Case: raw, Desc: "start-up under another map order", Expected: base.Digest, Observed: res.Digest})
		}
		return
	}
	m := &mapRunner{c: c, cache: map[string]*ast.Program{}}
	exploreProg(c, m, b.Prog, 1, map[string]int{})
}
