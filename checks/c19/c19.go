// Package c19: a fresh evaluation is independent of what the process evaluated before
// (property C19). Every history (sequence of programs) up to a length bound is run in a NEW
// process under two reuse drivers; the observation of the last program must equal its observation
// when evaluated alone in a new process.
package c19

import (
	"bytes"
	"context"
	"encoding/json"
	"fmt"
	"io"
	"os"
	"os/exec"
	"path/filepath"
	"sort"
	"strings"
	"time"

	"github.com/Syuparn/pangaea/di"
	"github.com/Syuparn/pangaea/evaluator"
	"github.com/Syuparn/pangaea/object"
	"github.com/Syuparn/pangaea/parser"
	"github.com/Syuparn/pangaea/runscript"

	"panmc/internal/core"
	"panmc/internal/tk"
)

func init() {
	core.Register(&core.Check{
		ID:    "C19",
		Level: "model_checking",
		// generous internal deadline: the run takes 1-2 minutes on an idle machine and several times that next to other jobs
		QuickBudget: 900,
		Rule: "all histories of <=1 (thorough <=2) earlier programs followed by a program under test over an alphabet of 80 programs (incl. source files loaded by relative path - a module that raises, one that does not parse, a good one - and regular expressions whose texts share one symbol key) (incl. pairs that raise the same run-time error from different source positions, and programs that invite!/import the embedded and Go standard modules after defining variables) (define a variable, read it, shadow a built-in name, use a built-in, raise `_` on different lines, touch Either's abstract props, raise at depth 2, syntax error, intern new symbols via evalEnv, print, read stdin, iterate, user error, error inside native code, inspect built-in prototypes), " +
			"each history in a new process, under 2 reuse drivers (playground: one const env, one enclosed scope per program - the call sequence of web/wasm/executor.go; `pangaea test`: runscript.RunTest over a generated directory); " +
			"corpus family: every script of the repository's tests/ directory (336 at present) after itself, after its neighbour, and after both, in one interpreter; " +
			"oracle: (stdout, value, error message, stack trace) of the program under test equals its observation alone in a new process; states = histories, transitions = program evaluations; " +
			"non-trivial = every history of length >=1; distinct = distinct (driver, history, program); round 8: The alphabet (68 programs) also has operations that fail part-way (caught) next to the same operations done plainly, and many failed deep calls next to a 9900-deep recursion.",
		Assumptions: []string{
			"the playground is driven through the executor's call sequence (web/wasm pins an old release and cannot be built against the working tree)",
			"under RunTest earlier programs are the non-failing ones (a failing file ends the run by design)",
			"don't-care: under RunTest all files share the one standard input of the process, so programs that read it are used as the program under test only, not as earlier programs (in the playground every execution gets its own input and they are used in both roles)",
		},
		Run:     run,
		Replay:  replay,
		Workers: 16,
	})
	core.RegisterCommand("c19run", helper)
}

type prog struct {
	Name  string `json:"name"`
	Src   string `json:"src"`
	Stdin string `json:"stdin,omitempty"`
	Fails bool   `json:"fails,omitempty"`
	Reads bool   `json:"reads,omitempty"` // reads standard input
}

var alphabet = []prog{
	{Name: "define-var", Src: "shared := 41\nshared + 1"},
	{Name: "read-var", Src: "shared", Fails: true},
	{Name: "shadow-builtin", Src: "Int := 5\nArr := {}\nInt"},
	{Name: "use-builtin", Src: "[1.kindOf?(Int), [1].kindOf?(Arr), 3.S, [2, 1].len]"},
	{Name: "raise-underscore-line1", Src: "_", Fails: true},
	{Name: "raise-underscore-line3", Src: "x := 1\ny := 2\n_ # placeholder", Fails: true},
	{Name: "either-abstract", Src: "Either.val", Fails: true},
	{Name: "either-use", Src: "[1.try./(0).val, 1.try.+(1).val, Either.newErr(ValueErr, \"m\").err.msg]"},
	{Name: "raise-depth2", Src: "f := {|| raise ValueErr.new(\"deep\")}\ng := {|| f()}\ng()", Fails: true},
	{Name: "syntax-error", Src: "x := (", Fails: true},
	{Name: "intern-symbols", Src: "\"newsym_a := 1; newsym_b := newsym_a + 1; newsym_b\".evalEnv"},
	{Name: "print", Src: "\"hello\".p\n[1, 2]@p\n3"},
	{Name: "read-stdin", Src: "a := <>.S\nb := <>.S\n[a, b]", Stdin: "line1\nline2\nline3\n", Reads: true},
	{Name: "read-stdin-one-of-three", Src: "<>.S.p\n1", Stdin: "p1\np2\np3\n", Reads: true},
	{Name: "read-stdin-all-lines", Src: "<>@{|l| l.uc}", Stdin: "x1\nx2\n", Reads: true},
	{Name: "read-stdin-empty", Src: "[<>.S, <>@{|l| l}]", Stdin: "", Reads: true},
	{Name: "iterate", Src: "it := <{|n| yield n if n < 3; recur(n + 1)}>.new(0)\n[it.next, it.A, (1:4)@{|i| i * 2}]"},
	{Name: "user-error", Src: "raise AssertionErr.new(\"user\")", Fails: true},
	{Name: "native-error", Src: "[1, \"a\"].sum", Fails: true},
	{Name: "inspect-protos", Src: "[Int.keys.len, Obj.keys.len, Arr.keys.len, Str.keys.len, Kernel.keys.len, Obj['p] == Obj['p]]"},
	{Name: "define-func-and-call", Src: "helper := {|x| x * 2}\nhelper(21)"},
	{Name: "expand-builtins-in-call", Src: "show := {|| \\_.keys.len > 3}\n[show(**Int, **{marker: \"set\"}), show(**Kernel, **{marker2: 1}, **{marker3: 2})]"},
	{Name: "lookup-markers", Src: "[3['marker], Int['marker], Obj['marker], Kernel['marker2], 1.try.{|x| x.marker}.err?]"},
	// the same run-time error raised by two different programs (different lines / texts): the report of the
	// later one must not contain anything of the earlier one
	{Name: "err-anon-chain-v1", Src: "helperA := {|| .secretOfA}\n\"\".try.{helperA()}.err?", Fails: false},
	{Name: "err-anon-chain-v2", Src: "x := 1\ny := 2\n.propOfB", Fails: true},
	{Name: "err-undefined-var-v1", Src: "undefinedInA", Fails: true},
	{Name: "err-undefined-var-v2", Src: "q := 1\n[q, undefinedInB]", Fails: true},
	{Name: "err-noprop-v1", Src: "1.noSuchPropA", Fails: true},
	{Name: "err-noprop-v2", Src: "z := {a: 1}\nz.noSuchPropB(1, 2)", Fails: true},
	{Name: "err-zerodiv-v1", Src: "1 / 0", Fails: true},
	{Name: "err-zerodiv-v2", Src: "d := {|n| n // 0}\nd(5)", Fails: true},
	{Name: "err-type-v1", Src: "1 + \"a\"", Fails: true},
	{Name: "err-type-v2", Src: "t := [1]\nt * \"x\"", Fails: true},
	{Name: "err-stopiter-v1", Src: "<{|| yield 1 if false}>.new.next", Fails: true},
	{Name: "err-stopiter-v2", Src: "it := <{|i| yield i if i < 1; recur(i + 1)}>.new(0)\nit.next\nit.next", Fails: true},
	{Name: "err-not-callable-v1", Src: "5()", Fails: true},
	{Name: "err-not-callable-v2", Src: "f := nil\nf(1)", Fails: true},
	{Name: "err-value-v1", Src: "(-4).sqrt", Fails: true},
	{Name: "err-assert-v1", Src: "assertEq(1, 2)", Fails: true},
	{Name: "err-assert-v2", Src: "a := 1\nassert(a == 2)", Fails: true},
	{Name: "err-caught-then-pass", Src: "[1.try./(0).err?, \"\".try.{undefinedCaught}.err?, 1.try.nope.err?]", Fails: false},
	// standard modules (embedded sources / Go modules) loaded into the program's scope or as an object
	{Name: "invite-native-module-after-definitions", Src: "secretInv := 42\nhelperInv := {|| secretInv}\ninvite!(\"dummy_native\")\n[message, helperInv()]"},
	{Name: "import-native-module", Src: "mod := import(\"dummy_native\")\n[mod.keys, mod.message]"},
	{Name: "invite-native-module-then-read-foreign-name", Src: "invite!(\"dummy_native\")\n[message, secretInv]", Fails: true},
	{Name: "invite-go-module-after-definitions", Src: "secretGo := 43\ninvite!(\"dummy\")\n[message, secretGo]"},
	{Name: "import-modules-keys", Src: "[import(\"dummy\").keys, import(\"http\").keys, import(\"dummy_native\").keys]"},
	{Name: "import-wrong-module", Src: "import(\"dummy_native_wrong\")", Fails: true},
	// an instance of a user-defined Str descendant is the first use of a new name (map key / which argument); a later
	// program receives that name from the interpreter (evalEnv keys) and looks at more than its text
	{Name: "descendant-str-as-first-use-of-a-name", Src: "MyStr := Str.bear({shout: m{\"from the earlier program\"}})\nk := MyStr.new(\"zz_c19_fresh_name\")\nw := MyStr.new(\"zz_c19_which_name\")\n[%{k: 1}.len, %{}[k], {a: 1}.which(w)]"},
	{Name: "names-handed-out-by-evalEnv", Src: "ks := \"zz_c19_fresh_name := 1; zz_c19_which_name := 2\".evalEnv.keys\nks@{|k| [k, k.proto == Str, k['shout], k.kindOf?(Str)]}"},
	// names that standard modules define, read by a program that loaded none (alone: all undefined)
	{Name: "read-module-names", Src: "[1.try.{|u| message}.err?, 1.try.{|u| Server}.err?, 1.try.{|u| Client}.err?, 1.try.{|u| S}.err?, 1.try.{|u| _internal}.err?]"},
	{Name: "invite-http-module", Src: "invite!(\"http\")\n[Server.kindOf?(Obj), Client.kindOf?(Obj)]"},
	// function literals that end on the same line and column with the same closing line, printed and compared
	{Name: "print-multiline-func-v1", Src: "f := {|x|\n  x + 1\n}\ne := {|x|\n  x + 1\n}\n[f.S, f == e, f(1)]"},
	{Name: "print-multiline-func-v2", Src: "g := {|y|\n  y * 2\n}\ne := {|y|\n  y * 2\n}\n[g.S, g == e, g(1)]"},
	{Name: "print-multiline-iter-v3", Src: "h := <{|n|\n  yield n\n}>\n[h.S, h.new(3).next]"},
	// source files loaded by relative path: a module that raises, one that does not parse, a good one
	{Name: "import-broken-file", Src: "import(\"@MODS@/broken\")", Fails: true},
	{Name: "import-broken-file-caught", Src: "[nil.try.{|u| import(\"@MODS@/broken\")}.err.msg, nil.try.{|u| import(\"@MODS@/badsyntax\")}.err?, import(\"@MODS@/good\").answer]"},
	{Name: "invite-good-file", Src: "invite!(\"@MODS@/good\")\n[answer, twice(4)]"},
	{Name: "import-file-in-function", Src: "answer := 1\nload := {|answer| import(\"@MODS@/good\")}\n[load(5).answer, load(6).twice(2), answer]"},
	// two patterns / names that differ only in text, with the same 64-bit symbol key
	{Name: "regex-pattern-v1", Src: "[\"id=swddgEpwqyega;\".match(\"swddgEpwqyega\"), \"xswddgEpwqyegay\".sub(\"swddgEpwqyega\", \"-\"), \"1swddgEpwqyega2\" / \"swddgEpwqyega\"]"},
	{Name: "regex-pattern-v2", Src: "[\"id=lwvgwfgDAyorc;\".match(\"lwvgwfgDAyorc\"), \"xlwvgwfgDAyorcy\".sub(\"lwvgwfgDAyorc\", \"-\"), \"1lwvgwfgDAyorc2\" / \"lwvgwfgDAyorc\"]"},
	// operations that fail part-way (caught) and the same kinds of operation done plainly by a later program
	{Name: "interpolation-fails-part-way", Src: "[nil.try.{|u| \"id=#{2}#{1 / 0}\"}.err?, nil.try.{|u| \"a#{'x}b#{nil.zz}c\"}.err?]"},
	{Name: "interpolation-plain", Src: "name := \"world\"\n[\"Hello, #{name}!\", \"#{1}-#{2}\"]"},
	{Name: "literals-and-calls-fail-part-way", Src: "[nil.try.{|u| [1, 2, 1 / 0]}.err?, nil.try.{|u| {a: 1, b: 1 / 0}}.err?, nil.try.{|u| %{1: 2, 3: 1 / 0}}.err?, nil.try.{|u| {|a, b| a}(1, 1 / 0)}.err?, nil.try.{|u| [1, 2]@{|x| x / 0}}.err?, nil.try.{|u| (1:(1 / 0))}.err?]"},
	{Name: "literals-and-calls-plain", Src: "[[3, 4], {c: 5}, %{6: 7}, {|a, b| [a, b]}(8, 9), [1, 2]@{|x| x * 2}, (1:3).A]"},
	// many failed calls, then a deep (but finite) recursion
	{Name: "many-failed-deep-calls", Src: "f := {|n| raise ValueErr.new(\"x\") if n == 0; f(n - 1)}\n(1:80)@{|i| nil.try.{|u| f(100)}.err?}.len"},
	{Name: "recursion-9900-deep", Src: "g := {|n| return 0 if n == 0; g(n - 1)}\ng(9900)"},
	// a program that makes the interpreter learn very many new names, and programs that need names turned back into text
	{Name: "learn-70000-names", Src: "(1:70001)@{|i| %{(\"zz_c19_n\" + i.S): 1}.len}.len"},
	{Name: "evalEnv-with-fresh-names-in-between", Src: "`a := 1; r := (1:3000)@{|i| %{(\"zz_c19_m\" + i.S): i}.len}.len; b := 2`.evalEnv.keys"},
	// small ints around powers of two, negative first / positive first
	{Name: "negative-powers-of-two", Src: "[-64 * 8, -512 + 0, 0 - 1024, -2 ** 9, -256 * 2, -127 - 1, -255 - 1, 0 - 64]"},
	{Name: "positive-powers-of-two", Src: "[2 ** 9, 1024 // 2, 256 + 256, 512 > 0, 2 ** 10, 64 * 2, 127 + 1, 255 + 1, [64, 128, 256, 512].sum, 8 * 8]"},
	// two source files with the same bytes under different names, each raising when its function is called
	{Name: "file-a-of-two-identical-raises", Src: "import(\"@MODS@/util_a\").check(1)", Fails: true},
	{Name: "file-b-of-two-identical-raises", Src: "import(\"@MODS@/util_b\").check(2)", Fails: true},
	{Name: "file-b-of-two-identical-passes", Src: "u := import(\"@MODS@/util_b\")\n[u.check(50), nil.try.{|v| u.check(3)}.err.msg]"},
	{Name: "eval-same-text-as-a-file", Src: "f := \"check := m{|x| raise ValueErr.new(\\\"too small: \\\" + x.S) if x < 10; x}\\n\".evalEnv\nf.check(4)", Fails: true},
	// abstract properties called on the abstract prototypes themselves; a program's own abstract method
	{Name: "abstract-props-of-Either-called", Src: "[nil.try.{|u| Either.val}.err.msg, nil.try.{|u| Either.fmap {|x| x}}.err.msg, nil.try.{|u| Either.A}.err.msg, nil.try.{|u| Either.or(1)}.err.msg, nil.try.{|u| Either.err}.err.msg]"},
	{Name: "own-abstract-method-caught", Src: "shape := {area: m{_}, name: m{\"shape\"}}\n[nil.try.{|u| shape.area}.err.msg, nil.try.{|u| _}.err.msg, shape.name]"},
	{Name: "own-abstract-method-uncaught", Src: "shape := {area: m{_}}\nshape.area", Fails: true},
	// calls written with empty parentheses followed by a function literal; empty parameter lists and empty calls
	{Name: "trailing-literal-after-empty-parens", Src: "[[1, 2].map() {|x| x * 2}, {|| 1}.arity, {|a| a}()]"},
	{Name: "empty-parameter-lists-and-empty-calls", Src: "f := {|| 7}\ng := {|a| a}\n[f.arity, f(), g(), {||}.arity, [3].map() {|v| v + 1}, {|| [\\0, \\_]}()]"},
	{Name: "bear-patch-builtins", Src: "c := Int.bear({extra: 1})\nd := {a: 1}.patch(b: 2)\n[c['extra], Int['extra], d, Obj['b]]"},
}

type obs struct {
	Stdout string `json:"stdout"`
	Value  string `json:"value"`
	Err    string `json:"err"`   // error message (first line: kind and message)
	Trace  string `json:"trace"` // stack trace
	Exit   int    `json:"exit"`
	Stderr string `json:"stderr,omitempty"`
	// ProtoChanged: the property tables of the built-in prototypes differ from what start-up produced
	ProtoChanged string `json:"proto_changed,omitempty"`
}

type request struct {
	Driver string `json:"driver"`
	Progs  []prog `json:"progs"`
}

// ---------------------------------------------------------------- helper process

// writeMods: source files the programs may load by relative path, in ./mods. The playground has no source path
// (relative paths start at the working directory: @MODS@ = ./mods); `pangaea test` resolves them from the test
// file in ./t (@MODS@ = ../mods; every file below ./t would be run as a test).
func writeMods(d string) {
	os.MkdirAll(d, 0o755)
	os.WriteFile(filepath.Join(d, "broken.pangaea"), []byte("limit := 10\nraise ValueErr.new(\"broken module: limit is too small\") if limit < 100\nanswer := 42\n"), 0o644)
	os.WriteFile(filepath.Join(d, "good.pangaea"), []byte("answer := 42\ntwice := {|x| x * 2}\n"), 0o644)
	os.WriteFile(filepath.Join(d, "badsyntax.pangaea"), []byte("answer := (42\n"), 0o644)
	for _, n := range []string{"util_a", "util_b"} {
		os.WriteFile(filepath.Join(d, n+".pangaea"), []byte("check := m{|x| raise ValueErr.new(\"too small: \" + x.S) if x < 10; x}\n"), 0o644)
	}
}

func helper(args []string) int {
	var req request
	b, err := io.ReadAll(os.Stdin)
	if err != nil || json.Unmarshal(b, &req) != nil {
		fmt.Fprintln(os.Stderr, "c19run: bad request")
		return 2
	}
	writeMods("mods")
	var res []obs
	switch req.Driver {
	case "playground":
		res = playground(req.Progs)
	case "runtest":
		res = runTest(req.Progs)
	default:
		return 2
	}
	// every process has its own scratch directory: its name is not part of the observation
	if cwd, err := os.Getwd(); err == nil {
		for i := range res {
			for _, f := range []*string{&res[i].Stdout, &res[i].Value, &res[i].Err, &res[i].Trace, &res[i].Stderr} {
				*f = strings.ReplaceAll(*f, cwd, "$CWD")
			}
		}
	}
	out, _ := json.Marshal(res)
	os.Stdout.Write(out)
	return 0
}

var builtinProtos = map[string]*object.PanObj{"Arr": object.BuiltInArrObj, "Obj": object.BuiltInObjObj, "BaseObj": object.BuiltInBaseObj, "Int": object.BuiltInIntObj, "Float": object.BuiltInFloatObj,
	"Str": object.BuiltInStrObj, "Map": object.BuiltInMapObj, "Range": object.BuiltInRangeObj, "Func": object.BuiltInFuncObj, "Nil": object.BuiltInNilObj, "Iterable": object.BuiltInIterableObj,
	"Comparable": object.BuiltInComparableObj, "Either": object.BuiltInEitherObj, "EitherVal": object.BuiltInEitherValObj, "EitherErr": object.BuiltInEitherErrObj, "Kernel": object.BuiltInKernelObj,
	"Num": object.BuiltInNumObj, "Iter": object.BuiltInIterObj, "Wrappable": object.BuiltInWrappableObj, "Err": object.BuiltInErrObj, "JSON": object.BuiltInJSONObj, "Diamond": object.BuiltInDiamondObj, "Match": object.BuiltInMatchObj}

// protoDigest lists, per built-in prototype, the names in its property table (Go-level view).
func protoDigest() map[string]string {
	d := map[string]string{}
	for n, p := range builtinProtos {
		if p == nil || p.Pairs == nil {
			d[n] = "<nil>"
			continue
		}
		var ks []string
		for _, pair := range *p.Pairs {
			ks = append(ks, fmt.Sprintf("%s=%p", pair.Key.Inspect(), pair.Value))
		}
		sort.Strings(ks)
		d[n] = strings.Join(ks, ",")
	}
	// every name the prototypes use is still known to the interpreter-wide symbol table (names are never forgotten)
	lost := 0
	for _, p := range builtinProtos {
		if p == nil || p.Pairs == nil {
			continue
		}
		for h := range *p.Pairs {
			if _, ok := object.SymHash2Str(h); !ok {
				lost++
			}
		}
	}
	d["<symbol table>"] = fmt.Sprintf("names of built-in properties that cannot be turned back into text: %d", lost)
	return d
}

func protoDiff(a, b map[string]string) string {
	var out []string
	for n := range a {
		if a[n] != b[n] {
			out = append(out, n)
		}
	}
	sort.Strings(out)
	return strings.Join(out, ",")
}

// playground performs the call sequence of web/wasm/executor.go against the working tree.
func playground(progs []prog) []obs {
	constEnv := object.NewEnvWithConsts()
	di.InjectBuiltInProps(constEnv)
	constEnv.InjectFrom(object.BuiltInKernelObj)
	var res []obs
	base := protoDigest()
	for _, p := range progs {
		var stdout bytes.Buffer
		constEnv.InjectIO(strings.NewReader(p.Stdin), &stdout)
		env := object.NewEnclosedEnv(constEnv)
		o := obs{}
		func() {
			defer func() {
				if r := recover(); r != nil {
					o.Err = fmt.Sprintf("HOST PANIC: %v", r)
				}
			}()
			node, err := parser.Parse(parser.NewReader(strings.NewReader(strings.ReplaceAll(p.Src, "@MODS@", "./mods")), "playground"))
			if err != nil {
				o.Err = err.Error()
				return
			}
			evaluated := evaluator.Eval(node, env)
			if e, ok := evaluated.(*object.PanErr); ok {
				o.Err = e.Inspect()
				o.Trace = e.StackTrace
				return
			}
			o.Value = evaluated.Repr()
		}()
		o.Stdout = stdout.String()
		o.ProtoChanged = protoDiff(base, protoDigest())
		res = append(res, o)
	}
	return res
}

// runTest writes the programs into ./t and runs runscript.RunTest over it (one observation for the whole run).
func runTest(progs []prog) []obs {
	dir := "t"
	os.RemoveAll(dir)
	os.MkdirAll(dir, 0o755)
	stdin := ""
	for i, p := range progs {
		name := fmt.Sprintf("h%d_test.pangaea", i)
		if i == len(progs)-1 {
			name = "z_test.pangaea"
			stdin = p.Stdin
		}
		src := strings.ReplaceAll(p.Src, "@MODS@", "../mods")
		if !p.Fails {
			// make the value observable: `pangaea test` prints nothing about values
			lines := strings.Split(src, "\n")
			lines[len(lines)-1] = "(" + lines[len(lines)-1] + ").p"
			src = strings.Join(lines, "\n")
		}
		os.WriteFile(filepath.Join(dir, name), []byte(src+"\n"), 0o644)
	}
	var stdout bytes.Buffer
	// an interpreter of the same process image gives the reference property tables
	ref := object.NewEnvWithConsts()
	di.InjectBuiltInProps(ref)
	base := protoDigest()
	code := runscript.RunTest(dir, strings.NewReader(stdin), &stdout)
	return []obs{{Stdout: stdout.String(), Exit: code, ProtoChanged: protoDiff(base, protoDigest())}}
}

// ---------------------------------------------------------------- check

type tcase struct {
	Driver  string `json:"driver"`
	History []int  `json:"history"`
	Test    int    `json:"test"`
}

func (t tcase) progs() []prog {
	var ps []prog
	for _, h := range t.History {
		ps = append(ps, alphabet[h])
	}
	return append(ps, alphabet[t.Test])
}

func (t tcase) desc() string {
	var names []string
	for _, h := range t.History {
		names = append(names, alphabet[h].Name)
	}
	return fmt.Sprintf("[%s] after (%s): %s", t.Driver, strings.Join(names, ", "), alphabet[t.Test].Name)
}

var runCount int

func runProcess(c *core.Ctx, driver string, progs []prog) (obs, bool) {
	self, _ := os.Executable()
	cwd, err := os.MkdirTemp(os.Getenv("PANMC_SCRATCH"), "c19-")
	if err != nil {
		c.HarnessError("mkdtemp: %v", err)
		return obs{}, false
	}
	defer os.RemoveAll(cwd)
	req, _ := json.Marshal(request{Driver: driver, Progs: progs})
	var so, se bytes.Buffer
	var runErr error
	// a history that never finishes must not hang the check: the process is killed after 2 minutes (normal: < 1 s) and
	// tried once more with 4 minutes before "does not finish" becomes the observation
	for _, limit := range []time.Duration{2 * time.Minute, 4 * time.Minute} {
		so.Reset()
		se.Reset()
		ctx, cancel := context.WithTimeout(context.Background(), limit)
		cmd := exec.CommandContext(ctx, self, "c19run")
		cmd.Dir = cwd
		cmd.Stdin = bytes.NewReader(req)
		cmd.Stdout, cmd.Stderr = &so, &se
		runErr = cmd.Run()
		timedOut := ctx.Err() == context.DeadlineExceeded
		cancel()
		if !timedOut {
			break
		}
		if limit == 4*time.Minute {
			return obs{Err: "PROCESS DID NOT FINISH (killed after 2 and after 4 minutes)"}, true
		}
	}
	var res []obs
	if json.Unmarshal(so.Bytes(), &res) != nil || len(res) == 0 {
		// the interpreter process died: report as an observation (C01 decides whether that is a crash)
		return obs{Err: fmt.Sprintf("PROCESS DIED: %v %s", runErr, firstLine(se.String()))}, true
	}
	o := res[len(res)-1]
	if driver == "runtest" {
		o.Stderr = strings.ReplaceAll(se.String(), cwd, "$CWD")
		// keep only what concerns the file under test
		if i := strings.LastIndex(o.Stdout, "run:  t/z_test.pangaea"); i >= 0 {
			o.Stdout = o.Stdout[i:]
		} else {
			o.Stdout = "<file under test not reached> " + o.Stdout
		}
	}
	return o, true
}

func lastName(t tcase) string {
	// the program that ran last before the tables were found changed (history programs included)
	names := []string{}
	for _, h := range t.History {
		names = append(names, alphabet[h].Name)
	}
	names = append(names, alphabet[t.Test].Name)
	return strings.Join(names, "+")
}

func firstLine(s string) string {
	if i := strings.IndexByte(s, '\n'); i >= 0 {
		return s[:i]
	}
	return s
}

var aloneCache = map[string]obs{}

func alone(c *core.Ctx, driver string, test int) (obs, bool) {
	k := fmt.Sprintf("%s/%d", driver, test)
	if o, ok := aloneCache[k]; ok {
		return o, true
	}
	o, ok := runProcess(c, driver, []prog{alphabet[test]})
	if !ok {
		return o, false
	}
	// determinism of the baseline itself: a second new process must agree
	o2, ok2 := runProcess(c, driver, []prog{alphabet[test]})
	if !ok2 || o != o2 {
		c.HarnessError("program %s is not reproducible alone under %s: %+v vs %+v", alphabet[test].Name, driver, o, o2)
		return o, false
	}
	aloneCache[k] = o
	return o, true
}

func check(c *core.Ctx, t tcase) {
	c.Eval(1)
	c.State(1)
	c.Transition(len(t.History) + 1)
	want, ok := alone(c, t.Driver, t.Test)
	if !ok {
		return
	}
	got, ok := runProcess(c, t.Driver, t.progs())
	if !ok {
		return
	}
	c.Validated(1)
	if len(t.History) > 0 {
		c.Nontrivial(1)
	}
	c.Outcome(t.Driver + ":" + map[bool]string{true: "same", false: "differs"}[got == want])
	if got.ProtoChanged != "" {
		c.Violation(core.Violation{Key: t.Driver + "/builtin-prototypes-changed/after-" + lastName(t), Case: core.JSON(t), Desc: t.desc(),
			Expected: "built-in objects keep their original properties", Observed: "property tables changed: " + got.ProtoChanged})
		return
	}
	if got == want {
		return
	}
	field := "stdout"
	switch {
	case got.Err != want.Err:
		field = "error"
	case got.Trace != want.Trace:
		field = "stacktrace"
	case got.Value != want.Value:
		field = "value"
	case got.Stderr != want.Stderr:
		field = "stderr"
	case got.Exit != want.Exit:
		field = "exit"
	}
	c.Violation(core.Violation{Key: t.Driver + "/" + alphabet[t.Test].Name + "/" + field, Case: core.JSON(t), Desc: t.desc(),
		Expected: fmt.Sprintf("alone: %+v", want), Observed: fmt.Sprintf("after history: %+v", got)})
}

func gen(c *core.Ctx, thorough bool, emit func(tcase)) {
	// which programs fail is measured, not assumed
	fails := map[int]bool{}
	for i := range alphabet {
		o, ok := alone(c, "playground", i)
		if !ok {
			return
		}
		fails[i] = o.Err != ""
		if fails[i] != alphabet[i].Fails {
			c.HarnessError("program %s: expected fails=%v, observed %+v", alphabet[i].Name, alphabet[i].Fails, o)
		}
	}
	maxH := 1
	if thorough {
		maxH = 2
	}
	for _, driver := range []string{"playground", "runtest"} {
		var rec func(h []int)
		rec = func(h []int) {
			for b := range alphabet {
				emit(tcase{Driver: driver, History: append([]int{}, h...), Test: b})
			}
			if len(h) == maxH {
				return
			}
			for a := range alphabet {
				if driver == "runtest" && (fails[a] || alphabet[a].Reads) {
					// `pangaea test` stops at a failing file, and gives all files the one standard input of the
					// process: a file that reads it legitimately changes what later files can read
					continue
				}
				rec(append(h, a))
			}
		}
		rec(nil)
	}
}

// corpus family: every script of the repository's own tests/ directory (read from the tree under test) is evaluated
// after itself and after its neighbour in one interpreter (playground driver): it must be observed as it is alone.
func runCorpus(c *core.Ctx) {
	files, _ := filepath.Glob(filepath.Join(os.Getenv("PANMC_REPO"), "tests", "*.pangaea"))
	sort.Strings(files)
	if len(files) == 0 {
		c.Note("corpus_files", 0)
		return
	}
	c.Note("corpus_files", len(files))
	read := func(i int) prog {
		b, _ := os.ReadFile(files[i])
		return prog{Name: "tests/" + filepath.Base(files[i]), Src: string(b)}
	}
	tk.Sharded(c, len(files), func(i int) {
		p := read(i)
		want, ok := runProcess(c, "playground", []prog{p})
		if !ok {
			return
		}
		for _, hist := range [][]prog{{p}, {read((i + len(files) - 1) % len(files))}, {read((i + 1) % len(files)), p}} {
			c.Eval(1)
			c.State(1)
			c.Transition(len(hist) + 1)
			got, ok := runProcess(c, "playground", append(append([]prog{}, hist...), p))
			if !ok {
				return
			}
			c.Validated(1)
			c.Nontrivial(1)
			c.Outcome("corpus:" + map[bool]string{true: "same", false: "differs"}[got == want])
			if got != want {
				var hn []string
				for _, h := range hist {
					hn = append(hn, h.Name)
				}
				c.Violation(core.Violation{Key: "corpus/" + p.Name + "/differs-after-earlier-programs", Case: core.JSON(map[string]interface{}{"corpus": p.Name, "history": hn}), Desc: p.Name + " after " + strings.Join(hn, ", "),
					Expected: fmt.Sprintf("alone: %+v", want), Observed: fmt.Sprintf("after history: %+v", got)})
				return
			}
		}
	})
}

func run(c *core.Ctx) {
	runCorpus(c)
	var cases []tcase
	gen(c, c.Thorough(), func(t tcase) { cases = append(cases, t) })
	c.Note("histories_total", len(cases))
	c.Note("alphabet", len(alphabet))
	tk.Sharded(c, len(cases), func(i int) {
		if i%97 == 0 {
			c.Sample(map[string]interface{}{"case": cases[i].desc()})
		}
		check(c, cases[i])
	})
}

func replay(c *core.Ctx, raw json.RawMessage) {
	var cp struct {
		Corpus string `json:"corpus"`
	}
	if json.Unmarshal(raw, &cp) == nil && cp.Corpus != "" {
		runCorpus(c)
		return
	}
	var t tcase
	if err := json.Unmarshal(raw, &t); err != nil {
		c.HarnessError("bad case: %v", err)
		return
	}
	check(c, t)
}
