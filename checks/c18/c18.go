// Package c18: equality and ordering obey their algebraic laws (property C18).
package c18

import (
	"encoding/json"
	"fmt"
	"strings"

	"panmc/internal/core"
	"panmc/internal/panrun"
	"panmc/internal/tk"
)

func init() {
	core.Register(&core.Check{
		ID:    "C18",
		Level: "model_checking",
		Rule: "all ordered pairs over a pool of values of every built-in data type (incl. nested containers, bear children of objects, typed descendants made with new, booleans, NaN) for the equality laws; " +
			"all pairs and all triples inside each ordered family (int-like, float-like, str-like) for the order laws; every comparison is evaluated by the real interpreter; " +
			"non-trivial = every law instance (pair or triple) checked; distinct = distinct (law, operands); round 8: The float family holds values closer than any tolerance, tiny magnitudes and results of arithmetic.",
		Assumptions: []string{
			"cross-family ordering, prototype objects and bear children of non-object values are outside the property's domain and not generated",
			"NaN is exempt from reflexivity and from the order laws",
		},
		Run:    run,
		Replay: replay,
	})
}

type val struct {
	Src  string `json:"src"`
	Fam  string `json:"fam,omitempty"`  // int | float | str | ""
	Desc bool   `json:"desc,omitempty"` // typed descendant or boolean
	NaN  bool   `json:"nan,omitempty"`
}

const prelude = `IB := Int.bear
IB2 := Int.bear
FB := Float.bear
SB := Str.bear
AB := Arr.bear
OB := {a: 1}
ff := {|x| x}
NB := Nil.bear({unknown?: true})
RB := Range.bear({})
MB := Map.bear({})
`

func pool(thorough bool) []val {
	p := []val{
		{Src: "0", Fam: "int"}, {Src: "1", Fam: "int"}, {Src: "(-1)", Fam: "int"}, {Src: "2", Fam: "int"}, {Src: "7", Fam: "int"},
		{Src: "true", Fam: "int", Desc: true}, {Src: "false", Fam: "int", Desc: true},
		{Src: "IB.new(1)", Fam: "int", Desc: true}, {Src: "IB.new(2)", Fam: "int", Desc: true}, {Src: "IB2.new(1)", Fam: "int", Desc: true},
		{Src: "9223372036854775807", Fam: "int"},
		{Src: "0.0", Fam: "float"}, {Src: "1.0", Fam: "float"}, {Src: "1.5", Fam: "float"}, {Src: "(-1.5)", Fam: "float"}, {Src: "2.5", Fam: "float"},
		{Src: "FB.new(1.5)", Fam: "float", Desc: true}, {Src: "FB.new(2.5)", Fam: "float", Desc: true},
		// typed descendants of the remaining built-in types (nil, range, map), two instances of each
		{Src: "NB.new"}, {Src: "NB.new"}, {Src: "Nil.new"}, {Src: "[NB.new]"}, {Src: "{v: NB.new}"}, {Src: "RB.new(1, 3)"}, {Src: "RB.new(1, 3)"}, {Src: "MB.new(%{1: 2})"}, {Src: "MB.new(%{1: 2})"},
		// floats that differ by less than any sensible tolerance, tiny magnitudes, results of arithmetic
		{Src: "(0.1 + 0.2)", Fam: "float"}, {Src: "0.3", Fam: "float"}, {Src: "1.0e-10", Fam: "float"}, {Src: "2.0e-10", Fam: "float"}, {Src: "1.0000000001", Fam: "float"}, {Src: "(1.5 - 1.0e-12)", Fam: "float"},
		{Src: `"nan".F`, NaN: true},
		{Src: `""`, Fam: "str"}, {Src: `"a"`, Fam: "str"}, {Src: `"b"`, Fam: "str"}, {Src: `"ab"`, Fam: "str"}, {Src: `'a`, Fam: "str"},
		// two different texts with the same 64-bit FNV-1a value (the symbol hash), and strs that are not valid UTF-8
		{Src: `"swddgEpwqyega"`, Fam: "str"}, {Src: `"lwvgwfgDAyorc"`, Fam: "str"}, {Src: `(/~"a")`, Fam: "str"}, {Src: `(/~"b")`, Fam: "str"}, {Src: `("x" + /~"a")`, Fam: "str"},
		{Src: `SB.new("a")`, Fam: "str", Desc: true}, {Src: `SB.new("b")`, Fam: "str", Desc: true},
		{Src: "nil"},
		{Src: "[]"}, {Src: "[1]"}, {Src: "[1, 2]"}, {Src: "[1.0]"}, {Src: "[[1], [2]]"}, {Src: "[true]"}, {Src: "AB.new([1])"},
		{Src: "{}"}, {Src: "{a: 1}"}, {Src: "{a: 1, b: 2}"}, {Src: "{a: {b: 1}}"}, {Src: "OB.bear"}, {Src: "OB.bear({b: 2})"}, {Src: "Obj.new({a: 1})"},
		{Src: "%{}"}, {Src: "%{1: 2}"}, {Src: "%{[1]: 2}"}, {Src: `%{"a": 1}`},
		// containers built by merging/unpacking rather than written out (equal to a literal of the pool or to each other)
		{Src: "%{**%{[1]: 2, 'k: 1}, **%{[1]: 3, 'j: 2}}"}, {Src: "%{'k: 1, 'j: 2, [1]: 2}"}, {Src: "%{[1]: 2, [1]: 3}"}, {Src: "%{**%{1: 2}, **%{1: 3}}"},
		// maps made by conversion from pairs (repeated scalar / non-scalar keys)
		{Src: "[[[1], 'a], [[1], 'a]].M"}, {Src: "[[[1], 'a], [[2], 'z]].M"}, {Src: "[[[1], 'a]].M"}, {Src: "[[1, 'a], [1, 'b]].M"}, {Src: "{a: 1}.A.M"},
		{Src: "{**{a: 1}, **{a: 2, b: 2}}"}, {Src: "[*[1], 2]"}, {Src: "[1] + [2]"},
		{Src: "(1:3)"}, {Src: "(1:3:1)"}, {Src: "(nil:nil)"}, {Src: "('a:'c)"},
		// ranges whose step is not a plain non-zero int; floats that equal a literal but were computed (negated variable,
		// bit inversion, arithmetic, conversions) - equal values built differently
		{Src: "(1:5:0.5)"}, {Src: "(1:5:0)"}, {Src: "('a:'e:'b)"}, {Src: "(1:5:nil)"}, {Src: "(1:nil:2)"}, {Src: "(nil:nil:-1)"},
		{Src: "{|x| -x}(1.5)", Fam: "float"}, {Src: "{|x| -x}(-1.5)", Fam: "float"}, {Src: "(0.0 - 1.5)", Fam: "float"}, {Src: "(3.0 / 2)", Fam: "float"}, {Src: `"1.5".F`, Fam: "float"}, {Src: "{|x| +x}(2.5)", Fam: "float"}, {Src: "{|x| /~x}(1.5)", Fam: "float"},
		{Src: "{|x| -x}(1)", Fam: "int"}, {Src: "{|x| -x}(-7)", Fam: "int"}, {Src: "{|x| /~x}(-2)", Fam: "int"}, {Src: `"7".I`, Fam: "int"}, {Src: "(14 // 2)", Fam: "int"},
		{Src: `{|x| -x}("a")`}, {Src: `{|x| x * 1}("ab")`, Fam: "str"}, {Src: `"ab".A.join("")`, Fam: "str"}, {Src: `'ab.S`, Fam: "str"},
		// plain objects that hold what an Either holds; arrays whose elements are equal across types (1 / true, 0 / false)
		{Src: "{_value: 1}"}, {Src: "Obj.new(1)"}, {Src: "{_error: 1.try./(0).err}"}, {Src: "{_value: 2}"}, {Src: "[1, 2]"}, {Src: "[true, 2]"}, {Src: "[0]"}, {Src: "[false]"}, {Src: "[[1], [true]]"}, {Src: "{a: true}"}, {Src: "%{1: true}"}, {Src: "%{1: 1}"},
		{Src: "ff"}, {Src: "{|x| x}"}, {Src: "{|x| x + 1}"}, {Src: "m{|x| x}"},
		{Src: "1.try"}, {Src: "2.try"}, {Src: `"a".try`}, {Src: "1.try./(0)"}, {Src: "1.try./(0).err"}, {Src: "1.try.nosuch.err"},
	}
	if thorough {
		p = append(p,
			val{Src: "(-7)", Fam: "int"}, val{Src: "100", Fam: "int"}, val{Src: "(-9223372036854775807 - 1)", Fam: "int"}, val{Src: "IB.new(0)", Fam: "int", Desc: true},
			val{Src: "IB.bear.new(3)", Fam: "int", Desc: true}, val{Src: "9007199254740993", Fam: "int"}, val{Src: "9007199254740992", Fam: "int"},
			val{Src: "(-0.0)", Fam: "float"}, val{Src: "1.0e300", Fam: "float"}, val{Src: "0.1", Fam: "float"}, val{Src: "FB.new(0.0)", Fam: "float", Desc: true},
			val{Src: `"B"`, Fam: "str"}, val{Src: `"日本"`, Fam: "str"}, val{Src: `"a\nb"`, Fam: "str"}, val{Src: `SB.new("")`, Fam: "str", Desc: true}, val{Src: `SB.bear.new("ab")`, Fam: "str", Desc: true},
			val{Src: "[nil]"}, val{Src: "[1, [2, [3]]]"}, val{Src: `["a"]`}, val{Src: "[{a: 1}]"}, val{Src: "[%{1: 2}]"}, val{Src: "[(1:3)]"},
			val{Src: "{b: 2, a: 1}"}, val{Src: "{_p: 1}"}, val{Src: "{a: [1]}"}, val{Src: "OB.bear.bear"},
			val{Src: "%{2: 1}"}, val{Src: "%{1: 2, 3: 4}"}, val{Src: "%{3: 4, 1: 2}"}, val{Src: "%{{a: 1}: 2}"}, val{Src: "%{nil: 1}"},
			val{Src: "%{[1]: 2}.digest([[[1], 3], ['j, 2]])"}, val{Src: "%{**%{[1]: 2}, **%{[1]: 3}, **%{[1]: 4}}"}, val{Src: "%{**%{{a: 1}: 2}, **%{{a: 1}: 3}}"}, val{Src: "{a: 1}.bear({b: 2}).bro({b: 2})"},
			val{Src: "[1, 2][0:1]"}, val{Src: "[[1]] * 2"}, val{Src: `"a" + "b"`, Fam: "str"}, val{Src: "(1:5)[0:2].A"},
			val{Src: "(3:1:-1)"}, val{Src: "(1:3:2)"}, val{Src: "(1.0:3.0)"},
			val{Src: "[1].try"}, val{Src: "nil.try"}, val{Src: `"a".try./(0).err`},
		)
	}
	return p
}

func name(i int) string { return fmt.Sprintf("v%d", i) }

func fullPrelude(p []val) string {
	var sb strings.Builder
	sb.WriteString(prelude)
	for i, v := range p {
		fmt.Fprintf(&sb, "%s := %s\n", name(i), v.Src)
	}
	return sb.String()
}

var harnessSyntax func(string)

func res(o panrun.Obs) string {
	if o.Kind == "syntax" && harnessSyntax != nil {
		harnessSyntax(o.ErrMsg)
	}
	if o.Kind == "panic" && strings.HasPrefix(o.Panic, "prelude failed") && harnessSyntax != nil {
		harnessSyntax(o.Panic) // a pool value does not evaluate: the harness is wrong, not the interpreter
	}
	switch o.Kind {
	case "value":
		return o.Repr
	case "error":
		return "E:" + o.ErrKind
	}
	return o.Kind + ":" + o.Panic
}

type tcase struct {
	Law  string `json:"law"`
	Vals []val  `json:"vals"`
}

type runner struct {
	c *core.Ctx
	p []val
}

// conflictTag marks operand sets that contain a pair with x<=>y == 0 but x == y false (equal value,
// different prototype: Int#== compares prototypes by design, pinned by the repository's tests).
var conflictTag = "/spaceship-0-but-not-equal"

func (r *runner) violate(law, class string, idx []int, exp, obs string) {
	r.violateT(law, class, idx, exp, obs, false)
}

func (r *runner) violateT(law, class string, idx []int, exp, obs string, conflict bool) {
	vs := make([]val, len(idx))
	srcs := make([]string, len(idx))
	desc := false
	for k, i := range idx {
		vs[k] = r.p[i]
		srcs[k] = r.p[i].Src
		desc = desc || r.p[i].Desc
	}
	key := law + "/" + class
	if conflict {
		key += conflictTag
	}
	if desc {
		key += "/typed-descendant-or-boolean"
	}
	r.c.Violation(core.Violation{Key: key, Case: core.JSON(tcase{Law: law, Vals: vs}), Desc: law + " on " + strings.Join(srcs, " , "), Expected: exp, Observed: obs})
}

func isBool(s string) bool { return s == "true" || s == "false" }

// eqLaws checks reflexivity/symmetry/negation for the pairs (i,j) with i<=j selected by mine.
func (r *runner) eqLaws(pairs [][2]int) {
	var bodies []string
	for _, pr := range pairs {
		a, b := name(pr[0]), name(pr[1])
		bodies = append(bodies, a+" == "+b, b+" == "+a, a+" != "+b, b+" != "+a)
	}
	obs := tk.Queries(r.c, fullPrelude(r.p), bodies)
	for k, pr := range pairs {
		i, j := pr[0], pr[1]
		o := obs[4*k : 4*k+4]
		if o[0].Kind == "skipped" || o[3].Kind == "skipped" {
			continue
		}
		r.c.Eval(4)
		xy, yx, nxy, nyx := res(o[0]), res(o[1]), res(o[2]), res(o[3])
		r.c.Outcome("eq:" + xy + "/" + yx)
		for q, s := range []string{xy, yx, nxy, nyx} {
			if strings.HasPrefix(s, "panic") {
				r.violate("eq", "host-panic", []int{i, j}, "no host panic", bodies[4*k+q]+" -> "+s)
			}
		}
		r.c.Nontrivial(1)
		r.c.Validated(1)
		if !isBool(xy) || !isBool(yx) {
			if xy != yx {
				r.violate("symmetry", "non-boolean-asymmetric", []int{i, j}, "x == y and y == x agree", "x==y: "+xy+", y==x: "+yx)
			}
			continue
		}
		if xy != yx {
			r.violate("symmetry", "asymmetric", []int{i, j}, "x == y exactly when y == x", "x==y: "+xy+", y==x: "+yx)
		}
		r.c.Nontrivial(2)
		if nxy != neg(xy) {
			r.violate("negation", "neq-not-negation", []int{i, j}, "x != y is "+neg(xy), nxy)
		}
		if nyx != neg(yx) {
			r.violate("negation", "neq-not-negation", []int{j, i}, "y != x is "+neg(yx), nyx)
		}
		if i == j && !r.p[i].NaN {
			r.c.Nontrivial(1)
			if xy != "true" {
				r.violate("reflexivity", "not-reflexive", []int{i}, "x == x", xy)
			}
		}
	}
}

func neg(s string) string {
	if s == "true" {
		return "false"
	}
	return "true"
}

// orderLaws checks one family completely (called by the worker that owns it).
func (r *runner) orderLaws(fam string, mine func(k int) bool) {
	var m []int
	for i, v := range r.p {
		if v.Fam == fam {
			m = append(m, i)
		}
	}
	n := len(m)
	ops := []string{"<", "==", ">", "<=", ">=", "<=>"}
	var bodies []string
	for _, i := range m {
		for _, j := range m {
			for _, op := range ops {
				bodies = append(bodies, name(i)+" "+op+" "+name(j))
			}
			bodies = append(bodies, fmt.Sprintf("{|r| [r == %s, r == %s]}([%s, %s].max)", name(i), name(j), name(i), name(j)))
			bodies = append(bodies, fmt.Sprintf("{|r| [r == %s, r == %s]}([%s, %s].min)", name(i), name(j), name(i), name(j)))
		}
	}
	obs := tk.Queries(r.c, fullPrelude(r.p), bodies)
	const W = 8
	get := func(a, b, q int) string { return res(obs[(a*n+b)*W+q]) }
	tern := func(s string) (bool, bool) { return s == "true", isBool(s) }
	conflict := func(a, b int) bool {
		return (get(a, b, 5) == "0" && get(a, b, 1) == "false") || (get(b, a, 5) == "0" && get(b, a, 1) == "false")
	}
	for a := 0; a < n; a++ {
		for b := 0; b < n; b++ {
			if !mine(a*n + b) {
				continue
			}
			if obs[(a*n+b)*W].Kind == "skipped" {
				continue
			}
			r.c.Eval(W)
			idx := []int{m[a], m[b]}
			lt, eq, gt, le, ge, sp := get(a, b, 0), get(a, b, 1), get(a, b, 2), get(a, b, 3), get(a, b, 4), get(a, b, 5)
			r.c.Outcome(fam + ":" + lt + eq + gt)
			r.c.Nontrivial(5)
			r.c.Validated(5)
			l, ok1 := tern(lt)
			e, ok2 := tern(eq)
			g, ok3 := tern(gt)
			if !ok1 || !ok2 || !ok3 {
				r.violateT("trichotomy", "non-boolean", idx, "booleans", lt+","+eq+","+gt, conflict(a, b))
				continue
			}
			cnt := 0
			for _, t := range []bool{l, e, g} {
				if t {
					cnt++
				}
			}
			if cnt != 1 {
				r.violateT("trichotomy", "not-exactly-one", idx, "exactly one of x<y, x==y, x>y", fmt.Sprintf("x<y:%s x==y:%s x>y:%s", lt, eq, gt), conflict(a, b))
			}
			if le != fmt.Sprint(l || e) {
				r.violateT("le-ge-union", "le", idx, fmt.Sprintf("x<=y is %v (x<y:%s x==y:%s)", l || e, lt, eq), le, conflict(a, b))
			}
			if ge != fmt.Sprint(g || e) {
				r.violateT("le-ge-union", "ge", idx, fmt.Sprintf("x>=y is %v (x>y:%s x==y:%s)", g || e, gt, eq), ge, conflict(a, b))
			}
			ps := get(b, a, 5)
			want := map[string]string{"-1": "1", "0": "0", "1": "-1"}[sp]
			if want == "" || ps != want {
				r.violateT("spaceship-antisymmetry", "not-negation", idx, "x<=>y in {-1,0,1} and y<=>x its negation", "x<=>y: "+sp+", y<=>x: "+ps, conflict(a, b))
			} else {
				// <=> agrees with the relational operators
				if (sp == "-1") != l || (sp == "0") != e || (sp == "1") != g {
					r.violateT("spaceship-consistency", "disagrees-with-relations", idx, "x<=>y = "+sp+" matches <,==,>", fmt.Sprintf("x<y:%s x==y:%s x>y:%s", lt, eq, gt), conflict(a, b))
				}
			}
			// max/min: the result is the operand the order designates; on a tie either operand
			pick := func(res string, first, second bool) bool {
				isX, isY := strings.HasPrefix(res, "[true"), strings.HasSuffix(res, "true]")
				switch {
				case first:
					return isX
				case second:
					return isY
				}
				return isX || isY
			}
			if mx := get(a, b, 6); !pick(mx, g, l) {
				r.violateT("max-min", "max", idx, fmt.Sprintf("[x,y].max is the larger by > (x>y:%s y>x:%s); [max==x, max==y]", gt, lt), mx, conflict(a, b))
			}
			if mn := get(a, b, 7); !pick(mn, l, g) {
				r.violateT("max-min", "min", idx, fmt.Sprintf("[x,y].min is the smaller by < (x<y:%s y<x:%s); [min==x, min==y]", lt, gt), mn, conflict(a, b))
			}
		}
	}
	// triples: transitivity from the pair table, between?/clip by evaluation
	var tb []string
	var tidx [][3]int
	k := 0
	for a := 0; a < n; a++ {
		for b := 0; b < n; b++ {
			for c2 := 0; c2 < n; c2++ {
				k++
				if !mine(k) {
					continue
				}
				tidx = append(tidx, [3]int{a, b, c2})
				x, y, z := name(m[a]), name(m[b]), name(m[c2])
				tb = append(tb, fmt.Sprintf("%s.between?(%s, %s)", x, y, z), fmt.Sprintf("{|r| [r == %s, r == %s, r == %s]}(%s.clip(%s, %s))", x, y, z, x, y, z))
			}
		}
	}
	tobs := tk.Queries(r.c, fullPrelude(r.p), tb)
	for q, t := range tidx {
		a, b, c2 := t[0], t[1], t[2]
		if tobs[2*q].Kind == "skipped" || obs[(a*n+b)*W].Kind == "skipped" {
			continue
		}
		idx := []int{m[a], m[b], m[c2]}
		r.c.Eval(2)
		r.c.Nontrivial(2) // two expressions evaluated for this triple (the pair results are counted with the pairs)
		r.c.Validated(2)
		if get(a, b, 0) == "true" && get(b, c2, 0) == "true" && get(a, c2, 0) != "true" {
			r.violateT("transitivity", "lt", idx, "x<y and y<z imply x<z", "x<z: "+get(a, c2, 0), conflict(a, b) || conflict(b, c2) || conflict(a, c2))
		}
		if get(a, b, 3) == "true" && get(b, c2, 3) == "true" && get(a, c2, 3) != "true" {
			r.violateT("transitivity", "le", idx, "x<=y and y<=z imply x<=z", "x<=z: "+get(a, c2, 3), conflict(a, b) || conflict(b, c2) || conflict(a, c2))
		}
		// x.between?(y,z) == (y<=x && x<=z)
		bw := res(tobs[2*q])
		wantB := get(b, a, 3) == "true" && get(a, c2, 3) == "true"
		// between? returns the deciding operand of &&: accept any truthy/falsy boolean rendering
		if bw != fmt.Sprint(wantB) {
			r.violateT("between", "disagrees-with-le", idx, fmt.Sprintf("x.between?(y,z) is %v (y<=x:%s x<=z:%s)", wantB, get(b, a, 3), get(a, c2, 3)), bw, conflict(a, b) || conflict(b, c2) || conflict(a, c2))
		}
		// clip only when y <= z
		if get(b, c2, 3) == "true" {
			cl := res(tobs[2*q+1])
			parts := strings.Split(strings.Trim(cl, "[]"), ", ")
			okClip := false
			if len(parts) == 3 {
				isX, isY, isZ := parts[0] == "true", parts[1] == "true", parts[2] == "true"
				switch {
				case get(a, b, 0) == "true": // x < y
					okClip = isY
				case get(a, c2, 2) == "true": // x > z
					okClip = isZ
				default:
					okClip = isX || (isY && get(a, b, 2) != "true") || (isZ && get(a, c2, 0) != "true")
				}
			}
			if !okClip {
				r.violateT("clip", "disagrees-with-order", idx, "x.clip(y,z) is y if x<y, z if x>z, else x (ties: either); [r==x, r==y, r==z]", cl, conflict(a, b) || conflict(b, c2) || conflict(a, c2))
			}
		}
	}
}

func run(c *core.Ctx) {
	harnessSyntax = func(msg string) { c.HarnessError("a generated comparison or the pool prelude does not parse: %s", msg) }
	p := pool(true)
	c.Note("pool_size", len(p))
	r := &runner{c: c, p: p}
	var pairs [][2]int
	k := 0
	for i := range p {
		for j := i; j < len(p); j++ {
			k++
			if c.Mine(k) {
				pairs = append(pairs, [2]int{i, j})
			}
		}
	}
	c.Sample(map[string]string{"law": "symmetry/negation", "x": p[1].Src, "y": p[5].Src, "queries": "x == y, y == x, x != y, y != x"})
	r.eqLaws(pairs)
	for _, fam := range []string{"int", "float", "str"} {
		r.orderLaws(fam, c.Mine)
	}
	c.Sample(map[string]string{"law": "trichotomy/le-ge/spaceship/max-min/transitivity/between?/clip", "family": "int", "members": "0 1 -1 2 7 true false IB.new(1) IB.new(2) IB2.new(1) MaxInt64"})
}

func replay(c *core.Ctx, raw json.RawMessage) {
	var t tcase
	if err := json.Unmarshal(raw, &t); err != nil {
		c.HarnessError("bad case: %v", err)
		return
	}
	r := &runner{c: c, p: t.Vals}
	switch t.Law {
	case "symmetry", "negation", "reflexivity", "eq":
		var pairs [][2]int
		for i := range t.Vals {
			for j := i; j < len(t.Vals); j++ {
				pairs = append(pairs, [2]int{i, j})
			}
		}
		r.eqLaws(pairs)
	default:
		fam := t.Vals[0].Fam
		r.orderLaws(fam, func(int) bool { return true })
	}
}
