// Package c02: expressions group by the documented precedence table (property C02).
// Every generated token sequence is parsed by the real parser and by a reference Pratt parser
// whose level table is read from docs/reference/operators.md at check time; in addition the
// parentheses the table implies are re-inserted into the source, which must not change the parse.
package c02

import (
	"encoding/json"
	"fmt"
	"os"
	"os/exec"
	"panmc/internal/tk"
	"path/filepath"
	"regexp"
	"strings"

	"panmc/internal/core"
	"panmc/internal/panrun"
)

func init() {
	core.Register(&core.Check{
		ID:    "C02",
		Level: "model_checking",
		Rule: "all ordered pairs/triples (thorough: 4-chains over level representatives) of the 23 infix operators x operand shapes, plus prefix/chain/if/assign/jump mixes, " +
			"each parsed by the real parser and by a reference precedence-climbing parser generated from the table in docs/reference/operators.md; " +
			"F9: 16 first statements x 120 second lines that begin with a name starting with a reserved word x 7 separators: both statements must parse as each does alone; " +
			"F10: every ordered pair of infix operators and 6 statement forms per operator as a one-liner run by the real binary with -p: it prints what the one-liner gives as a program of its own; " +
			"non-trivial = the expression contains at least two constructs whose relative grouping the table decides; distinct = distinct source text; round 10: F12 - expressions whose operands are literals (10 kinds) group like the same expressions over identifiers (every ordered operator pair x 3 layouts); F13 - a call or index after something that ends with `)` or `]` applies to that result (5 bases x every sequence of 2-3 postfix operations, compared with the explicitly parenthesised spelling).; round 8: F9 also states what each of 240 second lines must parse to on its own (a keyword-prefixed name is one identifier); F11: `-LIT OP x`, `(-LIT) OP x` and `-k OP x` must group alike for every operator, 4 literal kinds, both operand positions and every following operator.",
		Assumptions: []string{
			"ast.Program.String() renders the grouping faithfully (it is the observable named by the property)",
			"forms whose grouping the table does not determine are not generated (see DESIGN.md C02 don't-cares)",
		},
		Run:    run,
		Replay: replay,
	})
}

// ---------------------------------------------------------------- level table from the doc

type levels struct {
	infix                                               map[string]int
	ternary, jump, rassign, assign, chain, prefix, call int
	order                                               []string
}

func readLevels() (*levels, error) {
	repo := os.Getenv("PANMC_REPO")
	if repo == "" {
		repo = "/repo"
	}
	b, err := os.ReadFile(filepath.Join(repo, "docs/reference/operators.md"))
	if err != nil {
		return nil, err
	}
	s := string(b)
	i := strings.Index(s, "## Precedence")
	if i < 0 {
		return nil, fmt.Errorf("no Precedence section in operators.md")
	}
	s = s[i:]
	if j := strings.Index(s[3:], "\n## "); j >= 0 {
		s = s[:j+3]
	}
	var rows []string
	for _, ln := range strings.Split(s, "\n") {
		ln = strings.TrimSpace(ln)
		if !strings.HasPrefix(ln, "|") || strings.HasPrefix(ln, "|-") || strings.HasPrefix(ln, "|Precedence") {
			continue
		}
		rows = append(rows, strings.Trim(ln, "|"))
	}
	if len(rows) < 10 {
		return nil, fmt.Errorf("precedence table has only %d rows", len(rows))
	}
	lv := &levels{infix: map[string]int{}}
	tick := regexp.MustCompile("`([^`]+)`|<code>([^<]+)</code>")
	n := len(rows)
	for idx, row := range rows {
		level := n - idx // highest row gets the largest number
		lv.order = append(lv.order, row)
		low := strings.ToLower(row)
		switch {
		case strings.Contains(low, "indexing"), strings.Contains(low, "grouping"):
			continue
		case strings.Contains(low, "calling"):
			lv.call = level
			continue
		case strings.Contains(low, "prefix"):
			lv.prefix = level
			continue
		case strings.Contains(low, "chain"):
			lv.chain = level
			continue
		case strings.Contains(low, "left assign"):
			lv.assign = level
			continue
		case strings.Contains(low, "right assign"):
			lv.rassign = level
			continue
		case strings.Contains(low, "jump"):
			lv.jump = level
			continue
		case strings.Contains(low, "ternary"):
			lv.ternary = level
			continue
		}
		for _, m := range tick.FindAllStringSubmatch(row, -1) {
			op := m[1]
			if op == "" {
				op = m[2]
			}
			op = strings.ReplaceAll(op, "&#124;", "|")
			lv.infix[op] = level
		}
	}
	if lv.ternary == 0 || lv.jump == 0 || lv.rassign == 0 || lv.assign == 0 || lv.chain == 0 || lv.prefix == 0 {
		return nil, fmt.Errorf("precedence table lacks a structural row: %+v", lv)
	}
	if len(lv.infix) != 23 {
		return nil, fmt.Errorf("expected 23 infix operators in the table, found %d", len(lv.infix))
	}
	return lv, nil
}

// ---------------------------------------------------------------- tokens and reference parser

type tok struct {
	K string `json:"k"` // atom | infix | prefix | chain | if | else | assign | cassign | rassign | jump
	S string `json:"s"` // source text
	R string `json:"r"` // rendering (atoms, chains)
}

type node struct {
	k       string // atom prefix infix chain if assign jump jumpif
	s, r    string
	a, b, c *node
}

type refParser struct {
	lv   *levels
	toks []tok
	pos  int
	err  string
}

func (p *refParser) peek() *tok {
	if p.pos < len(p.toks) {
		return &p.toks[p.pos]
	}
	return nil
}

func (p *refParser) stmt() *node {
	if t := p.peek(); t != nil && t.K == "jump" {
		p.pos++
		val := p.expr(p.lv.jump + 1)
		n := &node{k: "jump", s: t.S, a: val}
		if t2 := p.peek(); t2 != nil && t2.K == "if" {
			p.pos++
			cond := p.expr(p.lv.ternary + 1)
			n = &node{k: "jumpif", a: n, b: cond}
		}
		return n
	}
	return p.expr(0)
}

func (p *refParser) primary() *node {
	t := p.peek()
	if t == nil {
		p.err = "unexpected end"
		return &node{k: "atom"}
	}
	p.pos++
	switch t.K {
	case "atom":
		return &node{k: "atom", s: t.S, r: t.R}
	case "prefix":
		op := p.primary()
		// indexing/calling/grouping are inside atoms; nothing else binds tighter than a prefix operator
		return &node{k: "prefix", s: t.S, a: op}
	}
	p.err = "unexpected token " + t.S
	return &node{k: "atom"}
}

func (p *refParser) expr(min int) *node {
	left := p.primary()
	for p.err == "" {
		t := p.peek()
		if t == nil {
			break
		}
		switch t.K {
		case "infix":
			l := p.lv.infix[t.S]
			if l < min {
				return left
			}
			p.pos++
			right := p.expr(l + 1)
			left = &node{k: "infix", s: t.S, a: left, b: right}
		case "chain":
			if p.lv.chain < min {
				return left
			}
			p.pos++
			left = &node{k: "chain", s: t.S, r: t.R, a: left}
		case "assign", "cassign":
			if p.lv.assign < min {
				return left
			}
			p.pos++
			right := p.expr(p.lv.assign) // right associative
			if t.K == "assign" {
				left = &node{k: "assign", a: left, b: right}
			} else {
				op := strings.TrimSuffix(t.S, "=")
				left = &node{k: "assign", a: left, b: &node{k: "infix", s: op, a: left, b: right}, c: &node{k: "cassign", s: t.S, b: right}}
			}
		case "rassign":
			if p.lv.rassign < min {
				return left
			}
			p.pos++
			id := p.primary()
			left = &node{k: "assign", a: id, b: left, c: &node{k: "rassign"}}
		case "if":
			if p.lv.ternary < min {
				return left
			}
			p.pos++
			cond := p.expr(p.lv.ternary + 1)
			var alt *node
			if e := p.peek(); e != nil && e.K == "else" {
				p.pos++
				alt = p.expr(p.lv.ternary + 1)
			}
			left = &node{k: "if", a: left, b: cond, c: alt}
		default:
			return left
		}
	}
	return left
}

// render gives the ast.String() form.
func (n *node) render() string {
	switch n.k {
	case "atom":
		return n.r
	case "prefix":
		return "(" + n.s + n.a.render() + ")"
	case "infix":
		return "(" + n.a.render() + " " + n.s + " " + n.b.render() + ")"
	case "chain":
		return n.a.render() + n.r
	case "assign":
		return "(" + n.a.render() + " := " + n.b.render() + ")"
	case "if":
		if n.c == nil {
			return "(" + n.a.render() + " if " + n.b.render() + ")"
		}
		return "(" + n.a.render() + " if " + n.b.render() + " else " + n.c.render() + ")"
	case "jump":
		return n.s + " " + n.a.render()
	case "jumpif":
		return n.a.render() + " if " + n.b.render()
	}
	return "?"
}

// paren gives source text with every implied parenthesis written out.
func (n *node) paren() string {
	switch n.k {
	case "atom":
		return n.s
	case "prefix":
		return "(" + n.s + n.a.paren() + ")"
	case "infix":
		return "(" + n.a.paren() + " " + n.s + " " + n.b.paren() + ")"
	case "chain":
		return n.a.paren() + n.s
	case "assign":
		if n.c != nil && n.c.k == "cassign" {
			return "(" + n.a.paren() + " " + n.c.s + " " + n.c.b.paren() + ")"
		}
		if n.c != nil && n.c.k == "rassign" {
			return "(" + n.b.paren() + " => " + n.a.paren() + ")"
		}
		return "(" + n.a.paren() + " := " + n.b.paren() + ")"
	case "if":
		if n.c == nil {
			return "(" + n.a.paren() + " if " + n.b.paren() + ")"
		}
		return "(" + n.a.paren() + " if " + n.b.paren() + " else " + n.c.paren() + ")"
	case "jump":
		return n.s + " " + n.a.paren()
	case "jumpif":
		return n.a.paren() + " if " + n.b.paren()
	}
	return "?"
}

func source(toks []tok) string {
	var sb strings.Builder
	for i, t := range toks {
		switch t.K {
		case "chain":
			sb.WriteString(t.S)
			continue
		case "prefix":
			if i > 0 {
				sb.WriteString(" ")
			}
			sb.WriteString(t.S)
			continue
		}
		if i > 0 && toks[i-1].K != "prefix" {
			sb.WriteString(" ")
		}
		sb.WriteString(t.S)
	}
	return sb.String()
}

// ---------------------------------------------------------------- case generation

type tcase struct {
	Family string `json:"family"`
	Toks   []tok  `json:"toks"`
}

func atom(s, r string) tok { return tok{"atom", s, r} }
func infix(s string) tok   { return tok{K: "infix", S: s} }
func prefix(s string) tok  { return tok{K: "prefix", S: s} }
func chain(s, r string) tok {
	return tok{"chain", s, r}
}

var shapes = []func(name string) tok{
	func(n string) tok { return atom(n, n) },
	func(n string) tok { return atom("1", "1") },
	func(n string) tok { return atom(n+"(1)", n+".call(1)") },
	func(n string) tok { return atom(n+"[0]", n+".at([0])") },
	func(n string) tok { return atom("("+n+")", n) },
}

var chains = []tok{
	chain(".p", ".p()"), chain("@q", "@q()"), chain("$r", "$r()"), chain("&.p", "&.p()"), chain("~@q", "~@q()"), chain("=$r", "=$r()"),
	chain(".p(1)", ".p(1)"), chain("@(2)q", "@(2)q()"), chain("$(0)+", "$(0)+()"), chain(".{|x| x}", ".{|x| x}"), chain("@^f", "@^f()"),
	// property names that end with a mark (predicates, bang methods)
	chain(".ok?", ".ok?()"), chain(".go!", ".go!()"), chain(".kindOf?(1)", ".kindOf?(1)"), chain("@even?", "@even?()"),
	// chains continued on the next line (`|` prefix) are separate lexer tokens with their own precedence entries
	chain("\n|.p", ".p()"), chain("\n|@q(1)", "@q(1)"), chain("\n  # note\n  |&.p", "&.p()"), chain("\n|~$r", "~$r()"),
}

var prefixes = []string{"!", "+", "-", "/~", "*"}
var cassigns = []string{"+=", "-=", "*=", "/=", "//=", "%=", "**=", "<<=", ">>=", "/&=", "/|=", "/^=", "&&=", "||="}
var jumps = []string{"return", "raise", "yield", "defer"}

func infixOps(lv *levels) []string {
	// deterministic order: by level descending then text
	var ops []string
	for op := range lv.infix {
		ops = append(ops, op)
	}
	for i := 0; i < len(ops); i++ {
		for j := i + 1; j < len(ops); j++ {
			if lv.infix[ops[j]] > lv.infix[ops[i]] || (lv.infix[ops[j]] == lv.infix[ops[i]] && ops[j] < ops[i]) {
				ops[i], ops[j] = ops[j], ops[i]
			}
		}
	}
	return ops
}

func levelReps(lv *levels, ops []string) []string {
	seen := map[int]bool{}
	var reps []string
	for _, op := range ops {
		if !seen[lv.infix[op]] {
			seen[lv.infix[op]] = true
			reps = append(reps, op)
		}
	}
	return reps
}

// deep is set for the thorough tier (5-operator chains over the level representatives in addition)
var deep bool

func generate(lv *levels, thorough bool, emit func(tcase)) {
	ops := infixOps(lv)
	reps := levelReps(lv, ops)
	names := []string{"a", "b", "c", "d", "e"}
	id := func(i int) tok { return shapes[0](names[i]) }
	// F1: all ordered pairs x operand shapes
	for _, o1 := range ops {
		for _, o2 := range ops {
			if thorough {
				for s0 := range shapes {
					for s1 := range shapes {
						for s2 := range shapes {
							emit(tcase{"F1", []tok{shapes[s0]("a"), infix(o1), shapes[s1]("b"), infix(o2), shapes[s2]("c")}})
						}
					}
				}
			} else {
				emit(tcase{"F1", []tok{id(0), infix(o1), id(1), infix(o2), id(2)}})
				for pos := 0; pos < 3; pos++ {
					for s := 1; s < len(shapes); s++ {
						t := []tok{id(0), infix(o1), id(1), infix(o2), id(2)}
						t[pos*2] = shapes[s](names[pos])
						emit(tcase{"F1", t})
					}
				}
			}
		}
	}
	// F2: all ordered triples
	for _, o1 := range ops {
		for _, o2 := range ops {
			for _, o3 := range ops {
				emit(tcase{"F2", []tok{id(0), infix(o1), id(1), infix(o2), id(2), infix(o3), id(3)}})
			}
		}
	}
	if thorough {
		for _, o1 := range reps {
			for _, o2 := range reps {
				for _, o3 := range reps {
					for _, o4 := range reps {
						emit(tcase{"F2x4", []tok{id(0), infix(o1), id(1), infix(o2), id(2), infix(o3), id(3), infix(o4), id(4)}})
						if deep {
							for _, o5 := range reps {
								emit(tcase{"F2x5", []tok{id(0), infix(o1), id(1), infix(o2), id(2), infix(o3), id(3), infix(o4), id(4), infix(o5), atom("f", "f")}})
							}
						}
					}
				}
			}
		}
	}
	// F3: prefix x infix on either side, prefix x chain/call/index
	f3ops := reps
	if thorough {
		f3ops = ops
	}
	for _, p := range prefixes {
		for _, o := range f3ops {
			emit(tcase{"F3", []tok{prefix(p), id(0), infix(o), id(1)}})
			emit(tcase{"F3", []tok{id(0), infix(o), prefix(p), id(1)}})
			emit(tcase{"F3", []tok{prefix(p), id(0), infix(o), prefix(p), id(1)}})
			for _, ch := range chains {
				emit(tcase{"F3", []tok{prefix(p), id(0), ch, infix(o), id(1)}})
				emit(tcase{"F3", []tok{id(0), infix(o), prefix(p), id(1), ch}})
			}
		}
		for _, ch := range chains {
			emit(tcase{"F3", []tok{prefix(p), id(0), ch}})
			emit(tcase{"F3", []tok{prefix(p), id(0), ch, ch}})
		}
		for s := 1; s < len(shapes); s++ {
			if p == "-" && s == 1 {
				continue // -1 folds into the literal (don't-care)
			}
			if p == "+" && s == 1 {
				continue
			}
			emit(tcase{"F3", []tok{prefix(p), shapes[s]("a")}})
			emit(tcase{"F3", []tok{prefix(p), shapes[s]("a"), chains[0]}})
		}
		for _, p2 := range prefixes {
			if p == "*" || p2 == "*" {
				continue
			}
			emit(tcase{"F3", []tok{prefix(p), prefix(p2), id(0)}})
		}
	}
	// F4: chains on either side of every level
	for _, o := range ops {
		for _, ch := range chains {
			emit(tcase{"F4", []tok{id(0), ch, infix(o), id(1)}})
			emit(tcase{"F4", []tok{id(0), infix(o), id(1), ch}})
			emit(tcase{"F4", []tok{id(0), ch, infix(o), id(1), ch}})
			for _, ch2 := range chains[:3] {
				emit(tcase{"F4", []tok{id(0), infix(o), id(1), ch, ch2}})
			}
		}
	}
	for s := range shapes {
		for _, ch := range chains {
			emit(tcase{"F4", []tok{shapes[s]("a"), ch}})
		}
	}
	// F5: if/else with one operator per level in then/cond/else; nested ifs
	tIf, tElse := tok{K: "if", S: "if"}, tok{K: "else", S: "else"}
	bin := func(i int, o string) []tok { return []tok{id(i), infix(o), id(i + 1)} }
	cat := func(parts ...[]tok) []tok {
		var r []tok
		for _, p := range parts {
			r = append(r, p...)
		}
		return r
	}
	one := func(t tok) []tok { return []tok{t} }
	for _, o := range ops {
		emit(tcase{"F5", cat(bin(0, o), one(tIf), one(id(2)))})
		emit(tcase{"F5", cat(one(id(0)), one(tIf), bin(1, o))})
		emit(tcase{"F5", cat(bin(0, o), one(tIf), one(id(2)), one(tElse), one(id(3)))})
		emit(tcase{"F5", cat(one(id(0)), one(tIf), bin(1, o), one(tElse), one(id(3)))})
		emit(tcase{"F5", cat(one(id(0)), one(tIf), one(id(1)), one(tElse), bin(2, o))})
		for _, o2 := range reps {
			emit(tcase{"F5", cat(bin(0, o), one(tIf), bin(2, o2), one(tElse), one(id(4)))})
			emit(tcase{"F5", cat(one(id(0)), one(tIf), bin(1, o), one(tElse), bin(3, o2))})
		}
	}
	for _, ch := range chains {
		emit(tcase{"F5", cat(one(id(0)), one(ch), one(tIf), one(id(1)), one(ch), one(tElse), one(id(2)), one(ch))})
	}
	for _, p := range prefixes {
		emit(tcase{"F5", cat([]tok{prefix(p), id(0)}, one(tIf), []tok{prefix(p), id(1)}, one(tElse), []tok{prefix(p), id(2)})})
	}
	// nested ternaries (equal level groups left-to-right)
	emit(tcase{"F5", cat(one(id(0)), one(tIf), one(id(1)), one(tElse), one(id(2)), one(tIf), one(id(3)), one(tElse), one(id(4)))})
	emit(tcase{"F5", cat(one(id(0)), one(tIf), one(id(1)), one(tIf), one(id(2)))})
	emit(tcase{"F5", cat(one(id(0)), one(tIf), one(id(1)), one(tElse), one(id(2)), one(tIf), one(id(3)))})
	// F6: assignments
	tAssign, tR := tok{K: "assign", S: ":="}, tok{K: "rassign", S: "=>"}
	for _, o := range ops {
		emit(tcase{"F6", cat(one(id(0)), one(tAssign), bin(1, o))})
		emit(tcase{"F6", cat(bin(0, o), one(tR), one(id(2)))})
		for _, ca := range cassigns {
			emit(tcase{"F6", cat(one(id(0)), one(tok{K: "cassign", S: ca}), bin(1, o))})
		}
	}
	for _, ca := range cassigns {
		emit(tcase{"F6", cat(one(id(0)), one(tok{K: "cassign", S: ca}), one(id(1)), one(tAssign), one(id(2)))})
		emit(tcase{"F6", cat(one(id(0)), one(tAssign), one(id(1)), one(tok{K: "cassign", S: ca}), one(id(2)))})
		emit(tcase{"F6", cat(one(id(0)), one(tok{K: "cassign", S: ca}), one(id(1)), one(tR), one(id(2)))})
		emit(tcase{"F6", cat(one(id(0)), one(tok{K: "cassign", S: ca}), one(id(1)), one(tIf), one(id(2)))})
	}
	emit(tcase{"F6", cat(one(id(0)), one(tAssign), one(id(1)), one(tAssign), one(id(2)))})
	emit(tcase{"F6", cat(one(id(0)), one(tAssign), one(id(1)), one(tAssign), one(id(2)), one(tAssign), one(id(3)))})
	emit(tcase{"F6", cat(one(id(0)), one(tR), one(id(1)), one(tR), one(id(2)))})
	emit(tcase{"F6", cat(one(id(0)), one(tAssign), one(id(1)), one(tR), one(id(2)))})
	emit(tcase{"F6", cat(one(id(0)), one(tAssign), one(id(1)), one(tIf), one(id(2)))})
	emit(tcase{"F6", cat(one(id(0)), one(tAssign), one(id(1)), one(tIf), one(id(2)), one(tElse), one(id(3)))})
	emit(tcase{"F6", cat(one(id(0)), one(tIf), one(id(1)), one(tAssign), one(id(2)), one(tElse), one(id(3)))})
	emit(tcase{"F6", cat(one(id(0)), one(tIf), one(id(1)), one(tElse), one(id(2)), one(tAssign), one(id(3)))})
	emit(tcase{"F6", cat(one(id(0)), one(tR), one(id(1)), one(tIf), one(id(2)))})
	emit(tcase{"F6", cat(one(id(0)), one(tIf), one(id(1)), one(tElse), one(id(2)), one(tR), one(id(3)))})
	for _, ch := range chains {
		emit(tcase{"F6", cat(one(id(0)), one(tAssign), one(id(1)), one(ch))})
		emit(tcase{"F6", cat(one(id(0)), one(ch), one(tR), one(id(1)))})
	}
	for _, p := range prefixes {
		emit(tcase{"F6", cat(one(id(0)), one(tAssign), []tok{prefix(p), id(1)})})
		emit(tcase{"F6", cat([]tok{prefix(p), id(0)}, one(tR), one(id(1)))})
	}
	// F7: jump statements
	for _, j := range jumps {
		tj := tok{K: "jump", S: j}
		for _, o := range ops {
			emit(tcase{"F7", cat(one(tj), bin(0, o))})
			emit(tcase{"F7", cat(one(tj), bin(0, o), one(tIf), one(id(2)))})
			emit(tcase{"F7", cat(one(tj), one(id(0)), one(tIf), bin(1, o))})
		}
		emit(tcase{"F7", cat(one(tj), one(id(0)), one(tAssign), one(id(1)))})
		emit(tcase{"F7", cat(one(tj), one(id(0)), one(tAssign), one(id(1)), one(tIf), one(id(2)))})
		emit(tcase{"F7", cat(one(tj), one(id(0)), one(tR), one(id(1)))})
		emit(tcase{"F7", cat(one(tj), one(id(0)), one(tR), one(id(1)), one(tIf), one(id(2)))})
		emit(tcase{"F7", cat(one(tj), one(id(0)), one(tIf), one(id(1)), one(tAssign), one(id(2)))})
		for _, ca := range cassigns[:3] {
			emit(tcase{"F7", cat(one(tj), one(id(0)), one(tok{K: "cassign", S: ca}), one(id(1)), one(tIf), one(id(2)))})
		}
		for _, ch := range chains {
			emit(tcase{"F7", cat(one(tj), one(id(0)), one(ch))})
			emit(tcase{"F7", cat(one(tj), one(id(0)), one(ch), one(tIf), one(id(1)), one(ch))})
		}
		for _, p := range prefixes {
			emit(tcase{"F7", cat(one(tj), []tok{prefix(p), id(0)}, one(tIf), []tok{prefix(p), id(1)})})
		}
	}
}

// ---------------------------------------------------------------- statements next to each other

// A statement ends at its line break: a following line that begins with a name which merely starts with a
// reserved word (elsewhere, ifx, returned ...) is the next statement, whatever the first one was (in particular
// an if without else). Both statements must come out exactly as each parses alone.
func checkStatementPairs(c *core.Ctx) {
	firsts := []string{"a if b", "a if b else c", "a", "f(a)", "a + b", "x := a if b", "return a if b", "yield a if b", "raise a if b", "defer a if b", "a.p", "x := (a if b)", "a if b # note", "a if b  ", "-a", "a if !b"}
	var seconds []string
	absolute := map[string]string{} // what a second line must parse to on its own (the name is ONE identifier)
	for _, kw := range []string{"if", "else", "return", "yield", "raise", "defer"} {
		for _, suf := range []string{"where", "_val", "1", "X", "_", "_1", "2x", "_x?"} {
			n := kw + suf
			seconds = append(seconds, n+" := 2", n, n+" + 1", n+".p", n+"(1)")
			absolute[n+" := 2"], absolute[n], absolute[n+" + 1"], absolute[n+".p"], absolute[n+"(1)"] = "("+n+" := 2)", n, "("+n+" + 1)", n+".p()", n+".call(1)"
		}
	}
	seps := []string{"\n", "\n\n", "\n# c\n", "\r\n", " \n ", "\n\t", "; ", "\r", "\r\r", " \r "}
	alone := func(src string) (string, string) {
		n, o := panrun.Parse(src + "\n")
		if o != nil {
			return "", o.Kind + ": " + o.ErrMsg + o.Panic
		}
		if len(n.Stmts) != 1 {
			return "", fmt.Sprintf("parsed into %d statements", len(n.Stmts))
		}
		return n.Stmts[0].String(), ""
	}
	k := 0
	for _, f := range firsts {
		for _, s2 := range seconds {
			k++
			if !c.Mine(k) {
				continue
			}
			w1, e1 := alone(f)
			w2, e2 := alone(s2)
			if e1 != "" {
				c.HarnessError("statement does not parse alone: %q %s", f, e1)
				return
			}
			if e2 != "" || w2 != absolute[s2] {
				c.Eval(1)
				c.Validated(1)
				c.Violation(core.Violation{Key: "F9/keyword-prefixed-name-not-one-identifier", Case: core.JSON(tcase{Family: "F9:" + s2}), Desc: fmt.Sprintf("%q", s2), Expected: absolute[s2], Observed: w2 + e2})
				continue
			}
			for _, sep := range seps {
				if strings.Contains(f, "#") && sep == "; " {
					continue
				}
				src := f + sep + s2
				c.Eval(1)
				c.Nontrivial(1)
				c.Validated(1)
				got, e := "", ""
				n, o := panrun.Parse(src + "\n")
				if o != nil {
					e = o.Kind + ": " + o.ErrMsg + o.Panic
				} else {
					var parts []string
					for _, st := range n.Stmts {
						parts = append(parts, st.String())
					}
					got = strings.Join(parts, " ;; ")
				}
				want := w1 + " ;; " + w2
				c.Outcome("F9:" + map[bool]string{true: "ok", false: "differs"}[e == "" && got == want])
				if e != "" || got != want {
					c.Violation(core.Violation{Key: "F9/statements-fused-or-rejected", Case: core.JSON(tcase{Family: "F9:" + src}), Desc: fmt.Sprintf("%q", src), Expected: want, Observed: got + e})
				}
			}
		}
	}
}

// ---------------------------------------------------------------- one-liners given to the command line

// `-p -e SRC` evaluates SRC once per input line (the line is `\`) and prints the value. SRC is a whole program of
// its own: its grouping is the one it has as the body of a function called with the line, whatever text the
// command line wraps around it. Every ordered pair of infix operators and a few statement forms are run by the
// real binary both ways and must print the same.
func checkOneLiners(c *core.Ctx, lv *levels) {
	cli := os.Getenv("PANMC_CLI")
	if cli == "" {
		c.HarnessError("PANMC_CLI is not set")
		return
	}
	ops := infixOps(lv)
	var srcs []string
	for _, o1 := range ops {
		for _, o2 := range ops {
			srcs = append(srcs, fmt.Sprintf("\\.I %s 2 %s 3", o1, o2))
		}
		srcs = append(srcs, fmt.Sprintf("x := \\.I %s 2", o1), fmt.Sprintf("7 if \\.I %s 2 else 8", o1), fmt.Sprintf("-\\.I %s 2", o1), fmt.Sprintf("!\\.I %s 2", o1),
			fmt.Sprintf("y := 5; \\.I %s y", o1), fmt.Sprintf("\\.I %s 2 => z", o1))
	}
	srcs = append(srcs, "\\", "\\.I", "\\.I.S + \\", "[\\.I, 2]", "{a: \\.I}", "\\.I if true", "return \\.I if true; 9")
	run := func(stdin string, args ...string) string {
		cmd := exec.Command("timeout", append([]string{"30", cli}, args...)...)
		cmd.Stdin = strings.NewReader(stdin)
		var so, se strings.Builder
		cmd.Stdout, cmd.Stderr = &so, &se
		cmd.Run()
		return so.String() + "|" + strings.SplitN(se.String(), "\n", 2)[0]
	}
	tk.Sharded(c, len(srcs), func(i int) {
		src := srcs[i]
		c.Eval(1)
		c.Nontrivial(1)
		c.Validated(1)
		want := run("", "-e", "{|| "+src+"}(\"3\").p")
		got := run("3\n", "-p", "-e", src)
		if want == "nil\n|" {
			want = "|" // the printing chain of -p drops a nil value
		}
		c.Outcome("F10:" + map[bool]string{true: "ok", false: "differs"}[got == want])
		if got != want {
			c.Violation(core.Violation{Key: "F10/one-liner-regrouped", Case: core.JSON(tcase{Family: "F10:" + src}), Desc: "-p -e '" + src + "' with the input line 3", Expected: fmt.Sprintf("%q (what the one-liner gives as a program of its own)", want), Observed: fmt.Sprintf("%q", got)})
		}
	})
}

// ---------------------------------------------------------------- negative number literals as operands

// A prefix minus binds tighter than every infix operator whatever its operand is: `-2 OP x` groups like `-k OP x`
// (the parser folds -2 into one literal, the only difference allowed), and writing the parentheses changes nothing.
func checkNegativeLiterals(c *core.Ctx, lv *levels) {
	ops := infixOps(lv)
	one := func(src string) (string, string) {
		n, o := panrun.Parse(src + "\n")
		if o != nil {
			return "", o.Kind + ": " + o.ErrMsg + o.Panic
		}
		if len(n.Stmts) != 1 {
			return "", fmt.Sprintf("parsed into %d statements", len(n.Stmts))
		}
		return n.Stmts[0].String(), ""
	}
	k := 0
	for _, lit := range []string{"2", "1.5", "0x1f", "1e3"} {
		for _, o1 := range ops {
			shapes := [][3]string{
				{"-" + lit + " " + o1 + " x", "(-" + lit + ") " + o1 + " x", "-k " + o1 + " x"},
				{"x " + o1 + " -" + lit, "x " + o1 + " (-" + lit + ")", "x " + o1 + " -k"},
			}
			for _, o2 := range ops {
				shapes = append(shapes, [3]string{"-" + lit + " " + o1 + " 3 " + o2 + " x", "(-" + lit + ") " + o1 + " 3 " + o2 + " x", "-k " + o1 + " 3 " + o2 + " x"},
					[3]string{"y " + o1 + " -" + lit + " " + o2 + " x", "y " + o1 + " (-" + lit + ") " + o2 + " x", "y " + o1 + " -k " + o2 + " x"})
			}
			for _, sh := range shapes {
				k++
				if !c.Mine(k) {
					continue
				}
				c.Eval(1)
				c.Nontrivial(1)
				c.Validated(1)
				flatAST, e1 := one(sh[0])
				parAST, e2 := one(sh[1])
				idAST, e3 := one(sh[2])
				want := strings.ReplaceAll(idAST, "(-k)", "-"+lit)
				good := e1 == "" && e2 == "" && e3 == "" && flatAST == parAST && flatAST == want
				c.Outcome("F11:" + map[bool]string{true: "ok", false: "differs"}[good])
				if !good {
					c.Violation(core.Violation{Key: "F11/negative-literal-operand-regrouped", Case: core.JSON(tcase{Family: "F11:" + sh[0]}), Desc: sh[0], Expected: want + "  (grouping of " + sh[2] + ")",
						Observed: flatAST + e1 + "  /  with parentheses: " + parAST + e2 + e3})
				}
			}
		}
	}
}

// ---------------------------------------------------------------- literals as operands; calls applied to the results of calls

// F12: what stands at the operand positions does not matter for the grouping: an expression whose operands are literals
// (strs, raw strs, symbols, numbers, arrays, objects, nil, function literals - two different literals of one kind)
// groups like the same expression over identifiers, for every ordered operator pair and three operand layouts.
// F13: a call or index applied to something that ends with `)` or `]` applies to that result: writing the parentheses
// around the earlier part changes nothing (every sequence of 2-3 postfix operations after 5 bases).
func checkLiteralOperandsAndCallSequences(c *core.Ctx, lv *levels) {
	ops := infixOps(lv)
	one := func(src string) (string, string) {
		n, o := panrun.Parse(src + "\n")
		if o != nil {
			return "", o.Kind + ": " + o.ErrMsg + o.Panic
		}
		if len(n.Stmts) != 1 {
			return "", fmt.Sprintf("parsed into %d statements", len(n.Stmts))
		}
		return n.Stmts[0].String(), ""
	}
	k := 0
	kinds := [][2]string{{"\"a\"", "\"b\""}, {"`a`", "`b`"}, {"'a", "'b"}, {"2", "3"}, {"1.5", "2.5"}, {"[1]", "[2]"}, {"{a: 1}", "{b: 2}"}, {"nil", "true"}, {"{|v| v}", "{|w| w}"}, {"\"a\"", "'b"}}
	for _, kd := range kinds {
		l1, e1 := one(kd[0])
		l2, e2 := one(kd[1])
		if e1 != "" || e2 != "" {
			c.HarnessError("F12: literal does not parse: %s %s", e1, e2)
			return
		}
		for _, o1 := range ops {
			for _, o2 := range ops {
				for _, sh := range [][2]string{{"x " + o1 + " L1 " + o2 + " L2", "x " + o1 + " kq1 " + o2 + " kq2"}, {"L1 " + o1 + " L2 " + o2 + " x", "kq1 " + o1 + " kq2 " + o2 + " x"}, {"L1 " + o1 + " x " + o2 + " L2", "kq1 " + o1 + " x " + o2 + " kq2"}} {
					k++
					if !c.Mine(k) {
						continue
					}
					c.Eval(1)
					c.Nontrivial(1)
					c.Validated(1)
					src := strings.ReplaceAll(strings.ReplaceAll(sh[0], "L1", kd[0]), "L2", kd[1])
					got, ge := one(src)
					idAST, ie := one(sh[1])
					want := strings.ReplaceAll(strings.ReplaceAll(idAST, "kq1", l1), "kq2", l2)
					good := ge == "" && ie == "" && got == want
					c.Outcome("F12:" + map[bool]string{true: "ok", false: "differs"}[good])
					if !good {
						c.Violation(core.Violation{Key: "F12/literal-operands-regrouped", Case: core.JSON(tcase{Family: "F12:" + src}), Desc: src, Expected: want + "  (grouping of " + sh[1] + ")", Observed: got + ge + ie})
					}
				}
			}
		}
	}
	bases := []string{"f", "a.b", "a.^v", "a[0]", "a@b"}
	posts := []string{"()", "(1)", "(1, k: 2)", "[0]", ".c", ".c(2)", ".^w", "@d"}
	for _, b := range bases {
		for i1, p1 := range posts[:4] {
			for _, p2 := range posts {
				for i3 := -1; i3 < len(posts); i3++ {
					k++
					if !c.Mine(k) {
						continue
					}
					if b == "a[0]" && i1 == 3 {
						continue
					}
					flat := b + p1 + p2
					grouped := "(" + b + p1 + ")" + p2
					if i3 >= 0 {
						flat += posts[i3]
						if strings.HasSuffix(p2, ")") || strings.HasSuffix(p2, "]") || strings.HasSuffix(p2, "}") {
							grouped = "(" + grouped + ")" + posts[i3]
						} else {
							grouped += posts[i3] // arguments written right after a bare property / variable call belong to that call
						}
					}
					c.Eval(1)
					c.Nontrivial(1)
					c.Validated(1)
					got, ge := one(flat)
					want, we := one(grouped)
					good := ge == we && got == want
					c.Outcome("F13:" + map[bool]string{true: "ok", false: "differs"}[good])
					if !good {
						c.Violation(core.Violation{Key: "F13/call-applied-to-a-call-result-regrouped", Case: core.JSON(tcase{Family: "F13:" + flat}), Desc: flat, Expected: want + we + "  (what " + grouped + " parses to)", Observed: got + ge})
					}
				}
			}
		}
	}
}

// ---------------------------------------------------------------- a jargon file in front of the program (-j)

// With -j the text of $PANGAEA_JARGON_FILE is put in front of the program. Whether that file ends with a line
// break or not, its last statement and the program's first statement stay two statements (no regrouping across
// the seam): the output must be what the same run gives with a line break added to the jargon file.
func checkJargon(c *core.Ctx) {
	cli := os.Getenv("PANMC_CLI")
	if cli == "" {
		c.HarnessError("PANMC_CLI is not set")
		return
	}
	jargons := []string{"base := 100\nlimit := base * 2", "base := 100\nlimit := base * 2 # the limit", "base := 100\nlimit := base * 2\n# a closing comment", "base := 100\nlimit := base *\n  2"}
	firsts := []string{"-1 + 2 * 3 => delta", "(limit + 1).p", "+5 => delta", "[limit].p", "!base => delta", "*[1] => delta"}
	type jc struct{ jargon, first string }
	var cases []jc
	for _, j := range jargons {
		for _, f := range firsts {
			cases = append(cases, jc{j, f})
		}
	}
	tk.Sharded(c, len(cases), func(i int) {
		t := cases[i]
		c.Eval(1)
		c.Nontrivial(1)
		c.Validated(1)
		dir, err := os.MkdirTemp(os.Getenv("PANMC_SCRATCH"), "c02jargon")
		if err != nil {
			c.HarnessError("%v", err)
			return
		}
		defer os.RemoveAll(dir)
		script := t.first + "\n[base, limit].p\n"
		os.WriteFile(filepath.Join(dir, "main.pangaea"), []byte(script), 0o644)
		run := func(jargon string, args ...string) string {
			os.WriteFile(filepath.Join(dir, "jargon.pangaea"), []byte(jargon), 0o644)
			cmd := exec.Command("timeout", append([]string{"30", cli, "-j"}, args...)...)
			cmd.Dir = dir
			cmd.Env = append(os.Environ(), "PANGAEA_JARGON_FILE="+filepath.Join(dir, "jargon.pangaea"))
			var so, se strings.Builder
			cmd.Stdout, cmd.Stderr = &so, &se
			cmd.Run()
			return so.String() + "|" + strings.SplitN(se.String(), "\n", 2)[0]
		}
		for _, how := range [][]string{{"main.pangaea"}, {"-e", script}} {
			want := run(t.jargon+"\n", how...)
			got := run(t.jargon, how...)
			c.Outcome("jargon:" + map[bool]string{true: "ok", false: "differs"}[got == want])
			if got != want {
				c.Violation(core.Violation{Key: "F12/jargon-seam-regrouped", Case: core.JSON(tcase{Family: "F12:" + t.jargon + " ++ " + t.first}), Desc: fmt.Sprintf("-j with a jargon file ending %q, program starting %q (%s)", t.jargon[len(t.jargon)-12:], t.first, how[0]),
					Expected: fmt.Sprintf("%q (the output with a final line break in the jargon file)", want), Observed: fmt.Sprintf("%q", got)})
				return
			}
		}
	})
}

// ---------------------------------------------------------------- running

type prepared struct {
	tc            tcase
	src, want, ps string
}

func prepare(lv *levels, tc tcase) (prepared, string) {
	p := &refParser{lv: lv, toks: tc.Toks}
	n := p.stmt()
	if p.err != "" || p.pos != len(tc.Toks) {
		return prepared{}, fmt.Sprintf("reference parser rejects %q: %s (pos %d)", source(tc.Toks), p.err, p.pos)
	}
	return prepared{tc: tc, src: source(tc.Toks), want: n.render(), ps: n.paren()}, ""
}

func parseBatch(srcs []string) ([]string, []string) {
	// returns per-source AST string or error text; a batch is one program, one statement per line
	res := make([]string, len(srcs))
	errs := make([]string, len(srcs))
	var rec func(idx []int)
	rec = func(idx []int) {
		if len(idx) == 0 {
			return
		}
		prog := make([]string, len(idx))
		for i, k := range idx {
			prog[i] = srcs[k]
		}
		n, o := panrun.Parse(strings.Join(prog, "\n") + "\n")
		if o == nil && len(n.Stmts) == len(idx) {
			for i, k := range idx {
				res[k] = n.Stmts[i].String()
			}
			return
		}
		if len(idx) == 1 {
			if o != nil {
				errs[idx[0]] = o.Kind + ": " + o.ErrMsg + o.Panic
			} else {
				errs[idx[0]] = fmt.Sprintf("parsed into %d statements: %s", len(n.Stmts), n.String())
			}
			return
		}
		h := len(idx) / 2
		rec(idx[:h])
		rec(idx[h:])
	}
	all := make([]int, len(srcs))
	for i := range all {
		all[i] = i
	}
	rec(all)
	return res, errs
}

func checkBatch(c *core.Ctx, ps []prepared) {
	srcs := make([]string, 0, 2*len(ps))
	for _, p := range ps {
		srcs = append(srcs, p.src, p.ps)
	}
	res, errs := parseBatch(srcs)
	for i, p := range ps {
		got, gotErr := res[2*i], errs[2*i]
		pgot, pErr := res[2*i+1], errs[2*i+1]
		c.Eval(1)
		c.Nontrivial(1)
		c.Validated(1)
		c.Transition(2)
		fam := p.tc.Family
		viol := func(class, exp, obs string) {
			c.Violation(core.Violation{Key: fam + "/" + class, Case: core.JSON(p.tc), Desc: p.src, Expected: exp, Observed: obs})
		}
		switch {
		case gotErr != "" && pErr == "":
			c.Outcome(fam + ":flat-rejected")
			viol("flat-form-rejected", p.want, gotErr+" (while the parenthesised form "+p.ps+" parses)")
		case gotErr != "" && pErr != "":
			c.Outcome(fam + ":both-rejected")
			viol("rejected", p.want, gotErr)
		case got != p.want:
			c.Outcome(fam + ":wrong-grouping")
			viol("wrong-grouping", p.want, got)
		case pErr != "":
			c.Outcome(fam + ":paren-rejected")
			viol("parenthesised-form-rejected", got, pErr+" for "+p.ps)
		case pgot != got:
			c.Outcome(fam + ":paren-changes-parse")
			viol("parentheses-change-parse", got, pgot+" for "+p.ps)
		default:
			c.Outcome(fam + ":ok")
		}
	}
}

func run(c *core.Ctx) {
	lv, err := readLevels()
	if err != nil {
		c.HarnessError("cannot read the documented precedence table: %v", err)
		return
	}
	c.Note("table_rows_high_to_low", lv.order)
	var batch []prepared
	seen := map[string]bool{}
	k := 0
	const B = 400
	bi := 0
	flush := func() {
		if len(batch) == 0 {
			return
		}
		if c.Mine(bi) {
			if c.Expired() {
				c.Incomplete("stopped at the internal deadline")
			} else {
				checkBatch(c, batch)
			}
		}
		bi++
		batch = batch[:0]
	}
	deep = c.Thorough()
	generate(lv, true, func(tc tcase) {
		p, e := prepare(lv, tc)
		if e != "" {
			c.HarnessError("%s", e)
			return
		}
		if seen[p.src] {
			return
		}
		seen[p.src] = true
		k++
		if k%4001 == 1 {
			c.Sample(map[string]string{"source": p.src, "expected_grouping": p.want, "parenthesised": p.ps})
		}
		batch = append(batch, p)
		if len(batch) == B {
			flush()
		}
	})
	flush()
	c.Note("distinct_expressions", k)
	checkStatementPairs(c)
	checkNegativeLiterals(c, lv)
	checkLiteralOperandsAndCallSequences(c, lv)
	checkOneLiners(c, lv)
	checkJargon(c)
}

func replay(c *core.Ctx, raw json.RawMessage) {
	var tc tcase
	if err := json.Unmarshal(raw, &tc); err != nil {
		c.HarnessError("bad case: %v", err)
		return
	}
	if strings.HasPrefix(tc.Family, "F10:") {
		if lv, err := readLevels(); err == nil {
			checkOneLiners(c, lv)
		}
		return
	}
	if strings.HasPrefix(tc.Family, "F12:") {
		checkJargon(c)
		return
	}
	if strings.HasPrefix(tc.Family, "F12:") || strings.HasPrefix(tc.Family, "F13:") {
		lv, err := readLevels()
		if err != nil {
			c.HarnessError("%v", err)
			return
		}
		checkLiteralOperandsAndCallSequences(c, lv)
		return
	}
	if strings.HasPrefix(tc.Family, "F11:") {
		if lv, err := readLevels(); err == nil {
			checkNegativeLiterals(c, lv)
		}
		return
	}
	if strings.HasPrefix(tc.Family, "F9:") {
		// the family is small: it is run again as a whole
		checkStatementPairs(c)
		return
	}
	lv, err := readLevels()
	if err != nil {
		c.HarnessError("%v", err)
		return
	}
	p, e := prepare(lv, tc)
	if e != "" {
		c.HarnessError("%s", e)
		return
	}
	checkBatch(c, []prepared{p})
}
