package c03

// Independent reference evaluator for the scoping/binding fragment of Pangaea used by C03.
// It is deliberately boring: frames with a lexical parent, a call creates a fresh frame whose
// parent is the DEFINITION frame, writes go to the innermost frame, parameters as stated.

import (
	"fmt"
	"sort"
	"strings"
)

// ---------------------------------------------------------------- model AST

type node interface{ src() string }

type (
	intLit struct{ v int }
	nilLit struct{}
	varRef struct{ name string }
	assign struct {
		name string
		op   string
		e    node
	} // op "" (:=) or "+" (+=)
	infix struct {
		op   string
		l, r node
	}
	arrLit  struct{ elems []arg } // elems may be star-unpacked
	objLit  struct{ pairs []pair }
	funcLit struct {
		params []string
		kw     []kwparam
		body   []node
		method bool
	}
	call struct {
		callee node
		args   []arg
		layout int // 0 = one line; 1..4 = the argument list written over several lines (see call.src)
	}
	propCall struct {
		recv     node
		name     string
		args     []arg
		noParens bool
	}
	anonProp struct{ name string }
	argVar   struct{ name string } // `\`, `\1`, `\0`, `\k`, `\_` (name without backslash)
	index    struct {
		recv node
		idx  node
	}
	symLit struct{ name string }
	print  struct{ e node }
	retIf  struct{ e, cond node } // return e if cond
	group  struct{ e node }
)

type pair struct {
	name string
	e    node
}

type kwparam struct {
	name string
	def  node
}

type arg struct {
	kind string // pos | kw | star | dstar
	name string
	e    node
}

func (n intLit) src() string { return fmt.Sprint(n.v) }
func (n nilLit) src() string { return "nil" }
func (n varRef) src() string { return n.name }
func (n assign) src() string {
	if n.op == "=>" {
		return "(" + n.e.src() + " => " + n.name + ")"
	}
	if n.op == "" {
		return n.name + " := " + n.e.src()
	}
	return n.name + " " + n.op + "= " + n.e.src()
}
func (n infix) src() string { return "(" + n.l.src() + " " + n.op + " " + n.r.src() + ")" }
func (n group) src() string { return "(" + n.e.src() + ")" }
func argsSrc(args []arg) string {
	p := make([]string, len(args))
	for i, a := range args {
		switch a.kind {
		case "pos":
			p[i] = a.e.src()
		case "kw":
			p[i] = a.name + ": " + a.e.src()
		case "star":
			p[i] = "*" + a.e.src()
		case "dstar":
			p[i] = "**" + a.e.src()
		}
	}
	return strings.Join(p, ", ")
}
func (n arrLit) src() string { return "[" + argsSrc(n.elems) + "]" }
func (n objLit) src() string {
	p := make([]string, len(n.pairs))
	for i, pr := range n.pairs {
		p[i] = pr.name + ": " + pr.e.src()
	}
	return "{" + strings.Join(p, ", ") + "}"
}
func bodySrc(body []node) string {
	p := make([]string, len(body))
	for i, s := range body {
		p[i] = s.src()
	}
	return strings.Join(p, "; ")
}
func (n funcLit) src() string {
	var ps []string
	ps = append(ps, n.params...)
	for _, k := range n.kw {
		ps = append(ps, k.name+": "+k.def.src())
	}
	open := "{"
	if n.method {
		open = "m{"
	}
	return open + "|" + strings.Join(ps, ", ") + "| " + bodySrc(n.body) + "}"
}
func (n call) src() string {
	a := argsSrc(n.args)
	multi := strings.ReplaceAll(a, ", ", ",\n  ")
	switch n.layout {
	case 1: // a break after `(`, after every comma and before `)`
		return n.callee.src() + "(\n  " + multi + "\n)"
	case 2: // a break after every comma
		return n.callee.src() + "(" + multi + ")"
	case 3: // breaks after `(` and before `)`
		return n.callee.src() + "(\n  " + a + "\n)"
	case 4: // a break before `)` only
		return n.callee.src() + "(" + a + "\n)"
	}
	return n.callee.src() + "(" + a + ")"
}
func (n propCall) src() string {
	if n.noParens {
		return n.recv.src() + "." + n.name
	}
	return n.recv.src() + "." + n.name + "(" + argsSrc(n.args) + ")"
}
func (n anonProp) src() string { return "." + n.name }
func (n argVar) src() string   { return `\` + n.name }
func (n index) src() string    { return n.recv.src() + "[" + n.idx.src() + "]" }
func (n symLit) src() string   { return "'" + n.name }
func (n print) src() string    { return n.e.src() + ".p" }
func (n retIf) src() string    { return "return " + n.e.src() + " if " + n.cond.src() }

// ---------------------------------------------------------------- values

type value interface{ repr() string }

type (
	vInt  int
	vNil  struct{}
	vBool bool
	vStr  string
	vArr  []value
	vObj  map[string]value
	vFunc struct {
		lit  funcLit
		defs map[string]value // evaluated keyword defaults
		env  *frame
	}
)

func (v vInt) repr() string  { return fmt.Sprint(int(v)) }
func (v vNil) repr() string  { return "nil" }
func (v vBool) repr() string { return fmt.Sprint(bool(v)) }
func (v vStr) repr() string  { return fmt.Sprintf("%q", string(v)) }
func (v vArr) repr() string {
	p := make([]string, len(v))
	for i, e := range v {
		p[i] = e.repr()
	}
	return "[" + strings.Join(p, ", ") + "]"
}
func (v vObj) repr() string {
	ks := make([]string, 0, len(v))
	for k := range v {
		ks = append(ks, k)
	}
	sort.Strings(ks)
	p := make([]string, len(ks))
	for i, k := range ks {
		p[i] = fmt.Sprintf("%q: %s", k, v[k].repr())
	}
	return "{" + strings.Join(p, ", ") + "}"
}
func (v *vFunc) repr() string { return "<func>" }

// what `p` prints (S): strings without quotes at top level
func printed(v value) string {
	if s, ok := v.(vStr); ok {
		return string(s)
	}
	return v.repr()
}

type frame struct {
	vars   map[string]value
	parent *frame
	// arguments of the function this frame belongs to (nil for the top level)
	isCall bool
}

func (f *frame) get(name string) (value, bool) {
	for e := f; e != nil; e = e.parent {
		if v, ok := e.vars[name]; ok {
			return v, true
		}
	}
	return nil, false
}

// refErr is a raised error in the reference evaluation.
type refErr struct{ kind, msg string }

type returned struct{ v value }

type refEval struct {
	out   strings.Builder
	steps int
}

func (r *refEval) evalBody(body []node, env *frame) (val value) {
	val = vNil{}
	for _, s := range body {
		val = r.eval(s, env)
	}
	return val
}

// callFunc runs a function value with evaluated arguments.
func (r *refEval) callFunc(f *vFunc, pos []value, kws []pair2) value {
	fr := &frame{vars: map[string]value{}, parent: f.env, isCall: true}
	params := f.lit.params
	if f.lit.method {
		params = append([]string{"self"}, params...)
	}
	padded := append([]value{}, pos...)
	for len(padded) < len(params) {
		padded = append(padded, vNil{})
	}
	for i, p := range params {
		fr.vars[p] = padded[i]
	}
	for i, a := range padded {
		fr.vars[fmt.Sprintf(`\%d`, i+1)] = a
	}
	fr.vars[`\0`] = vArr(padded)
	if len(padded) > 0 {
		fr.vars[`\`] = padded[0]
	}
	passed := vObj{}
	for _, k := range kws {
		if _, dup := passed[k.name]; !dup {
			passed[k.name] = k.v
		}
	}
	for _, k := range f.lit.kw {
		if v, ok := passed[k.name]; ok {
			fr.vars[k.name] = v
		} else {
			fr.vars[k.name] = f.defs[k.name]
		}
	}
	for n, v := range passed {
		fr.vars[`\`+n] = v
	}
	fr.vars[`\_`] = passed
	var res value
	func() {
		defer func() {
			if p := recover(); p != nil {
				if rt, ok := p.(returned); ok {
					res = rt.v
					return
				}
				panic(p)
			}
		}()
		res = r.evalBody(f.lit.body, fr)
	}()
	return res
}

type pair2 struct {
	name string
	v    value
}

func (r *refEval) evalArgs(args []arg, env *frame) ([]value, []pair2) {
	var pos []value
	var kws []pair2
	// the implementation evaluates positional arguments (and * unpacking) first, then keyword
	// arguments, then ** unpacking; generated argument expressions are side-effect free literals,
	// so only the binding matters here
	for _, a := range args {
		switch a.kind {
		case "pos":
			pos = append(pos, r.eval(a.e, env))
		case "star":
			v := r.eval(a.e, env)
			if arr, ok := v.(vArr); ok {
				pos = append(pos, arr...)
			} else {
				panic(refErr{"TypeErr", "cannot unpack"})
			}
		}
	}
	for _, a := range args {
		if a.kind == "kw" {
			kws = append(kws, pair2{a.name, r.eval(a.e, env)})
		}
	}
	for _, a := range args {
		if a.kind == "dstar" {
			v := r.eval(a.e, env)
			o, ok := v.(vObj)
			if !ok {
				panic(refErr{"TypeErr", "cannot unpack"})
			}
			ks := make([]string, 0, len(o))
			for k := range o {
				ks = append(ks, k)
			}
			sort.Strings(ks)
			for _, k := range ks {
				kws = append(kws, pair2{k, o[k]})
			}
		}
	}
	return pos, kws
}

func (r *refEval) eval(n node, env *frame) value {
	r.steps++
	if r.steps > 200000 {
		panic(refErr{"Fuel", "reference evaluation did not terminate"})
	}
	switch x := n.(type) {
	case intLit:
		return vInt(x.v)
	case nilLit:
		return vNil{}
	case symLit:
		return vStr(x.name)
	case group:
		return r.eval(x.e, env)
	case varRef:
		v, ok := env.get(x.name)
		if !ok {
			panic(refErr{"NameErr", "name `" + x.name + "` is not defined"})
		}
		return v
	case argVar:
		v, ok := env.get(`\` + x.name)
		if !ok {
			panic(refErr{"NameErr", "name `\\" + x.name + "` is not defined"})
		}
		return v
	case assign:
		var v value
		if x.op == "" || x.op == "=>" {
			v = r.eval(x.e, env)
		} else {
			cur, ok := env.get(x.name)
			if !ok {
				panic(refErr{"NameErr", "name `" + x.name + "` is not defined"})
			}
			v = arith(x.op, cur, r.eval(x.e, env))
		}
		env.vars[x.name] = v // always the innermost frame
		return v
	case infix:
		l := r.eval(x.l, env)
		rv := r.eval(x.r, env)
		return arith(x.op, l, rv)
	case arrLit:
		var out vArr = vArr{}
		for _, e := range x.elems {
			v := r.eval(e.e, env)
			if e.kind == "star" {
				arr, ok := v.(vArr)
				if !ok {
					panic(refErr{"TypeErr", "cannot unpack"})
				}
				out = append(out, arr...)
			} else {
				out = append(out, v)
			}
		}
		return out
	case objLit:
		o := vObj{}
		for _, p := range x.pairs {
			v := r.eval(p.e, env)
			if _, dup := o[p.name]; !dup {
				o[p.name] = v
			}
		}
		return o
	case funcLit:
		f := &vFunc{lit: x, defs: map[string]value{}, env: env}
		for _, k := range x.kw {
			if _, dup := f.defs[k.name]; !dup {
				f.defs[k.name] = r.eval(k.def, env) // defaults are evaluated once, in the defining scope
			}
		}
		return f
	case call:
		cv := r.eval(x.callee, env)
		pos, kws := r.evalArgs(x.args, env)
		f, ok := cv.(*vFunc)
		if !ok {
			panic(refErr{"TypeErr", "not callable"})
		}
		return r.callFunc(f, pos, kws)
	case propCall:
		rv := r.eval(x.recv, env)
		pos, kws := r.evalArgs(x.args, env)
		return r.callProp(rv, x.name, pos, kws)
	case anonProp:
		rv, ok := env.get(`\1`)
		if !ok {
			panic(refErr{"NameErr", "no receiver"})
		}
		return r.callProp(rv, x.name, nil, nil)
	case index:
		rv := r.eval(x.recv, env)
		iv := r.eval(x.idx, env)
		switch c := rv.(type) {
		case vArr:
			i, ok := iv.(vInt)
			if !ok || int(i) < 0 || int(i) >= len(c) {
				return vNil{}
			}
			return c[i]
		case vObj:
			s, ok := iv.(vStr)
			if !ok {
				return vNil{}
			}
			if v, ok := c[string(s)]; ok {
				return v
			}
			return vNil{}
		}
		return vNil{}
	case print:
		v := r.eval(x.e, env)
		r.out.WriteString(printed(v) + "\n")
		return vNil{}
	case retIf:
		c := r.eval(x.cond, env)
		if b, ok := c.(vBool); ok && bool(b) {
			panic(returned{r.eval(x.e, env)})
		}
		return vNil{}
	}
	panic(refErr{"Internal", fmt.Sprintf("unknown node %T", n)})
}

func (r *refEval) callProp(recv value, name string, pos []value, kws []pair2) value {
	o, ok := recv.(vObj)
	if !ok {
		panic(refErr{"NoPropErr", "property `" + name + "` is not defined."})
	}
	p, ok := o[name]
	if !ok {
		panic(refErr{"NoPropErr", "property `" + name + "` is not defined."})
	}
	if f, isF := p.(*vFunc); isF {
		return r.callFunc(f, append([]value{recv}, pos...), kws)
	}
	return p // non-callable: returned as is, arguments ignored
}

func arith(op string, l, rv value) value {
	li, ok1 := l.(vInt)
	ri, ok2 := rv.(vInt)
	if op == "==" {
		return vBool(l.repr() == rv.repr())
	}
	if !ok1 || !ok2 {
		panic(refErr{"TypeErr", "not an int"})
	}
	switch op {
	case "+":
		return li + ri
	case "-":
		return li - ri
	case "*":
		return li * ri
	}
	panic(refErr{"Internal", "op " + op})
}

// runRef evaluates a program and returns (stdout, value repr, error kind).
func runRef(prog []node) (out string, val string, errKind string) {
	r := &refEval{}
	top := &frame{vars: map[string]value{}}
	defer func() {
		if p := recover(); p != nil {
			out = r.out.String()
			switch e := p.(type) {
			case refErr:
				errKind = e.kind
			case returned:
				val = e.v.repr()
			default:
				panic(p)
			}
		}
	}()
	v := r.evalBody(prog, top)
	return r.out.String(), v.repr(), ""
}
