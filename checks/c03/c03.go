// Package c03: lexical scoping and argument binding of functions and methods (property C03).
// All programs of a scoping/binding grammar up to a nesting bound are rendered to Pangaea source,
// run on the real interpreter and compared (stdout trace + final value) with an independent
// reference evaluator (ref.go).
package c03

import (
	"encoding/json"
	"fmt"
	"os"
	"os/exec"
	"path/filepath"
	"reflect"
	"sort"
	"strings"

	"github.com/Syuparn/pangaea/object"

	"panmc/internal/core"
	"panmc/internal/panrun"
	"panmc/internal/tk"
)

func init() {
	core.Register(&core.Check{
		ID:    "C03",
		Level: "model_checking",
		// generous internal deadline: the run takes 1-2 minutes on an idle machine and several times that next to other jobs
		QuickBudget: 900,
		Rule: "G1 capture/shadowing: all combinations of {assignment before definition, between definition and call, after the first call} x 12 body shapes (read, :=, +=, derived local, inner closure created before a local reassignment, inner assignment, closure returned and called later, sibling closures sharing a frame, two-variable shadowing, closure over a parameter, nested definition scopes) x wrapper nesting 0..2; " +
			"G18 variables named like names of the root scope: 20 names (built-in prototypes, true/false/nil, kernel functions) x 7 ways of binding them in a function x closures nested 0..3 levels below that read them; " +
			"G17 parameters are bound per call, for every kind of expression: 120 expression templates over the parameters (literals with computed parts, expansions, chains with chain arguments, calls with keyword expansion, indexing and slicing, conditionals, interpolation, ranges, function / method / iterator literals called at once, try chains; 5 parameter signatures) x every sequence of 2 (thorough 3) argument tuples out of 4, each call compared with a function literal written for that one call; " +
			"G16 parameters that receive nothing: 7 call shapes (keyword left out, nested literals with the same keyword, method, iterator, positional left out, chain block, variable assigned later) x 4 names (incl. names of built-in top-level functions) x {no, int, nil, function} variable of that name visible from the defining scope x nesting 0..1; " +
			"G15 rebinding to the same object: 13 values x 12 ways of binding a name again in an inner scope to the object (or an equal cached value) the enclosing variable of that name holds x 2 later reassignments of the enclosing variable x nesting 0..1, a closure made in the inner scope read before and after the reassignment; " +
			"G2 binding: parameter lists {0..3 positional} x {0..2 keyword} x every argument list of length <=5 (thorough 6) over {positionals, k:, j:, unknown z:, *[0..2 elements], **{k}, **{j,k}, **{w,b}; up to two ** with disjoint names} respecting the grammar, probing parameters and \\ \\N \\0 \\name \\_; " +
			"G3 receiver passing: function vs method properties x call forms (o.p(x), o['p](o,x), extracted) x anonymous chains in functions, methods and nested literal calls; G4 recursion depth 0..4 with per-frame locals and escaping closures; " +
			"G5 every sequence of <=2 (thorough 3) calls over 10 argument lists that unpack the same objects/arrays held in variables (**opts, **opts **extra, *xs *xs, k: with **, method call last), printing what each call received and the unpacked objects afterwards; " +
			"G6 every sequence of <=3 rebinding steps (alias, rebind to another function / an int, bind a function to a free name of its own body, compound and right assignment) over a recursive function and a function with two free names, all surviving function values called afterwards; " +
			"G7 list-chain property calls (3 elements x {@,=@,&@} x function/method property x 0..14 positional arguments x with/without a keyword): every element receives the written arguments; " +
			"G8 one literal evaluated several times (factory called 2-3 times, list-chain body, recursion): keyword defaults and captures of its own evaluation; G9 a first call that binds extra names (second argument, undeclared/declared keyword) followed by a call without them; " +
			"oracle = independent reference evaluator; non-trivial = program with a closure call after a reassignment, an arity/keyword mismatch or a receiver; distinct = distinct source; round 7: G2 call argument lists of <=3 (thorough 4) items are also written in 4 multi-line layouts; G10: a module file whose functions read free names is imported at top level, inside functions, nested functions, methods and chain blocks whose parameters/locals shadow those names, run through the real binary (48 programs).; round 8: G11: literal / variable / method-literal / thoughtful calls and list chains whose function has 2-3 parameters spread an array receiver of length 0..4 however it was made; G12: calls with 1..14 positional arguments name each of them (plain, declared parameters, star expansion, method call).",
		Assumptions: []string{
			"don't-care: with fewer arguments than parameters \\N/\\0 show the nil padding: arg variables are compared only for positions actually received and \\0 only without padding",
			"don't-care: in a function called with no arguments `\\`, `\\1` and receiver-less chains resolve lexically: probed only in functions that received >=1 argument",
			"duplicate parameter names, duplicate keyword arguments and a keyword given both explicitly and through ** are not generated",
		},
		Run:    run,
		Replay: replay,
	})
}

type tcase struct {
	Family string `json:"family"`
	Src    string `json:"src"`
	// expectation from the reference evaluator
	Out  string `json:"out"`
	Val  string `json:"val"`
	ErrK string `json:"err"`
	NT   bool   `json:"nt"`
	Mod  string `json:"mod,omitempty"` // G10: text of the module file ./mod.pangaea imported by Src (run through the CLI)
}

func mk(family string, nt bool, prog []node) tcase {
	lines := make([]string, len(prog))
	for i, s := range prog {
		lines[i] = s.src()
	}
	out, val, errK := runRef(prog)
	return tcase{Family: family, Src: strings.Join(lines, "\n"), Out: out, Val: val, ErrK: errK, NT: nt}
}

// helpers to build nodes
func v(n string) node                       { return varRef{n} }
func i(n int) node                          { return intLit{n} }
func set(n string, e node) node             { return assign{n, "", e} }
func add(n string, e node) node             { return assign{n, "+", e} }
func assignRight(n string, e node) node     { return assign{n, "=>", e} }
func plus(l, r node) node                   { return infix{"+", l, r} }
func fn(params []string, body ...node) node { return funcLit{params: params, body: body} }
func callv(name string, args ...node) node {
	var as []arg
	for _, a := range args {
		as = append(as, arg{kind: "pos", e: a})
	}
	return call{callee: v(name), args: as}
}
func arr(es ...node) node {
	var as []arg
	for _, e := range es {
		as = append(as, arg{kind: "pos", e: e})
	}
	return arrLit{as}
}

// wrap puts statements into `depth` immediately-called function literals (new scopes).
func wrap(depth int, stmts []node) []node {
	for d := 0; d < depth; d++ {
		stmts = []node{call{callee: group{funcLit{body: stmts}}}}
	}
	return stmts
}

// ---------------------------------------------------------------- G1

func genG1(emit func(tcase)) {
	bodies := []struct {
		name string
		body []node
		post []node // statements after the calls (e.g. calling a returned closure)
	}{
		{"read", []node{v("x")}, nil},
		{"assign-local", []node{set("x", i(10)), v("x")}, nil},
		{"compound-local", []node{add("x", i(5)), v("x")}, nil},
		{"derived-local", []node{set("y", plus(v("x"), i(1))), v("y")}, nil},
		{"inner-closure-sees-later-local-reassign", []node{set("g", fn(nil, v("x"))), set("x", i(20)), callv("g")}, nil},
		{"inner-assignment-does-not-leak", []node{set("g", fn(nil, set("x", i(30)), v("x"))), arr(callv("g"), v("x"))}, nil},
		{"returned-closure", []node{fn(nil, v("x"))}, []node{set("c1", v("r1")), set("x", i(9)), print{callv("c1")}}},
		{"returned-closure-over-local", []node{set("x", plus(v("x"), i(100))), fn(nil, v("x"))}, []node{set("c1", v("r1")), set("x", i(9)), print{callv("c1")}, print{call{callee: v("r2")}}}},
		{"sibling-closures", []node{set("c", i(0)), set("inc", fn(nil, add("c", i(1)), v("c"))), set("get", fn(nil, v("c"))), arr(callv("inc"), callv("inc"), callv("get"))}, nil},
		{"two-variables", []node{set("y", v("x")), set("x", plus(v("y"), i(1))), arr(v("x"), v("y"))}, nil},
		{"closure-over-parameter", []node{set("h", fn([]string{"x"}, fn(nil, v("x")))), set("k", callv("h", i(77))), arr(callv("k"), v("x"))}, nil},
		{"nested-definition-scopes", []node{set("o", fn(nil, set("x", plus(v("x"), i(1))), fn(nil, set("x", plus(v("x"), i(1))), v("x")))), arr(call{callee: group{callv("o")}}, v("x"))}, nil},
	}
	for bi, b := range bodies {
		for mask := 0; mask < 8; mask++ {
			for depth := 0; depth <= 2; depth++ {
				var st []node
				st = append(st, set("x", i(1)))
				st = append(st, set("y", i(50)))
				if mask&1 != 0 {
					st = append(st, set("x", i(2)))
				}
				st = append(st, set("f", fn(nil, b.body...)))
				if mask&2 != 0 {
					st = append(st, set("x", i(3)))
				}
				st = append(st, set("r1", callv("f")))
				if mask&4 != 0 {
					st = append(st, add("x", i(4)))
				}
				st = append(st, set("r2", callv("f")))
				st = append(st, b.post...)
				if strings.HasPrefix(b.name, "returned-closure") {
					st = append(st, print{arr(v("x"), v("y"))})
				} else {
					st = append(st, print{arr(v("x"), v("y"), v("r1"), v("r2"))})
				}
				st = append(st, v("x"))
				_ = bi
				emit(mk("G1/"+b.name, true, wrap(depth, st)))
			}
		}
	}
}

// ---------------------------------------------------------------- G2

type argItem struct {
	a    arg
	npos int      // number of positional values it contributes
	kws  []string // keyword names it contributes
	last bool     // must be last (**)
}

func genG2(maxArgs int, emit func(tcase)) {
	items := []argItem{
		{a: arg{kind: "pos", e: i(1)}, npos: 1},
		{a: arg{kind: "pos", e: i(2)}, npos: 1},
		{a: arg{kind: "pos", e: i(3)}, npos: 1},
		{a: arg{kind: "kw", name: "k", e: i(7)}, kws: []string{"k"}},
		{a: arg{kind: "kw", name: "j", e: i(8)}, kws: []string{"j"}},
		{a: arg{kind: "kw", name: "z", e: i(9)}, kws: []string{"z"}},
		// undeclared keywords named like a variable of the defining scope / like a positional parameter:
		// they must not become variables of the body
		{a: arg{kind: "kw", name: "w", e: i(91)}, kws: []string{"w"}},
		{a: arg{kind: "kw", name: "a", e: i(92)}, kws: []string{"a"}},
		{a: arg{kind: "star", e: arr()}, npos: 0},
		{a: arg{kind: "star", e: arr(i(5))}, npos: 1},
		{a: arg{kind: "star", e: arr(i(5), i(6))}, npos: 2},
		{a: arg{kind: "dstar", e: objLit{[]pair{{"k", i(70)}}}}, kws: []string{"k"}, last: true},
		{a: arg{kind: "dstar", e: objLit{[]pair{{"j", i(80)}, {"k", i(70)}}}}, kws: []string{"j", "k"}, last: true},
		{a: arg{kind: "dstar", e: objLit{[]pair{{"w", i(93)}, {"b", i(94)}}}}, kws: []string{"w", "b"}, last: true},
	}
	paramLists := [][]string{{}, {"a"}, {"a", "b"}, {"a", "b", "c"}}
	kwLists := [][]kwparam{{}, {{"k", i(10)}}, {{"k", i(10)}, {"j", i(20)}}}
	var argLists [][]argItem
	var rec func(cur []argItem)
	rec = func(cur []argItem) {
		argLists = append(argLists, append([]argItem{}, cur...))
		if len(cur) == maxArgs {
			return
		}
		afterDstar := len(cur) > 0 && cur[len(cur)-1].last
		ndstar := 0
		for _, c := range cur {
			if c.last {
				ndstar++
			}
		}
		if ndstar == 2 {
			return
		}
		used := map[string]bool{}
		posUsed := map[int]bool{}
		for _, c := range cur {
			for _, k := range c.kws {
				used[k] = true
			}
			if c.a.kind == "pos" {
				posUsed[c.a.e.(intLit).v] = true
			}
		}
	next:
		for _, it := range items {
			if afterDstar && !it.last {
				continue // the grammar only lets another ** follow a **
			}
			if afterDstar && reflect.DeepEqual(it.a, cur[len(cur)-1].a) {
				continue
			}
			for _, k := range it.kws {
				if used[k] {
					continue next
				}
			}
			// positional literals are used in increasing order once each (1,2,3) to keep the space small
			if it.a.kind == "pos" {
				want := len(posUsed) + 1
				if it.a.e.(intLit).v != want {
					continue
				}
			}
			rec(append(cur, it))
		}
	}
	rec(nil)
	for _, ps := range paramLists {
		for _, kws := range kwLists {
			for _, al := range argLists {
				npos := 0
				passed := map[string]bool{}
				var args []arg
				for _, it := range al {
					npos += it.npos
					for _, k := range it.kws {
						passed[k] = true
					}
					args = append(args, it.a)
				}
				// probes: parameters, keyword parameters, then the arg variables that are defined by the statement
				var probes []arg
				for _, p := range ps {
					probes = append(probes, arg{kind: "pos", e: v(p)})
				}
				for _, k := range kws {
					probes = append(probes, arg{kind: "pos", e: v(k.name)})
				}
				for n := 1; n <= npos && n <= 4; n++ {
					probes = append(probes, arg{kind: "pos", e: argVar{fmt.Sprint(n)}})
				}
				if npos >= 1 {
					probes = append(probes, arg{kind: "pos", e: argVar{""}})
				}
				if npos >= len(ps) {
					probes = append(probes, arg{kind: "pos", e: argVar{"0"}})
				}
				probes = append(probes, arg{kind: "pos", e: v("w")}) // free variable of the defining scope
				for _, k := range []string{"k", "j", "z", "w", "a", "b"} {
					if passed[k] {
						probes = append(probes, arg{kind: "pos", e: argVar{k}})
					}
				}
				probes = append(probes, arg{kind: "pos", e: argVar{"_"}})
				f := funcLit{params: ps, kw: kws, body: []node{arrLit{probes}}}
				prog := []node{set("w", i(1000)), set("f", f), call{callee: v("f"), args: args}}
				nt := npos != len(ps) || len(passed) > 0
				emit(mk("G2/binding", nt, prog))
				// the same call with its argument list written over several lines (argument literals are flat here,
				// so every ", " of the rendered list separates two arguments)
				if len(al) >= 1 && len(al) <= maxArgs-2 && flatArgs(args) {
					for lay := 1; lay <= 4; lay++ {
						emit(mk("G2/binding-layout", nt, []node{set("w", i(1000)), set("f", f), call{callee: v("f"), args: args, layout: lay}}))
					}
				}
				// an undefined \name must be a NameErr (exactly the arguments received)
				for _, k := range kws {
					if !passed[k.name] && len(al) <= 2 {
						f2 := funcLit{params: ps, kw: kws, body: []node{argVar{k.name}}}
						emit(mk("G2/kwarg-var-absent", true, []node{set("w", i(1000)), set("f", f2), call{callee: v("f"), args: args}}))
					}
				}
			}
		}
	}
}

// flatArgs: no argument contains a ", " of its own (only then may the layout split at every ", ")
func flatArgs(args []arg) bool {
	for _, a := range args {
		if strings.Contains(a.e.src(), ", ") {
			return false
		}
	}
	return true
}

// ---------------------------------------------------------------- G3

func genG3(emit func(tcase)) {
	objSrc := func(kind string, body []node) node {
		var f node
		if kind == "method" {
			f = funcLit{params: []string{"y"}, body: body, method: true}
		} else {
			f = funcLit{params: []string{"s", "y"}, body: body}
		}
		return objLit{[]pair{{"v", i(5)}, {"p", f}}}
	}
	o2 := objLit{[]pair{{"v", i(6)}}}
	self := func(kind string) string {
		if kind == "method" {
			return "self"
		}
		return "s"
	}
	for _, kind := range []string{"func", "method"} {
		probes := map[string][]node{
			"first-arg-var":                  {arr(propCall{recv: argVar{"1"}, name: "v", noParens: true}, v("y"))},
			"anon-chain":                     {arr(anonProp{"v"}, v("y"))},
			"named-self":                     {arr(propCall{recv: v(self(kind)), name: "v", noParens: true}, v("y"), index{argVar{"0"}, i(1)})},
			"nested-literal-anon-chain":      {arr(call{callee: group{funcLit{params: []string{"z"}, body: []node{anonProp{"v"}}}}, args: []arg{{kind: "pos", e: v("o2")}}}, anonProp{"v"})},
			"anon-chain-in-closure-with-arg": {set("g", funcLit{params: []string{"w"}, body: []node{anonProp{"v"}}}), arr(callv("g", v("o2")), callv("g", v(self(kind))))},
			"kwargs-through-propcall":        {arr(v("y"), argVar{"_"})},
		}
		names := []string{"first-arg-var", "anon-chain", "named-self", "nested-literal-anon-chain", "anon-chain-in-closure-with-arg", "kwargs-through-propcall"}
		for _, pn := range names {
			body := probes[pn]
			defs := []node{set("o2", o2), set("o", objSrc(kind, body))}
			forms := map[string]node{
				"property-call":      propCall{recv: v("o"), name: "p", args: []arg{{kind: "pos", e: i(1)}}},
				"indexed-call":       call{callee: index{v("o"), symLit{"p"}}, args: []arg{{kind: "pos", e: v("o")}, {kind: "pos", e: i(1)}}},
				"property-call-kw":   propCall{recv: v("o"), name: "p", args: []arg{{kind: "pos", e: i(1)}, {kind: "kw", name: "q", e: i(2)}}},
				"property-no-args":   propCall{recv: v("o"), name: "p", args: nil},
				"property-extra-arg": propCall{recv: v("o"), name: "p", args: []arg{{kind: "pos", e: i(1)}, {kind: "pos", e: i(2)}}},
			}
			for _, fnm := range []string{"property-call", "indexed-call", "property-call-kw", "property-no-args", "property-extra-arg"} {
				emit(mk("G3/"+kind+"/"+pn+"/"+fnm, true, append(append([]node{}, defs...), forms[fnm])))
			}
			// extracted function called as an ordinary function with another receiver
			emit(mk("G3/"+kind+"/"+pn+"/extracted", true, append(append([]node{}, defs...), set("g2", index{v("o"), symLit{"p"}}), callv("g2", v("o2"), i(1)))))
		}
		// non-callable property: returned as is, arguments ignored
		emit(mk("G3/non-callable", true, []node{set("o", objLit{[]pair{{"v", i(5)}}}), arr(propCall{recv: v("o"), name: "v", noParens: true}, propCall{recv: v("o"), name: "v", args: []arg{{kind: "pos", e: i(1)}, {kind: "pos", e: i(2)}}})}))
	}
}

// ---------------------------------------------------------------- G4

func genG4(emit func(tcase)) {
	for depth := 0; depth <= 4; depth++ {
		// per-frame locals survive the recursive call
		f := fn([]string{"n"},
			set("loc", infix{"*", v("n"), i(10)}),
			retIf{arr(v("loc")), infix{"==", v("n"), i(0)}},
			set("r", callv("f", infix{"-", v("n"), i(1)})),
			arrLit{[]arg{{kind: "pos", e: v("loc")}, {kind: "pos", e: v("n")}, {kind: "star", e: v("r")}}})
		emit(mk("G4/frame-locals", true, []node{set("f", f), callv("f", i(depth))}))
		// closures escaping their frame keep it
		g := fn([]string{"n"},
			set("c", fn(nil, set("n", plus(v("n"), i(100))), v("n"))),
			retIf{arr(v("c")), infix{"==", v("n"), i(0)}},
			arrLit{[]arg{{kind: "pos", e: v("c")}, {kind: "star", e: callv("g", infix{"-", v("n"), i(1)})}}})
		prog := []node{set("g", g), set("cs", callv("g", i(depth)))}
		var calls []node
		for k := 0; k <= depth; k++ {
			calls = append(calls, call{callee: index{v("cs"), i(k)}})
			calls = append(calls, call{callee: index{v("cs"), i(k)}})
		}
		prog = append(prog, arr(calls...))
		emit(mk("G4/escaping-closures", true, prog))
		// a variable assigned in the recursive callee does not leak into the caller frame
		h := fn([]string{"n"},
			set("tmp", v("n")),
			retIf{v("tmp"), infix{"==", v("n"), i(0)}},
			callv("h", infix{"-", v("n"), i(1)}),
			v("tmp"))
		emit(mk("G4/no-leak-from-callee", true, []node{set("tmp", i(-1)), set("h", h), arr(callv("h", i(depth)), v("tmp"))}))
		// accumulating through an outer variable is not possible (assignment is local): the outer value stays
		k := fn([]string{"n"},
			add("acc", v("n")),
			retIf{v("acc"), infix{"==", v("n"), i(0)}},
			callv("k", infix{"-", v("n"), i(1)}))
		emit(mk("G4/compound-assign-is-local", true, []node{set("acc", i(1000)), set("k", k), arr(callv("k", i(depth)), v("acc"))}))
	}
}

// ---------------------------------------------------------------- G5

// genG5: sequences of calls whose argument lists unpack the SAME objects/arrays (held in variables):
// each call receives exactly its own arguments whatever the earlier calls unpacked, and the unpacked
// objects are unchanged afterwards.
func genG5(depth int, emit func(tcase)) {
	ds := func(n string) arg { return arg{kind: "dstar", e: v(n)} }
	st := func(n string) arg { return arg{kind: "star", e: v(n)} }
	lists := [][]arg{
		{ds("opts")},
		{ds("opts"), ds("extra")},
		{ds("extra"), ds("opts")},
		{ds("opts"), ds("both")},
		{st("xs")},
		{st("xs"), ds("opts")},
		{{kind: "pos", e: i(1)}, ds("extra")},
		{st("xs"), st("xs")},
		{{kind: "kw", name: "j", e: i(9)}, ds("opts")},
		{{kind: "kw", name: "q", e: i(9)}, ds("both"), ds("extra")},
	}
	f := funcLit{params: []string{"a"}, kw: []kwparam{{"k", i(10)}}, body: []node{arr(v("a"), v("k"), argVar{"0"}, argVar{"_"})}}
	m := funcLit{params: []string{"a"}, kw: []kwparam{{"k", i(10)}}, method: true, body: []node{arr(v("a"), v("k"), argVar{"_"})}}
	defs := []node{
		set("f", f), set("o", objLit{[]pair{{"m", m}}}),
		set("opts", objLit{[]pair{{"k", i(70)}}}), set("extra", objLit{[]pair{{"j", i(80)}}}),
		set("both", objLit{[]pair{{"y", i(81)}, {"z", i(71)}}}), set("xs", arr(i(5), i(6))),
	}
	var rec func(seq []node, n int)
	rec = func(seq []node, n int) {
		if n > 0 {
			prog := append(append([]node{}, defs...), arr(append(append([]node{}, seq...), v("opts"), v("extra"), v("both"), v("xs"))...))
			emit(mk("G5/shared-argument-objects", n > 1, prog))
		}
		if n == depth {
			return
		}
		for _, al := range lists {
			rec(append(append([]node{}, seq...), call{callee: v("f"), args: al}), n+1)
			if n+1 == depth { // the method form only as the last call
				rec(append(append([]node{}, seq...), propCall{recv: v("o"), name: "m", args: al}), n+1)
			}
		}
	}
	rec(nil, 0)
}

// ---------------------------------------------------------------- G6

// genG6: a function value travels between names: its body refers to a name (its own or another one of the
// defining scope) that is rebound later, the value is kept under an alias, bound to a further name, passed
// around - every call must see the bindings of the defining scope as they are at the time of the call.
func genG6(emit func(tcase)) {
	// recursive function through its own name
	fact := fn([]string{"n"}, retIf{i(1), infix{"==", v("n"), i(0)}}, infix{"*", v("n"), callv("fact", infix{"-", v("n"), i(1)})})
	// body with two free names
	chk := fn([]string{"n"}, arr(v("n"), v("lim"), v("chk")))
	steps := map[string]node{
		"alias-fact":       set("orig", v("fact")),
		"rebind-fact":      set("fact", fn([]string{"n"}, i(100))),
		"rebind-fact-int":  set("fact", i(7)),
		"bind-lim-to-func": set("lim", v("chk")),
		"rebind-lim":       set("lim", i(2)),
		"alias-chk":        set("c2", v("chk")),
		"rebind-chk":       set("chk", i(9)),
		"compound-lim":     add("lim", i(1)),
		"right-assign":     assignRight("lim2", v("chk")),
	}
	names := []string{"alias-fact", "rebind-fact", "rebind-fact-int", "bind-lim-to-func", "rebind-lim", "alias-chk", "rebind-chk", "compound-lim", "right-assign"}
	probe := func(defined map[string]bool) node {
		var ps []node
		for _, n := range []string{"fact", "orig"} {
			if defined[n] {
				ps = append(ps, callv(n, i(3)))
			}
		}
		for _, n := range []string{"chk", "c2", "lim2"} {
			if defined[n] {
				ps = append(ps, index{callv(n, i(1)), i(0)}, index{callv(n, i(1)), i(1)})
			}
		}
		return arr(ps...)
	}
	var rec func(seq []string, prog []node, def map[string]string)
	rec = func(seq []string, prog []node, def map[string]string) {
		if len(seq) > 0 {
			callable := map[string]bool{}
			for n, k := range def {
				callable[n] = k == "fact" || k == "chk"
			}
			// only names that hold one of the two functions are called (kind tracked in def)
			cf := map[string]bool{}
			for _, n := range []string{"fact", "orig"} {
				cf[n] = def[n] == "fact"
			}
			for _, n := range []string{"chk", "c2", "lim2"} {
				cf[n] = def[n] == "chk"
			}
			// fact's body calls the name `fact`: callable only while that name holds a function
			if def["fact"] != "fact" && def["fact"] != "const" {
				cf["orig"] = false
				cf["fact"] = false
			}
			if def["lim"] == "chk" {
				// printing the function itself is not compared: take element 0 only (done in probe via index 0/1 -> skip 1)
				cf["chk"], cf["c2"], cf["lim2"] = false, false, false
			}
			emit(mk("G6/rebinding-history", true, append(append([]node{}, prog...), probe(cf))))
		}
		if len(seq) == 3 {
			return
		}
		for _, st := range names {
			nd := map[string]string{}
			for k, val := range def {
				nd[k] = val
			}
			switch st {
			case "alias-fact":
				nd["orig"] = def["fact"]
			case "rebind-fact":
				nd["fact"] = "const"
			case "rebind-fact-int":
				nd["fact"] = "int"
			case "bind-lim-to-func":
				nd["lim"] = def["chk"]
			case "rebind-lim":
				nd["lim"] = "int"
			case "alias-chk":
				nd["c2"] = def["chk"]
			case "rebind-chk":
				nd["chk"] = "int"
			case "compound-lim":
				if def["lim"] != "int" {
					continue
				}
			case "right-assign":
				nd["lim2"] = def["chk"]
			}
			rec(append(append([]string{}, seq...), st), append(append([]node{}, prog...), steps[st]), nd)
		}
	}
	base := []node{set("lim", i(5)), set("fact", fact), set("chk", chk)}
	rec(nil, base, map[string]string{"lim": "int", "fact": "fact", "chk": "chk"})
}

// ---------------------------------------------------------------- G7 / G8 / G9

// genG7: a property call in a list chain passes the receiver first and the SAME written arguments to every element
// (k = 0..14 positional arguments, with and without a keyword argument; function and method properties).
func genG7(emit func(tcase)) {
	for k := 0; k <= 14; k++ {
		args := make([]string, k)
		for i := range args {
			args[i] = fmt.Sprint(100 + i)
		}
		al := strings.Join(args, ", ")
		for _, kind := range []string{"method", "func"} {
			prop := "m{|| [self['id], \\0[1:], \\_]}"
			if kind == "func" {
				prop = "{|s| [s['id], \\0[1:], \\_]}"
			}
			for _, kw := range []string{"", "q: 7"} {
				call := al
				if kw != "" {
					if call != "" {
						call += ", "
					}
					call += kw
				}
				kwRepr := "{}"
				if kw != "" {
					kwRepr = `{"q": 7}`
				}
				var want []string
				for id := 1; id <= 3; id++ {
					want = append(want, fmt.Sprintf("[%d, [%s], %s]", id, al, kwRepr))
				}
				for _, ch := range []string{"@", "=@", "&@"} {
					src := "mk := {|i| {id: i, p: " + prop + "}}\nos := [mk(1), mk(2), mk(3)]\nos" + ch + "p(" + call + ")"
					emit(tcase{Family: "G7/list-chain-property-call-arguments", Src: src, Val: "[" + strings.Join(want, ", ") + "]", NT: true})
				}
			}
		}
	}
}

// genG8: one literal evaluated several times (a factory called twice, the body of a list chain): every function
// value has the keyword defaults and the captured variables of ITS evaluation.
func genG8(emit func(tcase)) {
	mkf := fn([]string{"d"}, funcLit{kw: []kwparam{{"k", v("d")}}, params: []string{"a"}, body: []node{arr(v("a"), v("k"), v("d"))}})
	for _, calls := range [][][2]int{{{1, 0}, {2, 0}}, {{1, 0}, {2, 0}, {1, 0}}, {{5, 0}, {5, 9}, {6, 0}}, {{3, 9}, {4, 0}, {3, 0}}} {
		prog := []node{set("mkf", mkf)}
		var res []node
		for ci, cl := range calls {
			name := fmt.Sprintf("f%d", ci)
			prog = append(prog, set(name, callv("mkf", intLit{cl[0]})))
		}
		for ci, cl := range calls {
			name := fmt.Sprintf("f%d", ci)
			if cl[1] == 0 {
				res = append(res, callv(name, i(7)))
			} else {
				res = append(res, call{callee: v(name), args: []arg{{kind: "pos", e: i(7)}, {kind: "kw", name: "k", e: intLit{cl[1]}}}})
			}
		}
		prog = append(prog, arr(res...))
		emit(mk("G8/literal-evaluated-twice/factory", true, prog))
	}
	emit(tcase{Family: "G8/literal-evaluated-twice/list-chain-body", Src: "fs := [100, 200, 300]@{|i| {|base: i, twice: i * 2| [base, twice, i]}}\n[fs[0](), fs[1](), fs[2](), fs[1](base: 5), fs[0].kwargs, fs[2].kwargs]",
		Val: `[[100, 200, 100], [200, 400, 200], [300, 600, 300], [5, 400, 200], {"base": 100, "twice": 200}, {"base": 300, "twice": 600}]`, NT: true})
	emit(tcase{Family: "G8/literal-evaluated-twice/recursion", Src: "mk := {|n| return [] if n == 0; [{|k: n| k}, *mk(n - 1)]}\nmk(3)@{|f| f()}", Val: "[3, 2, 1]", NT: true})
}

// genG9: the first call of a function value binds names that a later call does not bind again (an extra positional
// argument, an undeclared keyword argument, a keyword parameter): the later call sees exactly what IT received.
func genG9(emit func(tcase)) {
	type cl struct {
		args []arg
	}
	p := func(n int) arg { return arg{kind: "pos", e: intLit{n}} }
	kw := func(name string, n int) arg { return arg{kind: "kw", name: name, e: intLit{n}} }
	firsts := [][]arg{{p(1), p(2)}, {p(1), p(2), p(3)}, {p(1), kw("opt", 5)}, {p(1), kw("k", 6)}, {p(1), p(2), kw("opt", 5), kw("k", 6)}}
	bodies := map[string]node{"second-arg": argVar{"2"}, "undeclared-kw": argVar{"opt"}, "declared-kw": arr(v("k"), argVar{"_"}), "all-args": arr(argVar{"0"}, argVar{"_"}), "declared-kw-var": argVar{"k"}}
	names := []string{"second-arg", "undeclared-kw", "declared-kw", "all-args", "declared-kw-var"}
	for _, bn := range names {
		for fi, first := range firsts {
			f := funcLit{params: []string{"a"}, kw: []kwparam{{"k", i(10)}}, body: []node{bodies[bn]}}
			// the first call itself may legitimately fail (the name is not bound): it is wrapped away by binding the value first
			prog := []node{set("f", f), set("g", f)}
			prog = append(prog, call{callee: group{funcLit{body: []node{call{callee: v("f"), args: first}}}}})
			_ = fi
			prog = append(prog, call{callee: v("f"), args: []arg{p(1)}})
			emit(mk("G9/first-call-binds-extra-names/"+bn, true, prog))
		}
	}
}

// ---------------------------------------------------------------- G10: functions written in an imported file

// A module's functions were written in the module file: their free names resolve in the module's scope and
// then in the global scope, never in the scope of the function that happened to evaluate `import`.
const g10Mod = "describe := m{|x| [x, unit]}\nprice := m{|n| n * rate}\ntopLevelUnit := unit\ncount := 0\nbump := m{count := count + 1; count}\n"

func genG10(emit func(tcase)) {
	type shadow struct{ param, arg, local string }
	shadows := []shadow{{"unit", `"local-unit"`, ""}, {"rate", "1000", ""}, {"unit", `"local-unit"`, "rate := 1000; count := 50; "}, {"zz", "0", "describe := 5; unit := \"assigned-local\"; "}}
	for _, sh := range shadows {
		wrappers := map[string]string{
			"top-level":     `mm := import("./mod")`,
			"function":      fmt.Sprintf(`load := {|%s| %simport("./mod")}`+"\nmm := load(%s)", sh.param, sh.local, sh.arg),
			"nested":        fmt.Sprintf(`load := {|%s| %s{|| import("./mod")}()}`+"\nmm := load(%s)", sh.param, sh.local, sh.arg),
			"method":        fmt.Sprintf(`mm := {get: m{|%s| %simport("./mod")}}.get(%s)`, sh.param, sh.local, sh.arg),
			"chain-element": fmt.Sprintf(`mm := [%s]@{|%s| %simport("./mod")}[0]`, sh.arg, sh.param, sh.local),
			"second-import": fmt.Sprintf(`m0 := import("./mod")`+"\n"+`load := {|%s| %simport("./mod")}`+"\nmm := load(%s)", sh.param, sh.local, sh.arg),
		}
		names := make([]string, 0, len(wrappers))
		for n := range wrappers {
			names = append(names, n)
		}
		sort.Strings(names)
		for _, wn := range names {
			for _, re := range []bool{false, true} {
				src := "unit := \"global-unit\"\nrate := 2\n" + wrappers[wn] + "\n"
				rate := 20
				if re {
					src += "rate := 3\n"
					rate = 30
				}
				src += "[mm.describe(1), mm.price(10), mm.topLevelUnit, mm.bump, mm.bump, unit, rate].p\n"
				want := fmt.Sprintf("[[1, \"global-unit\"], %d, \"global-unit\", 1, 1, \"global-unit\", %d]\n", rate, rate/10)
				emit(tcase{Family: "G10/import-" + wn, Src: src, Mod: g10Mod, Out: want, NT: true})
			}
		}
	}
}

func judgeCLI(c *core.Ctx, t tcase) {
	c.Eval(1)
	c.Validated(1)
	c.Nontrivial(1)
	cli := os.Getenv("PANMC_CLI")
	if cli == "" {
		c.HarnessError("PANMC_CLI is not set")
		return
	}
	dir, err := os.MkdirTemp(os.Getenv("PANMC_SCRATCH"), "c03mod")
	if err != nil {
		c.HarnessError("%v", err)
		return
	}
	defer os.RemoveAll(dir)
	os.WriteFile(filepath.Join(dir, "mod.pangaea"), []byte(t.Mod), 0o644)
	os.WriteFile(filepath.Join(dir, "main.pangaea"), []byte(t.Src), 0o644)
	cmd := exec.Command("timeout", "30", cli, filepath.Join(dir, "main.pangaea"))
	cmd.Dir = dir
	var so, se strings.Builder
	cmd.Stdout, cmd.Stderr = &so, &se
	cmd.Run()
	c.Outcome("G10:" + map[bool]string{true: "ok", false: "differs"}[so.String() == t.Out])
	if so.String() != t.Out {
		c.Violation(core.Violation{Key: t.Family + "/value", Case: core.JSON(t), Desc: strings.ReplaceAll(t.Src, "\n", " ;; "), Expected: fmt.Sprintf("stdout %q", t.Out),
			Observed: fmt.Sprintf("stdout %q stderr %.200q", so.String(), se.String())})
	}
}

// ---------------------------------------------------------------- G11: an array receiver spread over several parameters

// A literal or variable call whose function has two or more parameters binds the elements of an array receiver
// positionally (missing ones nil, extra ones ignored), for every length including 0 and however the array was made.
func genG11(emit func(tcase)) {
	type recv struct {
		src   string
		elems []string
	}
	recvs := []recv{{"[]", nil}, {"[1]", []string{"1"}}, {"[1, 2]", []string{"1", "2"}}, {"[1, 2, 3]", []string{"1", "2", "3"}}, {"[1, 2, 3, 4]", []string{"1", "2", "3", "4"}},
		{"[1, 2, 3][3:]", nil}, {"[1, 2, 3]@{|x| x if x > 5}", nil}, {"[1, 2, 3][1:]", []string{"2", "3"}}, {"([1] + [2])", []string{"1", "2"}}, {"[nil, 2]", []string{"nil", "2"}}, {"[[1, 2]]", []string{"[1, 2]"}}}
	bind := func(elems []string, n int) string {
		out := make([]string, n)
		for i := range out {
			out[i] = "nil"
			if i < len(elems) {
				out[i] = elems[i]
			}
		}
		return "[" + strings.Join(out, ", ") + "]"
	}
	for n := 2; n <= 3; n++ {
		params := []string{"a", "b", "c"}[:n]
		lit := "{|" + strings.Join(params, ", ") + "| [" + strings.Join(params, ", ") + "]}"
		mparams := params[:n-1]
		mlit := "m{|" + strings.Join(mparams, ", ") + "| [self, " + strings.Join(mparams, ", ") + "]}"
		var rows, wants []string
		for _, r := range recvs {
			w := bind(r.elems, n)
			emit(tcase{Family: "G11/literal-call", Src: r.src + "." + lit, Val: w, NT: true})
			emit(tcase{Family: "G11/variable-call", Src: "f := " + lit + "\n" + r.src + ".^f", Val: w, NT: true})
			emit(tcase{Family: "G11/method-literal-call", Src: r.src + "." + mlit, Val: w, NT: true})
			emit(tcase{Family: "G11/thoughtful-literal-call", Src: r.src + "~." + lit, Val: w, NT: true})
			rows = append(rows, r.src)
			wants = append(wants, w)
		}
		all := "[" + strings.Join(rows, ", ") + "]"
		emit(tcase{Family: "G11/list-chain-literal", Src: all + "@" + lit, Val: "[" + strings.Join(wants, ", ") + "]", NT: true})
		emit(tcase{Family: "G11/list-chain-variable", Src: "f := " + lit + "\n" + all + "@^f", Val: "[" + strings.Join(wants, ", ") + "]", NT: true})
	}
	// one parameter: the array is the argument itself
	for _, r := range recvs[:5] {
		emit(tcase{Family: "G11/one-parameter", Src: r.src + ".{|a| [a]}", Val: "[" + r.src + "]", NT: true})
	}
}

// ---------------------------------------------------------------- G12: calls with many positional arguments

// \N names the N-th argument received, for every N (one- and two-digit), in plain calls, method calls and
// literal calls with a spread receiver.
func genG12(emit func(tcase)) {
	for n := 1; n <= 14; n++ {
		var args, vars, want []string
		for k := 1; k <= n; k++ {
			args = append(args, fmt.Sprint(100+k))
			vars = append(vars, fmt.Sprintf("\\%d", k))
			want = append(want, fmt.Sprint(100+k))
		}
		a, v, w := strings.Join(args, ", "), strings.Join(vars, ", "), strings.Join(want, ", ")
		emit(tcase{Family: "G12/plain-call", Src: "f := {|| [" + v + ", \\0.len]}\nf(" + a + ")", Val: "[" + w + ", " + fmt.Sprint(n) + "]", NT: true})
		emit(tcase{Family: "G12/declared-params", Src: "f := {|p, q| [" + v + ", p]}\nf(" + a + ")", Val: "[" + w + ", 101]", NT: true})
		emit(tcase{Family: "G12/star-expansion", Src: "f := {|| [" + v + "]}\nxs := [" + a + "]\nf(*xs)", Val: "[" + w + "]", NT: true})
		if n >= 2 {
			// a method call prepends the receiver: \1 is the receiver, \k the (k-1)-th written argument
			emit(tcase{Family: "G12/method-call", Src: "o := {g: m{|| [" + strings.Join(vars[1:], ", ") + "]}}\no.g(" + strings.Join(args[1:], ", ") + ")", Val: "[" + strings.Join(want[1:], ", ") + "]", NT: true})
		}
	}
}

// ---------------------------------------------------------------- G13/G14: literals that are started or created elsewhere

// G13: an iterator literal sees the scope where it was written wherever it is started with `new`.
// G14: a function literal given to Str#eval is written in the scope that calls eval (later reassignments and
// later definitions there are visible; assignments made by the evaluated text stay inside it).
func genG13(emit func(tcase)) {
	mk := "mk := {|step| <{|i| yield i if i < 40; recur(i + step)}>}\n"
	for _, st := range []int{10, 5} {
		want := fmt.Sprintf("[0, %d, %d]", st, 2*st)
		take := ".{|it| [it.next, it.next, it.next]}"
		emit(tcase{Family: "G13/new-at-top-level-with-other-step", Src: mk + "step := 1\n" + fmt.Sprintf("mk(%d).new(0)", st) + take, Val: want, NT: true})
		emit(tcase{Family: "G13/new-in-function-with-same-named-parameter", Src: mk + "start := {|gen, step| gen.new(0)}\n" + fmt.Sprintf("start(mk(%d), 1000)", st) + take, Val: want, NT: true})
		emit(tcase{Family: "G13/new-in-method", Src: mk + "o := {step: 77, start: m{|gen| step := 3; gen.new(0)}}\n" + fmt.Sprintf("o.start(mk(%d))", st) + take, Val: want, NT: true})
		emit(tcase{Family: "G13/new-in-chain-block", Src: mk + fmt.Sprintf("[1000]@{|step| mk(%d).new(0)}[0]", st) + take, Val: want, NT: true})
		emit(tcase{Family: "G13/A-elsewhere", Src: mk + "step := 1\n" + fmt.Sprintf("{|step| mk(%d).new(0).A[0:3]}(500)", st), Val: want, NT: true})
		emit(tcase{Family: "G13/new-where-written", Src: fmt.Sprintf("{|step| <{|i| yield i if i < 40; recur(i + step)}>.new(0)}(%d)", st) + take, Val: want, NT: true})
	}
	emit(tcase{Family: "G13/caller-local-not-visible", Src: "leaky := {|| <{|i| yield secret}>}\nstarter := {|gen| secret := 5; gen.new(0)}\nstarter(leaky()).try.next.err?", Val: "true", NT: true})
	emit(tcase{Family: "G13/copy-started-elsewhere", Src: "mk := {|step| <{|i| yield i if i < 40; recur(i + step)}>.new(0)}\nit := mk(4)\n{|step| it.new(1).A[0:3]}(9)", Val: "[1, 5, 9]", NT: true})
}

func genG14(emit func(tcase)) {
	emit(tcase{Family: "G14/eval-literal-sees-later-reassignment", Src: "rate := 10\nprice := \"{|n| n * rate}\".eval\na := price(2)\nrate := 20\n[a, price(2)]", Val: "[20, 40]", NT: true})
	emit(tcase{Family: "G14/eval-literal-sees-later-definition", Src: "twice := \"{|n| double(n)}\".eval\ndouble := {|n| n * 2}\ntwice(21)", Val: "42", NT: true})
	emit(tcase{Family: "G14/eval-literal-in-function", Src: "unit := 1\nmk := {|k| f := \"{|n| [n * k, unit]}\".eval; k += 1; f}\ng := mk(3)\nunit := 2\ng(10)", Val: "[40, 2]", NT: true})
	emit(tcase{Family: "G14/eval-assignment-stays-inside", Src: "rate := 10\n[\"rate := 99; rate\".eval, rate]", Val: "[99, 10]", NT: true})
	emit(tcase{Family: "G14/eval-sees-caller-locals", Src: "{|a| b := a + 1; \"a * 10 + b\".eval}(3)", Val: "34", NT: true})
	emit(tcase{Family: "G14/evalEnv-does-not-see-caller-locals", Src: "{|a| \"c := 1\".evalEnv.keys}(3)", Val: "[\"c\"]", NT: true})
	emit(tcase{Family: "G14/curry", Src: "add := {|a, b| a + b}\n(add.curry)(1)(2)", Val: "3", NT: true})
}

// G15: a name bound again in an inner scope (x := x, a parameter, a keyword parameter, a local literal, a block
// parameter, an iterator parameter) to the very object - or to an equal cached value - the enclosing variable of the
// same name holds is the call's OWN variable: closures made there keep it when the enclosing variable is reassigned.
func genG15(emit func(tcase)) {
	vals := [][2]string{{"true", "true"}, {"false", "false"}, {"nil", "nil"}, {"0", "0"}, {"1", "1"}, {"5", "5"}, {"100", "100"}, {"-1", "-1"}, {"1.5", "1.500000"},
		{"\"s\"", "\"s\""}, {"'sym", "\"sym\""}, {"[1]", "[1]"}, {"{a: 1}", "{\"a\": 1}"}}
	ways := []struct{ name, def, use string }{
		{"assign-self", "mk := {|| x := x; {|| x}}", "c := mk()"},
		{"positional-parameter", "mk := {|x| {|| x}}", "c := mk(x)"},
		{"keyword-parameter", "mk := {|x: 99| {|| x}}", "c := mk(x: x)"},
		{"equal-literal", "mk := {|| x := LIT; {|| x}}", "c := mk()"},
		{"block-parameter", "", "c := [x]@{|x| {|| x}}[0]"},
		{"method-parameter", "o := {mk: m{|x| {|| x}}}", "c := o.mk(x)"},
		{"parameter-then-assign-self", "mk := {|x| x := x; {|| x}}", "c := mk(x)"},
		{"local-from-other-parameter", "mk := {|y| x := y; {|| x}}", "c := mk(x)"},
		{"right-assign-self", "mk := {|| x => x; {|| x}}", "c := mk()"},
		{"iterator-parameter", "", "it := <{|x| yield x; recur(x)}>.new(x)\nc := {|| it.next}"},
		{"expansion", "mk := {|x| {|| x}}", "c := mk(*[x])"},
		{"keyword-expansion", "mk := {|x: 99| {|| x}}", "c := mk(**{x: x})"},
	}
	for _, val := range vals {
		for _, w := range ways {
			for _, nw := range [][2]string{{"42", "42"}, {"\"new\"", "\"new\""}} {
				for depth := 0; depth <= 1; depth++ {
					lines := []string{"x := " + val[0]}
					if w.def != "" {
						lines = append(lines, strings.ReplaceAll(w.def, "LIT", val[0]))
					}
					lines = append(lines, w.use, "first := c()", "x := "+nw[0], "[first, c(), x]")
					src := strings.Join(lines, "\n")
					if depth == 1 {
						src = "{||\n" + src + "\n}()"
					}
					emit(tcase{Family: "G15/" + w.name, Src: src, Val: "[" + val[1] + ", " + val[1] + ", " + nw[1] + "]", NT: true})
				}
			}
		}
	}
}

// G16: a parameter that receives nothing (a keyword parameter left out, a positional parameter beyond the passed
// arguments) has its default / nil, whatever variable of the same name is visible from the defining scope.
func genG16(emit func(tcase)) {
	for _, n := range []string{"k", "to", "assert", "puts"} {
		for _, outer := range []string{"", n + " := 5\n", n + " := nil\n", n + " := {|| 9}\n"} {
			for depth := 0; depth <= 1; depth++ {
				add := func(name, body, val string) {
					src := outer + body
					if depth == 1 {
						src = "{||\n" + src + "\n}()"
					}
					emit(tcase{Family: "G16/" + name, Src: src, Val: val, NT: true})
				}
				r := strings.NewReplacer("K", n)
				add("keyword-left-out", r.Replace("f := {|a, K: 1| [a, K]}\n[f(0), f(0, K: 2), f(K: 3, 0), f(0, **{K: 4}), f(0, **{})]"), "[[0, 1], [0, 2], [0, 3], [0, 4], [0, 1]]")
				add("nested-same-keyword", r.Replace("o := {|K: 1| inner := {|K: 2| K}; [K, inner(), inner(K: 3)]}\n[o(), o(K: 10)]"), "[[1, 2, 3], [10, 2, 3]]")
				add("method-keyword", r.Replace("ob := {g: m{|K: 1| K}}\nfirst := ob.g\nK := 77\n[first, ob.g, ob.g(K: 2)]"), "[1, 1, 2]")
				add("iterator-keyword", r.Replace("[<{|K: 1| yield K}>.new.next, <{|K: 1| yield K}>.new(K: 2).next]"), "[1, 2]")
				add("positional-left-out", r.Replace("f := {|a, K| [a, K]}\n[f(0), f(0, 2), f()]"), "[[0, nil], [0, 2], [nil, nil]]")
				add("chain-block-keyword", r.Replace("[10, 20]@{|x, K: 1| x + K}"), "[11, 21]")
				add("keyword-assigned-later-outside", r.Replace("f := {|K: 1| K}\na1 := f()\nK := 88\n[a1, f(), f(K: 2)]"), "[1, 1, 2]")
			}
		}
	}
}

// G18: a variable named like a name of the root scope (built-in prototypes, constants, kernel functions) is a variable
// like any other: bound as a parameter / keyword parameter / local / block parameter / iterator parameter of an
// enclosing function, it is what closures nested 1..3 levels below read, and the root name is back outside.
func genG18(emit func(tcase)) {
	names := []string{"Int", "Str", "Arr", "Obj", "Map", "Err", "Kernel", "Iterable", "Either", "true", "false", "nil", "assert", "import", "invite!", "Comparable", "Func", "Range", "StopIterErr", "x"}
	binders := []struct{ name, open, close string }{
		{"parameter", "{|N| ", "}(VAL)"},
		{"keyword-parameter", "{|N: 0| ", "}(N: VAL)"},
		{"keyword-default", "{|N: VAL| ", "}()"},
		{"local", "{|| N := VAL; ", "}()"},
		{"block-parameter", "[VAL]@{|N| ", "}[0]"},
		{"method-parameter", "{f: m{|N| ", "}}.f(VAL)"},
		{"iterator-parameter", "<{|N| yield ", "}>.new(VAL).next"},
	}
	for _, n := range names {
		for _, b := range binders {
			for depth := 0; depth <= 3; depth++ {
				inner := n
				for d := 0; d < depth; d++ {
					inner = "{|| " + inner + "}()"
				}
				r := strings.NewReplacer("N", n, "VAL", "41")
				src := "before := " + n + ".repr\nv := " + r.Replace(b.open) + inner + r.Replace(b.close) + "\n[v, " + n + ".repr == before]"
				if n == "x" {
					src = "x := 0\n" + src
				}
				emit(tcase{Family: "G18/" + b.name, Src: src, Val: "[41, true]", NT: true})
			}
		}
	}
}

// G17: parameters are bound per call - EVERY kind of expression written over the parameters of a function gives, on every
// call, what a function literal written for that one call gives (another syntax node, evaluated once; differential, no model):
// a catalogue of expression templates covering the syntax (literals with computed parts, expansions, chains with chain
// arguments, calls, indexing, conditionals, interpolation, ranges, literals of functions / methods / iterators called
// at once, try chains) x every sequence of 2 (thorough 3) argument tuples out of 4 per signature.
type g17sig struct {
	params []string
	tuples [][]string
}

var g17sigs = map[string]g17sig{
	"io": {[]string{"pi", "po"}, [][]string{{"1", "{a: 1}"}, {"2", "{b: 2, a: 3}"}, {"0", "{}"}, {"1", "{_p: 1, c: [1]}"}}},
	"il": {[]string{"pi", "pl"}, [][]string{{"1", "[7]"}, {"2", "[8, 9, 10]"}, {"0", "[]"}, {"1", "[nil, [1]]"}}},
	"is": {[]string{"pi", "ps"}, [][]string{{"1", "\"x\""}, {"2", "\"yy zz\""}, {"0", "\"\""}, {"1", "\"_k\""}}},
	"im": {[]string{"pi", "pm"}, [][]string{{"1", "%{1: 2}"}, {"2", "%{'k: 1, [1]: 2}"}, {"0", "%{}"}, {"1", "%{1: 3, 2: 4}"}}},
	"if": {[]string{"pi", "pf"}, [][]string{{"1", "{|x| x + 1}"}, {"2", "{|x| x * 2}"}, {"0", "{|x| nil}"}, {"3", "{|x| [x]}"}}},
}

var g17templates = map[string][]string{
	"io": {"{x: pi, **po}", "{**po}", "{\"k#{pi}\": po}", "%{pi: po}", "%{'z: pi, **po}", "po.keys(private?: true)", "po.bear({n: pi}).n", "[pi, po]", "kw(**po)", "kw(x: pi, **po)", "po@{|k, v| [k, v, pi]}",
		"[['w, pi]]@({**po}){|p| p}", "[pi]$({**po}){|acc, x| acc}", "po == {a: pi}", "(pi if po else -pi)", "po['a]", "\"#{pi}:#{po}\"", "(po || pi)", "(po && pi)", "!po", "po.try.a.or(pi)", "{**po, **{a: pi}}", "{a: pi, **po}.a",
		"{|| [pi, po]}()", "m{[self, pi, po]}(0)", "<{|| yield [pi, po]}>.new.next", "po.{|x| [x, pi]}", "[po]@{|x| x.keys}", "{p: po, i: pi}.p", "(pi:pi + 3).A + [po]", "po.which('a) == po", "pi.try.{|x| x + po.a}.A",
		// the written parts are constants, only the expansion varies
		"{k: 0, **po}", "%{'z: 0, **po}", "[['w, 0]]@({k: 0, **po}){|p| p}", "[0]$({k: 0, **po}){|acc, x| acc}", "kw(x: 0, **po)", "{k: 0, **po}.keys(private?: true)", "[0, po][1]", "{k: [0], in: {**po}}"},
	"il": {"[pi, *pl]", "[*pl, pi]", "[*pl, *pl]", "pl[pi]", "pl[pi:]", "pl[:pi]", "pl[::pi]", "(pi:pl.len).A", "pl@{|x| [x, pi]}", "pl$([pi]){|acc, x| acc + [x]}", "[pi]@([*pl]){|x| x}", "pos(*pl)", "pos(pi, *pl)", "pl + [pi]", "pl * pi",
		"pl.len + pi", "pl&@{|x| x}", "pl~@{|x| x}", "pl=@{|x| x}", "<{|n| yield n if n < pi; recur(n + 1)}>.new(0).A", "<{|n: pi| yield n}>.new.next", "{|x: pi| [x, pl]}()", "m{|y: pl| [self, y]}(pi)", "pl.{|a, b| [a, b]}", "pl@{|a, b| [a, b]}",
		"[pl, pl][pi]", "pl == [pi]", "\"#{pl}#{pi}\"", "pl.try.at([pi]).A", "{v: pl}.v[pi]", "[pi] if pl else pl",
		"[0, *pl]", "[*pl, 0]", "[0]@([9, *pl]){|x| x}", "pos(0, *pl)", "[1, 2]$([0, *pl]){|acc, x| acc + [x]}", "[[0], [*pl]]"},
	"is": {"\"a#{pi}b#{ps}\"", "ps + pi.S", "ps * pi", "ps[pi]", "ps[:pi]", "%{ps: pi}", "{\"#{ps}\": pi}.keys(private?: true)", "ps.sym?", "ps == \"x\"", "ps.len + pi", "[ps, *ps.A]", "ps@{|c| [c, pi]}", "{^ps: pi}.keys(private?: true)", "ps.try.uc.A", "(ps if ps else pi)", "ps.{|x| x * pi}"},
	"im": {"%{**pm}", "%{pi: 0, **pm}", "pm[pi]", "pm.keys", "pm@{|k, v| [k, v, pi]}", "[[pi, pi]]@(%{**pm}){|p| p}", "pm == %{1: pi}", "%{**pm, **pm}.len", "pm.len + pi", "[pm, pi]", "\"#{pm}\"",
		"%{'z: 0, **pm}", "%{1: 2, \"s\": 3, **pm}", "[[5, 6]]@(%{'z: 0, **pm}){|p| p}", "%{'z: 0, **pm}.keys", "[%{0: 0, **pm}]"},
	"if": {"pf(pi)", "pi.^pf", "[pi, pi]@^pf", "[pi]@{|x| pf(x)}", "{|g: pf| g(pi)}()", "pi.try.{|x| pf(x)}.A", "[1, 2]$(pi){|acc, x| pf(acc)}", "pf.call(pi)", "{f: pf}['f](pi)", "m{pf(self)}(pi)", "pf.{|h| h(pi)}"},
}

func genG17(depth int, emit func(tcase)) {
	names := make([]string, 0, len(g17sigs))
	for n := range g17sigs {
		names = append(names, n)
	}
	sort.Strings(names)
	for _, sn := range names {
		sg := g17sigs[sn]
		for ti, tpl := range g17templates[sn] {
			var rec func(seq []int)
			rec = func(seq []int) {
				if len(seq) >= 2 {
					var calls, inline []string
					for _, k := range seq {
						calls = append(calls, "fn("+strings.Join(sg.tuples[k], ", ")+")")
						// a function literal of its own for this one call (another syntax node, evaluated once)
						inline = append(inline, "{|"+strings.Join(sg.params, ", ")+"| nil.try.{|u| "+tpl+"}.A}("+strings.Join(sg.tuples[k], ", ")+")")
					}
					src := "kw := {|x: 0, a: 0, b: 0| [x, a, b, \\_]}\npos := {|x, y| [x, y, \\0]}\nfn := {|" + strings.Join(sg.params, ", ") + "| nil.try.{|u| " + tpl + "}.A}\n[[" + strings.Join(calls, ", ") + "], [" + strings.Join(inline, ", ") + "]]"
					emit(tcase{Family: fmt.Sprintf("G17/%s/%d", sn, ti), Src: src, NT: true})
				}
				if len(seq) == depth {
					return
				}
				for k := range sg.tuples {
					rec(append(append([]int{}, seq...), k))
				}
			}
			rec(nil)
		}
	}
}

// ---------------------------------------------------------------- judging

func judge(c *core.Ctx, t tcase, o panrun.Obs) {
	if t.NT {
		c.Nontrivial(1)
	}
	c.Validated(1)
	if o.Kind == "syntax" {
		c.HarnessError("generated program does not parse:\n%s\n%s", t.Src, o.ErrMsg)
		return
	}
	c.Outcome(strings.SplitN(t.Family, "/", 2)[0] + ":" + o.Kind)
	if strings.HasPrefix(t.Family, "G17/") {
		a, isArr := o.Val.(*object.PanArr)
		if o.Kind != "value" || !isArr || len(a.Elems) != 2 {
			c.HarnessError("G17 program did not evaluate to a pair of lists: %s\n%s", o.Short(), t.Src)
			return
		}
		if got, want := a.Elems[0].Inspect(), a.Elems[1].Inspect(); got != want {
			lines := strings.Split(t.Src, "\n")
			c.Violation(core.Violation{Key: "G17/expression-over-parameters-evaluated-again/" + strings.Split(t.Family, "/")[1], Case: core.JSON(t), Desc: lines[2] + " ;; " + lines[3], Expected: want + "  (a function literal written for each call alone)", Observed: got,
				Repro: t.Src + ".p\n"})
		}
		return
	}
	ok := o.Out == t.Out
	class := "trace"
	if ok {
		class = "value"
		if t.ErrK != "" {
			ok = o.Kind == "error" && o.ErrKind == t.ErrK
		} else {
			ok = o.Kind == "value" && o.Repr == t.Val
		}
	}
	if ok {
		return
	}
	exp := fmt.Sprintf("out=%q ", t.Out)
	if t.ErrK != "" {
		exp += t.ErrK
	} else {
		exp += t.Val
	}
	c.Violation(core.Violation{Key: t.Family + "/" + class, Case: core.JSON(t), Desc: strings.ReplaceAll(t.Src, "\n", " ;; "), Expected: exp, Observed: fmt.Sprintf("out=%q %s", o.Out, o.Short()),
		Repro: "zz := {||\n" + t.Src + "\n}\nzz().p\n"})
}

func gen(thorough bool, emit func(tcase)) {
	genG1(emit)
	if thorough {
		genG2(6, emit)
	} else {
		genG2(5, emit)
	}
	genG3(emit)
	genG4(emit)
	genG6(emit)
	genG7(emit)
	genG8(emit)
	genG9(emit)
	genG11(emit)
	genG12(emit)
	genG13(emit)
	genG14(emit)
	genG15(emit)
	genG16(emit)
	genG18(emit)
	if thorough {
		genG17(3, emit)
	} else {
		genG17(2, emit)
	}
	if thorough {
		genG5(3, emit)
	} else {
		genG5(2, emit)
	}
}

func run(c *core.Ctx) {
	n := 0
	seen := map[string]bool{}
	total := tk.Batched(c, 500, "", func(emit func(tcase)) {
		gen(c.Thorough(), func(t tcase) {
			if seen[t.Src] {
				return
			}
			seen[t.Src] = true
			emit(t)
		})
	}, func(t tcase) string { return t.Src }, func(t tcase, o panrun.Obs) {
		n++
		if n%700 == 1 {
			c.Sample(map[string]string{"family": t.Family, "source": t.Src, "reference": fmt.Sprintf("out=%q val=%s err=%s", t.Out, t.Val, t.ErrK)})
		}
		judge(c, t, o)
	})
	c.Note("programs_total", total)
	var cli []tcase
	genG10(func(t tcase) { cli = append(cli, t) })
	tk.Sharded(c, len(cli), func(i int) { judgeCLI(c, cli[i]) })
	c.Note("programs_run_through_the_cli", len(cli))
}

func replay(c *core.Ctx, raw json.RawMessage) {
	var t tcase
	if err := json.Unmarshal(raw, &t); err != nil {
		c.HarnessError("bad case: %v", err)
		return
	}
	if strings.HasPrefix(t.Family, "G10/") {
		judgeCLI(c, t)
		return
	}
	obs := c.R().Thunks("", []string{t.Src}, "")
	c.Eval(1)
	judge(c, t, obs[0])
}
