// Package c11: indexing and slicing select exactly the addressed elements (property C11).
package c11

import (
	"encoding/json"
	"fmt"
	"math"
	"math/big"
	"strings"

	"github.com/Syuparn/pangaea/object"

	"panmc/internal/core"
	"panmc/internal/panrun"
	"panmc/internal/tk"
)

func init() {
	core.Register(&core.Check{
		ID:    "C11",
		Level: "model_checking",
		Rule: "all (sequence of length 0..N, start, stop, step) with bounds in {nil} U [-N-2,N+2] U int64 extremes and steps {nil,0,+-1,+-2,+-3,+-(N+1),extremes}, and all single indices, " +
			"for arrays of distinct ints, ASCII strings, multi-byte strings, and strings of code points that share their low byte / low 16 bits with those ASCII letters (run before and after the ASCII ones in the same process); Arr#at/Str#at called directly (and through source for N<=3) and compared with a bignum reference slice; " +
			"history: strs of length 1,2,3,5 of each kind first used by one of 18 other operations (_incBy, start of an iterated range, len, ord, iteration, +, ==, hashing as a map key, ...) and then indexed at both ends and sliced; " +
			"non-trivial = the reference result is non-empty or an error, or a bound is out of range; distinct = distinct (kind,n,start,stop,step); round 10: one range VALUE (held in a variable, passed to a function, listed in `at`) indexes receivers of 2-3 different lengths in turn (196 ranges x 6 length sequences x 3 routes x arrays and strs).; round 7: A reeval family evaluates one slice expression (13 templates with one variable bound) inside a function for every sequence of 2 (thorough 3) values of the variable: each evaluation must give what that slice gives on its own.; round 8: Receivers built by operations next to a sibling built from the same parts (13 derivations x a window of bounds), arrays holding nil elements, and bounds that are ints without being int literals (boolean arithmetic, typed instances; a zero step so spelled must raise).",
		Assumptions: []string{
			"reference = Python slice.indices semantics computed with math/big positions",
			"don't-care: with a negative step, a start below -n may yield either [] (boundary reading) or [s[0]...] (position reading); both accepted",
		},
		Run:    run,
		Replay: replay,
	})
}

type tcase struct {
	Kind  string `json:"kind"` // arr | ascii | multi
	N     int    `json:"n"`
	Idx   bool   `json:"idx,omitempty"` // single index instead of a range
	Start *int64 `json:"start"`
	Stop  *int64 `json:"stop"`
	Step  *int64 `json:"step"`
	Mode  string `json:"mode"`
	Pre   int    `json:"pre,omitempty"` // history mode: index of the operation applied to the str before it is indexed
	// reeval mode: one slice expression inside a function, evaluated once per value of Vals with the variable
	// bound (Tpl says which bound is the variable); every evaluation must give what that slice alone gives
	Tpl  int      `json:"tpl,omitempty"`
	Vals []*int64 `json:"vals,omitempty"`
	// derived mode: the receiver is built by operations (Pre selects the derivation) next to a sibling built from
	// the same parts; Sp spells the bounds as ints that are not int literals (1 boolean arithmetic, 2 typed instance)
	Sp int `json:"sp,omitempty"`
	// rangeobj mode: one range VALUE (held in a variable, passed to a function, listed in `at`) indexes receivers of
	// the lengths Ns in turn; each use must select what the range selects on that receiver alone
	Ns []int `json:"ns,omitempty"`
}

var arrDerivations = []string{
	"head := [10, 11, 12]\nx := [*head, 13]\ny := [*head, 99]",
	"head := [10, 11, 12]\ny := [*head, 99]\nx := [*head, 13]",
	"x := [10, 11, 12] + [13]\ny := [10, 11, 12] + [99]",
	"base := [10, 11, 12, 13, 14, 15]\nx := base[0:4]\ny := base[0:3] + [99]",
	"x := (10:14).A\ny := x + [99]",
	"x := [10, 11, 12, 13]",
}

var strDerivations = []string{
	"h := \"abc\"\nx := h + \"d\"\ny := h + \"z\"",
	"x := \"abcdef\"[0:4]\ny := \"abcdef\"[0:3] + \"z\"",
	"x := [\"ab\", \"cd\"].join(\"\")\ny := x + \"z\"",
	"x := \"abcd\"",
}

func spell(sp int, p *int64) string {
	if p == nil || sp == 0 {
		return pstr(p)
	}
	if sp == 2 {
		return "Int.bear.new(" + pstr(p) + ")"
	}
	switch *p {
	case 0:
		return "(true - 1)"
	case 1:
		return "(true * 1)"
	case -1:
		return "(false - 1)"
	}
	return fmt.Sprintf("(true * %s)", pstr(p))
}

func (t tcase) derivedSrc() string {
	pre := strDerivations[t.Pre%len(strDerivations)]
	if t.Kind == "arrnil" {
		pre = []string{"x := [10, nil, 12, nil]", "x := [10, nil] + [12, nil]", "x := [10, nil, 12, nil, 14][0:4]"}[t.Pre%3]
	}
	if t.Kind == "arr" {
		pre = arrDerivations[t.Pre%len(arrDerivations)]
	}
	e := fmt.Sprintf("x[%s:%s", spell(t.Sp, t.Start), spell(t.Sp, t.Stop))
	if t.Step != nil {
		e += ":" + spell(t.Sp, t.Step)
	}
	return pre + "\n" + e + "]"
}

var multi = []rune{'é', '日', '𝄞', 'a', 'ß', '語', '😀', 'z', 'Ω'}

func seqRunes(kind string, n int) []rune {
	r := make([]rune, n)
	for i := 0; i < n; i++ {
		switch kind {
		case "multi":
			r[i] = multi[i%len(multi)]
		case "special":
			// code points that decoders treat specially: the replacement character (what a decoding error looks like), the
			// byte-order mark, the last code point, a combining mark, NUL-adjacent and surrogate-adjacent ones
			sp := []rune{'x', 0xFFFD, 'y', 0x3042, 0xFFFD, 0xFEFF, 0x10FFFF, 0x0301, 0x01, 0xD7FF, 0xE000, 0x7F, 0x80}
			r[i] = sp[i%len(sp)]
		case "lowbyte":
			// code points whose low byte (U+30xx) resp. low 16 bits (U+200xx) are the ASCII letters used by kind ascii
			if i%2 == 0 {
				r[i] = rune(0x3000 + 'a' + i)
			} else {
				r[i] = rune(0x20000 + 'a' + i)
			}
		default:
			r[i] = rune('a' + i)
		}
	}
	return r
}

func pstr(p *int64) string {
	if p == nil {
		return ""
	}
	if *p == math.MinInt64 {
		return "(-9223372036854775807 - 1)"
	}
	if *p < 0 {
		return fmt.Sprintf("(-%d)", -*p)
	}
	return fmt.Sprintf("%d", *p)
}

func (t tcase) recvSrc() string {
	if t.Kind == "arr" {
		parts := make([]string, t.N)
		for i := range parts {
			parts[i] = fmt.Sprintf("%d", 10+i)
		}
		return "[" + strings.Join(parts, ", ") + "]"
	}
	return `"` + string(seqRunes(t.Kind, t.N)) + `"`
}

func (t tcase) src() string {
	if t.Idx {
		return fmt.Sprintf("%s[%s]", t.recvSrc(), pstr(t.Start))
	}
	s := fmt.Sprintf("%s[%s:%s", t.recvSrc(), pstr(t.Start), pstr(t.Stop))
	if t.Step != nil {
		s += ":" + pstr(t.Step)
	}
	return s + "]"
}

// reference: positions selected (nil result = whole result is nil for single index), err = ValueErr
type refRes struct {
	zeroStep bool
	nilRes   bool
	pos      []int
	altPos   []int // second accepted answer (don't-care), nil if none
	hasAlt   bool
}

func reference(t tcase) refRes {
	n := int64(t.N)
	if t.Idx {
		i := *t.Start
		if i >= n || i < -n {
			return refRes{nilRes: true}
		}
		if i < 0 {
			i += n
		}
		return refRes{pos: []int{int(i)}}
	}
	step := big.NewInt(1)
	if t.Step != nil {
		step = big.NewInt(*t.Step)
	}
	if step.Sign() == 0 {
		return refRes{zeroStep: true}
	}
	N := big.NewInt(n)
	neg := step.Sign() < 0
	lower, upper := big.NewInt(0), new(big.Int).Set(N)
	if neg {
		lower, upper = big.NewInt(-1), new(big.Int).Sub(N, big.NewInt(1))
	}
	clamp := func(p *int64, def *big.Int) *big.Int {
		if p == nil {
			return def
		}
		v := big.NewInt(*p)
		if v.Sign() < 0 {
			v.Add(v, N)
			if v.Cmp(lower) < 0 {
				return lower
			}
			return v
		}
		if v.Cmp(upper) > 0 {
			return upper
		}
		return v
	}
	var start, stop *big.Int
	if neg {
		start, stop = clamp(t.Start, upper), clamp(t.Stop, lower)
	} else {
		start, stop = clamp(t.Start, lower), clamp(t.Stop, upper)
	}
	walk := func(start *big.Int) []int {
		var pos []int
		i := new(big.Int).Set(start)
		for {
			if neg && i.Cmp(stop) <= 0 || !neg && i.Cmp(stop) >= 0 {
				break
			}
			pos = append(pos, int(i.Int64()))
			i.Add(i, step)
		}
		return pos
	}
	res := refRes{pos: walk(start)}
	if neg && t.Start != nil && *t.Start < -n && n > 0 {
		// position reading of "clamped to its ends": start clamps to position 0
		res.hasAlt = true
		res.altPos = walk(big.NewInt(0))
	}
	return res
}

type env struct {
	c          *core.Ctx
	arrAt, sAt object.BuiltInFunc
}

func newEnv(c *core.Ctx) *env {
	r := c.R()
	return &env{c: c, arrAt: r.Props["Arr_at"].(*object.PanBuiltIn).Fn, sAt: r.Props["Str_at"].(*object.PanBuiltIn).Fn}
}

func iobj(p *int64) object.PanObject {
	if p == nil {
		return object.BuiltInNil
	}
	return object.NewPanInt(*p)
}

func (e *env) direct(t tcase) panrun.Obs {
	r := e.c.R()
	var idx object.PanObject
	if t.Idx {
		idx = object.NewPanInt(*t.Start)
	} else {
		idx = object.NewPanRange(iobj(t.Start), iobj(t.Stop), iobj(t.Step))
	}
	if t.Kind == "arr" {
		elems := make([]object.PanObject, t.N)
		for i := range elems {
			elems[i] = object.NewPanInt(int64(10 + i))
		}
		recv := object.NewPanArr(elems...)
		return r.Guard(nil, "", func() object.PanObject { return e.arrAt(r.Root, panrun.EmptyKwargs(), recv, object.NewPanArr(idx)) })
	}
	recv := object.NewPanStr(string(seqRunes(t.Kind, t.N)))
	return r.Guard(nil, "", func() object.PanObject { return e.sAt(r.Root, panrun.EmptyKwargs(), recv, object.NewPanArr(idx)) })
}

func expectRepr(t tcase, pos []int) string {
	if t.Kind == "arrnil" { // [10, nil, 12, nil, ...]: nil is an element like any other
		parts := make([]string, len(pos))
		for i, p := range pos {
			parts[i] = "nil"
			if p%2 == 0 {
				parts[i] = fmt.Sprintf("%d", 10+p)
			}
		}
		return "[" + strings.Join(parts, ", ") + "]"
	}
	if t.Kind == "arr" {
		if t.Idx {
			return fmt.Sprintf("%d", 10+pos[0])
		}
		parts := make([]string, len(pos))
		for i, p := range pos {
			parts[i] = fmt.Sprintf("%d", 10+p)
		}
		return "[" + strings.Join(parts, ", ") + "]"
	}
	rs := seqRunes(t.Kind, t.N)
	var sb strings.Builder
	for _, p := range pos {
		sb.WriteRune(rs[p])
	}
	return object.NewPanStr(sb.String()).Inspect() // printed the way the interpreter prints a str
}

func outOfRange(t tcase) bool {
	n := int64(t.N)
	for _, p := range []*int64{t.Start, t.Stop} {
		if p != nil && (*p > n || *p < -n) {
			return true
		}
	}
	return false
}

func key(t tcase, o panrun.Obs, ref refRes) string {
	k := "arr"
	if t.Kind != "arr" {
		k = "str"
	}
	if t.Idx {
		return k + "/index"
	}
	if o.Kind == "panic" {
		if ref.zeroStep {
			return k + "/zero-step-panic"
		}
		return k + "/slice-panic"
	}
	if ref.zeroStep {
		return k + "/zero-step-no-error"
	}
	big := func(p *int64) bool { return p != nil && (*p > 1<<40 || *p < -(1<<40)) }
	if big(t.Step) {
		return k + "/huge-step"
	}
	if t.Step != nil && *t.Step < 0 {
		if outOfRange(t) {
			return k + "/negative-step-out-of-range-bound"
		}
		return k + "/negative-step"
	}
	return k + "/positive-step"
}

func (e *env) judge(t tcase, o panrun.Obs) {
	ref := reference(t)
	nontriv := ref.zeroStep || len(ref.pos) > 0 || outOfRange(t) || t.Idx
	if nontriv {
		e.c.Nontrivial(1)
	}
	e.c.Validated(1)
	desc, repro := t.src(), "("+t.src()+").p\n"
	if t.Mode == "derived" {
		desc, repro = strings.ReplaceAll(t.derivedSrc(), "\n", "; "), "("+strings.ReplaceAll(t.derivedSrc(), "\n", "; ")+").p\n"
	}
	bad := func(exp string) {
		e.c.Violation(core.Violation{Key: key(t, o, ref), Case: core.JSON(t), Desc: desc + " [" + t.Mode + "]", Expected: exp, Observed: o.Short(), Repro: repro})
	}
	if o.Kind == "syntax" {
		e.c.HarnessError("generated source does not parse: %s: %s", t.src(), o.ErrMsg)
		return
	}
	e.c.Outcome(t.Kind + ":" + o.Kind)
	if o.Kind == "panic" || o.Kind == "discard" {
		bad("no host panic / termination")
		return
	}
	if ref.zeroStep {
		if o.Kind == "error" && o.ErrKind == "ValueErr" {
			return
		}
		bad("ValueErr (zero step)")
		return
	}
	if ref.nilRes {
		if o.Kind == "value" && o.Repr == "nil" {
			return
		}
		bad("nil")
		return
	}
	want := expectRepr(t, ref.pos)
	if o.Kind == "value" && o.Repr == want {
		return
	}
	if ref.hasAlt {
		if alt := expectRepr(t, ref.altPos); o.Kind == "value" && o.Repr == alt {
			e.c.Counter("dontcare_alt_accepted", 1)
			return
		}
	}
	bad(want)
}

func ip(v int64) *int64 { return &v }

func generate(maxN int, emit func(tcase)) {
	ext := []int64{math.MinInt64, math.MinInt64 + 1, math.MaxInt64 - 1, math.MaxInt64}
	// "lowbyte" then "ascii2" (= ascii again): one-letter results of different strings that agree in their low
	// byte / low 16 bits are produced in both orders within one process
	for _, kind := range []string{"arr", "ascii", "multi", "special", "lowbyte", "ascii2"} {
		for n := 0; n <= maxN; n++ {
			var bounds []*int64
			bounds = append(bounds, nil)
			for v := int64(-n - 2); v <= int64(n+2); v++ {
				bounds = append(bounds, ip(v))
			}
			for _, v := range ext {
				bounds = append(bounds, ip(v))
			}
			steps := []*int64{nil, ip(0), ip(1), ip(-1), ip(2), ip(-2), ip(3), ip(-3), ip(int64(n + 1)), ip(int64(-n - 1))}
			for _, v := range ext {
				steps = append(steps, ip(v))
			}
			for _, b := range bounds[1:] {
				emit(tcase{Kind: kind, N: n, Idx: true, Start: b})
			}
			for _, a := range bounds {
				for _, b := range bounds {
					for _, s := range steps {
						emit(tcase{Kind: kind, N: n, Start: a, Stop: b, Step: s})
					}
				}
			}
		}
	}
}

func run(c *core.Ctx) {
	e := newEnv(c)
	maxN := c.Pick(8, 12)
	c.Note("max_length", maxN)
	k := 0
	var srcCases []tcase
	generate(maxN, func(t tcase) {
		k++
		if !c.Mine(k) {
			return
		}
		t.Mode = "direct"
		c.Eval(1)
		if k%50000 == 1 {
			c.Sample(map[string]interface{}{"case": t.src(), "reference_positions": reference(t).pos})
		}
		e.judge(t, e.direct(t))
		if t.N <= 3 && (t.Kind == "arr" || t.Kind == "ascii" || t.N == 3) {
			t.Mode = "source"
			srcCases = append(srcCases, t)
		}
	})
	c.Note("cases_total", k)
	// the same operations through parsed source (index expression path of the evaluator)
	i := 0
	tk.Batched(c, 1500, "", func(emit func(tcase)) {
		for _, t := range srcCases {
			emit(t)
		}
	}, func(t tcase) string { return t.src() }, func(t tcase, o panrun.Obs) { i++; e.judge(t, o) })
	// history: the same str object is first used by another operation (incremented, iterated as the start of a
	// range, measured, compared, hashed, ...), then indexed at its ends and sliced
	tk.Batched(c, 500, "", func(emit func(tcase)) {
		for _, kind := range []string{"ascii", "multi", "lowbyte"} {
			for _, n := range []int{1, 2, 3, 5} {
				for p := range preOps {
					emit(tcase{Kind: kind, N: n, Mode: "history", Pre: p})
				}
			}
		}
	}, histSrc, func(t tcase, o panrun.Obs) { e.judgeHist(t, o) })
	// receivers built by operations next to a sibling built from the same parts; bounds that are ints without being int literals
	tk.Batched(c, 1500, "", func(emit func(tcase)) {
		win := []*int64{nil, ip(-6), ip(-5), ip(-4), ip(-3), ip(-2), ip(-1), ip(0), ip(1), ip(2), ip(3), ip(4), ip(5), ip(6)}
		small := []*int64{nil, ip(-1), ip(0), ip(1), ip(2)}
		for _, kind := range []string{"arr", "ascii", "arrnil"} {
			nd := len(strDerivations)
			if kind == "arr" {
				nd = len(arrDerivations)
			}
			if kind == "arrnil" {
				nd = 3
			}
			for d := 0; d < nd; d++ {
				for _, a := range win {
					for _, b := range win {
						for _, st := range []*int64{nil, ip(1), ip(-1), ip(2), ip(-2), ip(3)} {
							emit(tcase{Kind: kind, N: 4, Start: a, Stop: b, Step: st, Mode: "derived", Pre: d})
						}
					}
				}
			}
			for sp := 1; sp <= 2; sp++ {
				for _, a := range small {
					for _, b := range small {
						for _, st := range small {
							emit(tcase{Kind: kind, N: 4, Start: a, Stop: b, Step: st, Mode: "derived", Pre: nd - 1, Sp: sp})
						}
					}
				}
			}
		}
	}, func(t tcase) string { return t.derivedSrc() }, func(t tcase, o panrun.Obs) { e.judge(t, o) })
	// bounds with side effects are evaluated once each, in order (a cursor advanced inside the bounds)
	tk.Batched(c, 50, "", func(emit func(tcase)) {
		for i := 0; i < len(effectCases); i++ {
			emit(tcase{Kind: "arr", N: 6, Mode: "effect", Pre: i})
		}
	}, func(t tcase) string { return effectCases[t.Pre][0] }, func(t tcase, o panrun.Obs) { e.judgeEffect(t, o) })
	// one slice expression with a variable bound, evaluated several times with different values
	tk.Batched(c, 300, "", func(emit func(tcase)) { genReeval(c.Pick(2, 3), emit) }, reevalSrc, func(t tcase, o panrun.Obs) { e.judgeReeval(t, o) })
	// one range value indexing receivers of different lengths in turn
	tk.Batched(c, 300, "", func(emit func(tcase)) { genRangeObj(emit) }, rangeObjSrc, func(t tcase, o panrun.Obs) { e.judgeRangeObj(t, o) })
}

// ---------------------------------------------------------------- one range value used on several receivers

func rangeObjSrc(t tcase) string {
	ns := func(p *int64) string {
		if p == nil {
			return "nil"
		}
		return pstr(p)
	}
	r := "(" + ns(t.Start) + ":" + ns(t.Stop)
	if t.Step != nil {
		r += ":" + pstr(t.Step)
	}
	r += ")"
	var lines, uses []string
	for i, n := range t.Ns {
		one := tcase{Kind: t.Kind, N: n}
		lines = append(lines, fmt.Sprintf("x%d := %s", i, one.recvSrc()))
		switch t.Pre {
		case 0:
			uses = append(uses, fmt.Sprintf("x%d[r]", i))
		case 1:
			uses = append(uses, fmt.Sprintf("sl(x%d, r)", i))
		default:
			uses = append(uses, fmt.Sprintf("x%d.at([r])", i))
		}
	}
	return "r := " + r + "\nsl := {|x, rg| x[rg]}\n" + strings.Join(lines, "\n") + "\n[" + strings.Join(uses, ", ") + "]"
}

func rangeObjExpect(t tcase) string {
	var parts []string
	for _, n := range t.Ns {
		one := tcase{Kind: t.Kind, N: n, Start: t.Start, Stop: t.Stop, Step: t.Step}
		parts = append(parts, expectRepr(one, reference(one).pos))
	}
	return "[" + strings.Join(parts, ", ") + "]"
}

func genRangeObj(emit func(tcase)) {
	bounds := []*int64{nil, ip(0), ip(1), ip(3), ip(6), ip(-1), ip(-3)}
	steps := []*int64{nil, ip(1), ip(2), ip(-1)}
	for _, kind := range []string{"arr", "ascii"} {
		for _, ns := range [][]int{{3, 8}, {8, 3}, {3, 8, 3}, {0, 5}, {5, 0, 5}, {4, 4}} {
			for _, a := range bounds {
				for _, b := range bounds {
					for _, st := range steps {
						for pre := 0; pre < 3; pre++ {
							emit(tcase{Kind: kind, Mode: "rangeobj", Ns: ns, Start: a, Stop: b, Step: st, Pre: pre})
						}
					}
				}
			}
		}
	}
}

func (e *env) judgeRangeObj(t tcase, o panrun.Obs) {
	c := e.c
	c.Eval(1)
	c.Validated(1)
	c.Nontrivial(1)
	if o.Kind == "syntax" {
		c.HarnessError("rangeobj case does not parse: %s: %s", rangeObjSrc(t), o.ErrMsg)
		return
	}
	want := rangeObjExpect(t)
	c.Outcome("rangeobj:" + o.Kind)
	if o.Kind == "value" && o.Repr == want {
		return
	}
	c.Violation(core.Violation{Key: "one-range-value-on-several-receivers/" + t.Kind + "/" + []string{"index", "passed-to-function", "at"}[t.Pre], Case: core.JSON(t), Desc: strings.ReplaceAll(rangeObjSrc(t), "\n", "; "),
		Expected: want + " (each use selects what the range selects on that receiver alone)", Observed: o.Short(), Repro: "(" + strings.ReplaceAll(rangeObjSrc(t), "\n", "; ") + ").p\n"})
}

// ---------------------------------------------------------------- one slice expression evaluated repeatedly

type sliceTpl struct {
	start, stop, step string // "" omitted, "v" the variable, else an int literal
}

var sliceTpls = []sliceTpl{
	{"", "", "v"}, {"1", "", "v"}, {"", "3", "v"}, {"1", "3", "v"}, {"0", "4", "v"}, {"3", "0", "v"},
	{"v", "", ""}, {"v", "", "2"}, {"v", "", "-1"}, {"v", "3", ""},
	{"", "v", ""}, {"", "v", "-1"}, {"1", "v", "2"},
}

func (t tcase) reevalAt(v *int64) tcase {
	tp := sliceTpls[t.Tpl]
	bound := func(b string) *int64 {
		switch b {
		case "":
			return nil
		case "v":
			return v
		}
		var x int64
		fmt.Sscan(b, &x)
		return &x
	}
	r := tcase{Kind: t.Kind, N: t.N, Start: bound(tp.start), Stop: bound(tp.stop), Step: bound(tp.step)}
	return r
}

func reevalSrc(t tcase) string {
	tp := sliceTpls[t.Tpl]
	e := "s[" + tp.start + ":" + tp.stop
	if tp.step != "" {
		e += ":" + tp.step
	}
	e += "]"
	var calls []string
	for _, v := range t.Vals {
		calls = append(calls, fmt.Sprintf(`nil.try.{|u| f(%s)}.or("ERR")`, pstr(v)))
	}
	return fmt.Sprintf("s := %s\nf := {|v| %s}\n[%s]", t.recvSrc(), e, strings.Join(calls, ", "))
}

func reevalExpect(t tcase) string {
	var parts []string
	for _, v := range t.Vals {
		one := t.reevalAt(v)
		ref := reference(one)
		if ref.zeroStep {
			parts = append(parts, `"ERR"`)
			continue
		}
		parts = append(parts, expectRepr(one, ref.pos))
	}
	return "[" + strings.Join(parts, ", ") + "]"
}

func genReeval(depth int, emit func(tcase)) {
	vals := []*int64{ip(1), ip(-1), ip(2), ip(-2), ip(0), ip(3), nil}
	for _, kind := range []string{"arr", "ascii"} {
		for tpl := range sliceTpls {
			var rec func(cur []*int64)
			rec = func(cur []*int64) {
				if len(cur) >= 2 {
					emit(tcase{Kind: kind, N: 4, Mode: "reeval", Tpl: tpl, Vals: append([]*int64{}, cur...)})
				}
				if len(cur) == depth {
					return
				}
				for _, v := range vals {
					rec(append(cur, v))
				}
			}
			rec(nil)
		}
	}
}

func (e *env) judgeReeval(t tcase, o panrun.Obs) {
	c := e.c
	c.Eval(1)
	c.Validated(1)
	c.Nontrivial(1)
	if o.Kind == "syntax" {
		c.HarnessError("reeval case does not parse: %s: %s", reevalSrc(t), o.ErrMsg)
		return
	}
	want := reevalExpect(t)
	c.Outcome("reeval:" + o.Kind)
	if o.Kind == "value" && o.Repr == want {
		return
	}
	tp := sliceTpls[t.Tpl]
	c.Violation(core.Violation{Key: "same-expression-evaluated-again/" + t.Kind + "/[" + tp.start + ":" + tp.stop + ":" + tp.step + "]", Case: core.JSON(t), Desc: strings.ReplaceAll(reevalSrc(t), "\n", "; "),
		Expected: want + " (each evaluation gives what that slice gives on its own)", Observed: o.Short(), Repro: "(" + strings.ReplaceAll(reevalSrc(t), "\n", "; ") + ").p\n"})
}

// ---------------------------------------------------------------- bounds with side effects

var effectCases = [][2]string{
	{"s := [10, 11, 12, 13, 14, 15]\ni := 0\n[s[(i := i + 1):], i]", "[[11, 12, 13, 14, 15], 1]"},
	{"s := [10, 11, 12, 13, 14, 15]\ni := 0\n[s[(i := i + 1):(i := i + 2)], i]", "[[11, 12], 3]"},
	{"s := [10, 11, 12, 13, 14, 15]\ni := 0\n[s[(i := i + 1):(i := i + 3):(i := i - 2)], i]", "[[11, 13], 2]"},
	{"s := [10, 11, 12, 13, 14, 15]\nit := [1, 3, 9]._iter\n[s[it.next:it.next], it.next]", "[[11, 12], 9]"},
	{"t := \"abcdef\"\ncur := 0\n[t[cur:(cur := cur + 1)], t[cur:(cur := cur + 2)], t[cur:(cur := cur + 3)]]", `["a", "bc", "def"]`},
	{"s := [10, 11, 12]\nn := 0\nf := {|| n := n + 1; 1}\ng := {|k| s[k():]}\n[g(f), g(f)]", "[[11, 12], [11, 12]]"},
	{"s := [10, 11, 12, 13]\ntr := []\nb := {|v| v.p; v}\ns[b(1):b(3):b(1)]", "[11, 12]"},
}

func (e *env) judgeEffect(t tcase, o panrun.Obs) {
	c := e.c
	c.Eval(1)
	c.Validated(1)
	c.Nontrivial(1)
	src, want := effectCases[t.Pre][0], effectCases[t.Pre][1]
	if o.Kind == "syntax" {
		c.HarnessError("effect case does not parse: %s: %s", src, o.ErrMsg)
		return
	}
	wantOut := ""
	if t.Pre == len(effectCases)-1 {
		wantOut = "1\n3\n1\n"
	}
	c.Outcome("effect:" + o.Kind)
	if o.Kind == "value" && o.Repr == want && o.Out == wantOut {
		return
	}
	c.Violation(core.Violation{Key: fmt.Sprintf("bound-evaluated-other-than-once/%d", t.Pre), Case: core.JSON(t), Desc: strings.ReplaceAll(src, "\n", "; "), Expected: fmt.Sprintf("%s out=%q", want, wantOut), Observed: fmt.Sprintf("%s out=%q", o.Short(), o.Out), Repro: "(" + strings.ReplaceAll(src, "\n", "; ") + ").p\n"})
}

// ---------------------------------------------------------------- history: the str is used by other operations first

var preOps = []string{"s._incBy(1)", "(s:s._incBy(3)).A", "(s:s._incBy(2))@{|c| c}", "s.len", "s.ord", "s@{|c| c}", "s.A", "s + \"x\"", "s.uc", "s == s", "s.S", "s.repr", "s * 2", "s[0]", "s[::-1]", "%{s: 1}[s]", "s.lc", "s <=> s"}

func histSrc(t tcase) string {
	n := t.N
	return fmt.Sprintf("s := %s\nnil.try.{|u| %s}\n[s[0], s[-1], s[%d], s[:], s[::-1], s[1:], s[:-1], s[-1:], s[%d], s[-%d:%d], s]", t.recvSrc(), preOps[t.Pre], n-1, n, n, n)
}

func histExpect(t tcase) string {
	r := seqRunes(t.Kind, t.N)
	q := func(x []rune) string { return fmt.Sprintf("%q", string(x)) }
	rev := make([]rune, len(r))
	for i := range r {
		rev[len(r)-1-i] = r[i]
	}
	n := len(r)
	parts := []string{q(r[0:1]), q(r[n-1:]), q(r[n-1:]), q(r), q(rev), q(r[1:]), q(r[:n-1]), q(r[n-1:]), "nil", q(r), q(r)}
	return "[" + strings.Join(parts, ", ") + "]"
}

func (e *env) judgeHist(t tcase, o panrun.Obs) {
	c := e.c
	c.Eval(1)
	c.Validated(1)
	c.Nontrivial(1)
	if o.Kind == "syntax" {
		c.HarnessError("history case does not parse: %s: %s", histSrc(t), o.ErrMsg)
		return
	}
	want := histExpect(t)
	c.Outcome("history:" + o.Kind)
	if o.Kind == "value" && o.Repr == want {
		return
	}
	op := preOps[t.Pre]
	if i := strings.IndexAny(op, "( "); i > 0 && strings.HasPrefix(op, "s.") {
		op = op[:i]
	}
	c.Violation(core.Violation{Key: "str/after-earlier-use/" + op, Case: core.JSON(t), Desc: strings.ReplaceAll(histSrc(t), "\n", "; "), Expected: want, Observed: o.Short(), Repro: "(" + strings.ReplaceAll(histSrc(t), "\n", "; ") + ").p\n"})
}

func replay(c *core.Ctx, raw json.RawMessage) {
	var t tcase
	if err := json.Unmarshal(raw, &t); err != nil {
		c.HarnessError("bad case: %v", err)
		return
	}
	e := newEnv(c)
	if t.Mode == "rangeobj" {
		obs := c.R().Thunks("", []string{rangeObjSrc(t)}, "")
		newEnv(c).judgeRangeObj(t, obs[0])
		return
	}
	if t.Mode == "reeval" {
		obs := c.R().Thunks("", []string{reevalSrc(t)}, "")
		e.judgeReeval(t, obs[0])
		return
	}
	if t.Mode == "history" {
		obs := c.R().Thunks("", []string{histSrc(t)}, "")
		e.judgeHist(t, obs[0])
		return
	}
	if t.Mode == "effect" {
		obs := c.R().Thunks("", []string{effectCases[t.Pre][0]}, "")
		e.judgeEffect(t, obs[0])
		return
	}
	if t.Mode == "derived" {
		obs := c.R().Thunks("", []string{t.derivedSrc()}, "")
		e.judge(t, obs[0])
		return
	}
	if t.Mode == "source" {
		obs := c.R().Thunks("", []string{t.src()}, "")
		e.judge(t, obs[0])
		return
	}
	e.judge(t, e.direct(t))
}
