// Package c17: literals and names denote what their spelling says (property C17).
// Every literal spelling of each form up to a length bound (plus boundary spellings) and every
// identifier of the documented pattern up to a length bound (plus keyword-prefixed names) is lexed,
// parsed and evaluated by the real interpreter and compared with an independent decoder.
package c17

import (
	"encoding/json"
	"fmt"
	"github.com/Syuparn/pangaea/runscript"
	"math"
	"math/big"
	"os"
	"os/exec"
	"regexp"
	"strconv"
	"strings"

	"github.com/Syuparn/pangaea/object"

	"panmc/internal/core"
	"panmc/internal/panrun"
	"panmc/internal/tk"
)

func init() {
	core.Register(&core.Check{
		ID:    "C17",
		Level: "model_checking",
		Rule: "re-entrant interpolation: strs whose embedded expression evaluates the same literal again (recursive function, method, mutual recursion, chain block) to depth 5; " +
			"all decimal int spellings <=4 chars over {0,1,7,9,_} + spellings around 2^63/2^64/10^19; 0x/0o/0b spellings <=3 digits + widest values; exponent ints M e K (K in [-3,20]) and with extreme exponents (21 .. beyond int64; zero mantissas, non-representable products, exact quotients of mantissas with up to 3002 digits); floats D.D (<=3+3 digits) and exponent floats incl. extreme magnitudes; " +
			"every escape \\c for c in 0x20..0x7e, \\x/\\u/octal samples, embedded quotes, trailing backslash, char and raw strings; every identifier <=4 (thorough 5) chars over {a,Z,7,_,?,!} matching the documented pattern, every keyword-prefixed/suffixed name and long names of every length 2^k-1, 2^k, 2^k+1 up to 1025 (thorough 4097) in 4 spellings, each as variable, property, symbol, called function, symbol function (sym?) and listed key; all 475254 lower-case names of <=4 letters, 262144 six-letter and 531441 twelve-letter names over small alphabets and 126 long names sharing prefixes of 31..4097 bytes have pairwise different symbol keys; 11 script files run by the real command-line binary (raw strings spanning LF / CRLF / CR line breaks keep every byte), and variables/properties named by such pairs stay apart, " +
			"each used as variable, property, symbol and call; oracle = math/big, strconv.ParseFloat, escape table; non-representable literals must be rejected; non-trivial = every case; distinct = distinct spelling x use; round 7: A reserved word directly followed by ? or ! (if?, else! ...) is generated as a name as well (5 known-finding keys).; round 8: Hex literals use every digit class (0189abefABEF); exponent ints have 16-19 digit mantissas; literals spanning lines are entered in the REPL's multi-line mode.",
		Assumptions: []string{
			"exponent-int spellings that do not denote an integer (1e-3) are a don't-care",
			"an undefined escape may be rejected or kept verbatim; a defined one is decoded like Go's strconv.Unquote",
			"names made only of underscores (`_` is a predefined object) and escapes in ?c char strings are not generated",
		},
		Run:    run,
		Replay: replay,
	})
}

type tcase struct {
	Class string `json:"class"`
	Src   string `json:"src"`
	// expectation
	Kind   string   `json:"kind"` // int | float | str | reject | any
	Int    string   `json:"int,omitempty"`
	Float  float64  `json:"float,omitempty"`
	Strs   []string `json:"strs,omitempty"` // accepted string values
	Reject bool     `json:"reject_ok,omitempty"`
	Risky  bool     `json:"risky,omitempty"`
}

var maxI = big.NewInt(math.MaxInt64)

func intCase(class, spelling string, v *big.Int) tcase {
	if v.Cmp(maxI) > 0 {
		return tcase{Class: class, Src: spelling, Kind: "reject", Risky: true}
	}
	return tcase{Class: class, Src: spelling, Kind: "int", Int: v.String()}
}

func strip(s string) string { return strings.ReplaceAll(s, "_", "") }

func words(alpha string, maxLen int, emit func(string)) {
	var rec func(cur string)
	rec = func(cur string) {
		if cur != "" {
			emit(cur)
		}
		if len(cur) == maxLen {
			return
		}
		for _, c := range alpha {
			rec(cur + string(c))
		}
	}
	rec("")
}

var intRe = regexp.MustCompile(`^([0-9][0-9_]*[0-9]|[0-9]+)$`)
var identRe = regexp.MustCompile(`^[a-zA-Z_][a-zA-Z0-9_]*[!?]?$`)
var keywords = []string{"if", "else", "return", "raise", "yield", "defer"}

func gen(thorough bool, emit func(tcase)) {
	// A. decimal ints
	words("0179_", 4, func(w string) {
		if intRe.MatchString(w) {
			v, _ := new(big.Int).SetString(strip(w), 10)
			emit(intCase("int/decimal", w, v))
		}
	})
	for _, w := range []string{"9223372036854775806", "9223372036854775807", "9223372036854775808", "9223372036854775809", "18446744073709551615", "18446744073709551616",
		"99999999999999999999", "10000000000000000000", "9_223_372_036_854_775_807", "9_223_372_036_854_775_808", "0009223372036854775807", "00009223372036854775808",
		"123456789012345678", "1234567890123456789", "12345678901234567890", "340282366920938463463374607431768211456"} {
		v, _ := new(big.Int).SetString(strip(w), 10)
		emit(intCase("int/decimal-boundary", w, v))
	}
	// B. hex / oct / bin
	type base struct {
		pfx   []string
		alpha string
		b     int
		wide  []string
	}
	for _, b := range []base{
		{[]string{"0x", "0X"}, "0189abefABEF_", 16, []string{"7fffffffffffffff", "8000000000000000", "ffffffffffffffff", "7FFF_FFFF_FFFF_FFFF", "10000000000000000"}},
		{[]string{"0o", "0O"}, "017_", 8, []string{"777777777777777777777", "1000000000000000000000", "1777777777777777777777"}},
		{[]string{"0b", "0B"}, "01_", 2, []string{strings.Repeat("1", 63), "1" + strings.Repeat("0", 63), strings.Repeat("1", 64)}},
	} {
		re := regexp.MustCompile(`^([0-9a-fA-F][0-9a-fA-F_]*[0-9a-fA-F]|[0-9a-fA-F]+)$`)
		words(b.alpha, 3, func(w string) {
			if !re.MatchString(w) {
				return
			}
			v, ok := new(big.Int).SetString(strip(w), b.b)
			if !ok {
				return
			}
			for _, p := range b.pfx {
				emit(intCase("int/"+p[1:2]+"-base", p+w, v))
			}
		})
		for _, w := range b.wide {
			v, _ := new(big.Int).SetString(strip(w), b.b)
			emit(intCase("int/"+b.pfx[0][1:2]+"-base-boundary", b.pfx[0]+w, v))
		}
	}
	// a minus sign in front of a decimal spelling with leading zeros negates the same decimal value
	for _, sp := range []string{"010", "0755", "0_10", "007", "0017", "00", "0_0", "0100", "08", "0777777"} {
		v, _ := new(big.Int).SetString(strip(sp), 10)
		emit(intCase("int/negated-leading-zeros", "-"+sp, new(big.Int).Neg(v)))
		emit(intCase("int/negated-leading-zeros", "- "+sp, new(big.Int).Neg(v)))
	}
	// floats / exponent floats with repeated separators have the value of the digits alone
	for _, sp := range [][2]string{{"1__2.5_5E-1", "12.55E-1"}, {"6__1.7e-3", "61.7e-3"}, {"1__0.2__5", "10.25"}, {"9__9.9e2", "99.9e2"}, {"1___0.0e0", "10.0"}} {
		f, _ := strconv.ParseFloat(sp[1], 64)
		emit(tcase{Class: "float/repeated-separators", Src: sp[0], Kind: "float", Float: f})
	}
	emit(tcase{Class: "float/repeated-separators-overflow", Src: "1__0.0e999", Kind: "reject", Risky: true})
	// long literals are one token with all their characters (lengths around 4 KiB and beyond)
	for _, n := range []int{4094, 4095, 4096, 4097, 5000, 9000, 20000} {
		xs := strings.Repeat("xy", n/2) + strings.Repeat("z", n%2)
		emit(intCase("str/long-literal", "\""+xs+"\".len", big.NewInt(int64(n))))
		emit(intCase("str/long-raw-literal", "`"+xs+"`.len", big.NewInt(int64(n))))
		emit(intCase("str/long-interpolated-literal", "\""+xs+"#{1}"+xs+"\".len", big.NewInt(int64(2*n+1))))
		emit(intCase("int/long-leading-zeros", strings.Repeat("0", n)+"7", big.NewInt(7)))
		emit(intCase("ident/long-name", "{v"+xs+": 3}.v"+xs, big.NewInt(3)))
	}
	// C. exponent ints
	// incl. mantissas of 16..18 digits that no float64 holds exactly
	for _, m := range []string{"0", "1", "5", "12", "100", "123", "1_0", "9", "92", "922337203685477580", "9223372036854775807", "9007199254740993", "1234567890123457", "900719925474099301", "72057594037927937", "4611686018427387905"} {
		for k := -3; k <= 20; k++ {
			for _, e := range []string{"e", "E"} {
				if e == "E" && k%5 != 0 {
					continue
				}
				src := fmt.Sprintf("%s%s%d", m, e, k)
				mv, _ := new(big.Int).SetString(strip(m), 10)
				var v *big.Int
				if k >= 0 {
					v = new(big.Int).Mul(mv, new(big.Int).Exp(big.NewInt(10), big.NewInt(int64(k)), nil))
				} else {
					d := new(big.Int).Exp(big.NewInt(10), big.NewInt(int64(-k)), nil)
					q, r := new(big.Int).QuoRem(mv, d, new(big.Int))
					if r.Sign() != 0 {
						continue // does not denote an integer: don't-care
					}
					v = q
				}
				emit(intCase("int/exponent", src, v))
			}
		}
	}
	// C'. exponent ints with extreme exponents: zero stays zero, a non-zero mantissa times a huge power of ten cannot
	// be represented, a mantissa with enough trailing zeros divided by a huge power of ten is exact
	for _, k := range []string{"21", "99", "400", "999", "1000", "1001", "1002", "5000", "99999", "9223372036854775807", "9223372036854775808", "99999999999999999999"} {
		for _, m := range []string{"0", "00", "000", "0_0"} {
			emit(tcase{Class: "int/exponent-extreme", Src: m + "e" + k, Kind: "int", Int: "0"})
			emit(tcase{Class: "int/exponent-extreme", Src: m + "e-" + k, Kind: "int", Int: "0"})
		}
		for _, m := range []string{"1", "7", "10", "922"} {
			emit(tcase{Class: "int/exponent-extreme", Src: m + "e" + k, Kind: "reject", Risky: true})
		}
	}
	for _, k := range []int{21, 400, 999, 1000, 1001, 1002, 3000} {
		for _, m := range []string{"1", "7", "42"} {
			emit(tcase{Class: "int/exponent-extreme", Src: m + strings.Repeat("0", k) + "e-" + fmt.Sprint(k), Kind: "int", Int: m})
			emit(tcase{Class: "int/exponent-extreme", Src: m + strings.Repeat("0", k+2) + "e-" + fmt.Sprint(k), Kind: "int", Int: m + "00"})
		}
	}
	// D. floats
	var digs []string
	words("0159", 3, func(w string) { digs = append(digs, w) })
	for _, a := range digs {
		for _, b := range digs {
			if !thorough && (len(a) == 3 && len(b) == 3) {
				continue
			}
			src := a + "." + b
			f, _ := strconv.ParseFloat(src, 64)
			emit(tcase{Class: "float/plain", Src: src, Kind: "float", Float: f})
		}
	}
	for _, src := range []string{"1_234.567", "1_0.0_1", "12_3.4_56", "0.1", "0.2", "0.3", "2.675", "1.005", "9007199254740993.0", "0.30000000000000004", "123456789.123456789", "179769313486231570000000000000000000000.0"} {
		f, _ := strconv.ParseFloat(strip(src), 64)
		emit(tcase{Class: "float/plain", Src: src, Kind: "float", Float: f})
	}
	for _, m := range []string{"1.0", "1.1", "2.5", "9.99", "0.1", "123.456", "1.7976931348623157", "4.9", "2.2250738585072014", "1_0.5"} {
		for _, k := range []int{-400, -324, -323, -320, -308, -307, -30, -20, -10, -5, -3, -2, -1, 0, 1, 2, 3, 5, 10, 15, 16, 17, 20, 22, 23, 30, 100, 300, 307, 308, 309, 400} {
			src := fmt.Sprintf("%se%d", m, k)
			f, err := strconv.ParseFloat(strip(src), 64)
			if err != nil && math.IsInf(f, 0) {
				emit(tcase{Class: "float/exponent-overflow", Src: src, Kind: "reject", Risky: true})
				continue
			}
			emit(tcase{Class: "float/exponent", Src: src, Kind: "float", Float: f})
		}
	}
	// E. strings
	for c := 0x20; c <= 0x7e; c++ {
		lit := `"a\` + string(rune(c)) + `b"`
		if c == '"' {
			lit = `"a\"b"`
		}
		if c == '#' {
			continue // `#{` would start an embedded string; `\#` handled below
		}
		tc := tcase{Class: "str/escape", Src: lit, Kind: "str", Reject: true, Risky: true}
		if u, err := strconv.Unquote(lit); err == nil {
			tc.Strs = []string{u}
			tc.Reject = false
			if c >= '0' && c <= '7' || c == 'x' || c == 'u' || c == 'U' {
				tc.Reject = true
			}
		} else {
			tc.Strs = []string{`a\` + string(rune(c)) + `b`}
		}
		emit(tc)
	}
	for _, p := range [][2]string{{`"a\x41b"`, "aAb"}, {`"あ"`, "あ"}, {`"a\101b"`, "aAb"}, {`"\U0001D11E"`, "𝄞"}, {`"tab\there"`, "tab\there"}, {`"q\"q"`, `q"q`}, {`"a\\"`, `a\`}, {`"\\"`, `\`},
		{`"\\\\"`, `\\`}, {`"a\\nb"`, `a\nb`}, {`"日本語"`, "日本語"}, {`""`, ""}, {`" "`, " "}, {`"a'b"`, "a'b"}, {"\"a`b\"", "a`b"}} {
		emit(tcase{Class: "str/sample", Src: p[0], Kind: "str", Strs: []string{p[1]}})
	}
	// interpolated strings: every printable character in the literal pieces around an interpolation stays itself
	for c := 0x20; c <= 0x7e; c++ {
		ch := string(rune(c))
		if ch == `"` || ch == `\` || ch == "#" || ch == "{" || ch == "}" {
			continue
		}
		emit(tcase{Class: "str/interpolated-literal-piece", Src: `"x` + ch + `y#{5}z` + ch + ch + `#{6}` + ch + `"`, Kind: "str", Strs: []string{"x" + ch + "y5z" + ch + ch + "6" + ch}})
	}
	// `#` that does not open an interpolation is an ordinary character, also next to one
	for _, p := range [][2]string{{`"a#b#{1}"`, "a#b1"}, {`"#{1}#"`, "1#"}, {`"a#{1}#b"`, "a1#b"}, {`"##{1}"`, "#1"}, {`"#a#{1}#b#{2}#c#"`, "#a1#b2#c#"}, {`"###{1}##"`, "##1##"}, {`"# #{1} #"`, "# 1 #"},
		{`"a#b"`, "a#b"}, {`"#"`, "#"}, {`"##"`, "##"}, {`"a\\##{1}"`, `a\#1`}, {`"#\"#{1}"`, `#"1`}} {
		emit(tcase{Class: "str/interpolated-literal-piece-with-hash", Src: p[0], Kind: "str", Strs: []string{p[1]}})
	}
	for _, p := range [][2]string{{`"\x25d#{1}\u0025s"`, "%d1%s"}, {`"100%#{1}"`, "100%1"}, {`"#{1}%"`, "1%"}, {`"%v#{nil}%v"`, "%vnil%v"}, {`"a\tb#{1}\n"`, "a\tb1\n"}, {`"日本#{1}語"`, "日本1語"}} {
		emit(tcase{Class: "str/interpolated-literal-piece", Src: p[0], Kind: "str", Strs: []string{p[1]}})
	}
	for _, p := range [][2]string{{`["a\\", "x"].len`, "2"}, {`["\\", "y"].len`, "2"}, {`["a\\", "x"][1]`, `"x"`}} {
		emit(tcase{Class: "str/escaped-backslash-before-quote", Src: p[0], Kind: "repr", Strs: []string{p[1]}, Risky: true})
	}
	for _, p := range [][2]string{{"?a", "a"}, {"?Z", "Z"}, {"?7", "7"}, {`?"`, `"`}, {"?'", "'"}, {"?#", "#"}, {"?あ", "あ"}, {"?,", ","}} {
		emit(tcase{Class: "str/char", Src: p[0], Kind: "str", Strs: []string{p[1]}})
	}
	for _, p := range [][2]string{{"`a\\nb`", `a\nb`}, {"`a\"b`", `a"b`}, {"`\\`", `\`}, {"`a#{1}b`", "a#{1}b"}, {"`a\nb`", "a\nb"}, {"``", ""}} {
		emit(tcase{Class: "str/raw", Src: p[0], Kind: "str", Strs: []string{p[1]}})
	}
	// F. identifiers
	idLen := 4
	if thorough {
		idLen = 5
	}
	seen := map[string]bool{}
	emitName := func(name string) {
		if seen[name] || !identRe.MatchString(name) {
			return
		}
		for _, k := range keywords {
			if name == k {
				return
			}
		}
		if strings.Trim(name, "_") == "" {
			return
		}
		seen[name] = true
		class := identClass(name)
		risky := class != "ident/plain"
		emit(tcase{Class: class + "/variable", Src: name + " := 5\n" + name, Kind: "repr", Strs: []string{"5"}, Risky: risky})
		if !risky {
			emit(tcase{Class: class + "/variable-read-from-nested-functions", Src: name + " := 5\n[{|| " + name + "}(), {|zq| {|| [zq, " + name + "]}()}(1)]", Kind: "repr", Strs: []string{"[5, [1, 5]]"}})
		}
		emit(tcase{Class: class + "/property", Src: "{" + name + ": 5}." + name, Kind: "repr", Strs: []string{"5"}, Risky: risky})
		emit(tcase{Class: class + "/symbol", Src: "'" + name, Kind: "str", Strs: []string{name}, Risky: risky})
		emit(tcase{Class: class + "/call", Src: name + " := {|x| x}\n" + name + "(5)", Kind: "repr", Strs: []string{"5"}, Risky: risky})
		// the symbol works as a symbol (sym?, symbol function) and the property is a property of the object (listed by keys)
		emit(tcase{Class: class + "/symbol-function", Src: "['" + name + ".sym?, '" + name + "({" + name + ": 5})]", Kind: "repr", Strs: []string{"[true, 5]"}, Risky: risky})
		keys := `["` + name + `"]`
		if strings.HasPrefix(name, "_") {
			keys = "[]"
		}
		emit(tcase{Class: class + "/property-listed", Src: "o := {" + name + ": 5}\n[o.keys, o.keys(private?: true)]", Kind: "repr", Strs: []string{"[" + keys + `, ["` + name + `"]]`}, Risky: risky})
	}
	// interpolated strs whose embedded expression evaluates the SAME literal again before the outer evaluation is
	// complete (recursive functions and methods, mutual recursion, recursion inside a chain block)
	for d := 1; d <= 5; d++ {
		var nest, tsen, show, ab func(n int) string
		nest = func(n int) string {
			if n == 0 {
				return "-"
			}
			return fmt.Sprintf("[%d:%s]", n, nest(n-1))
		}
		tsen = func(n int) string {
			if n == 0 {
				return "-"
			}
			return fmt.Sprintf("%s<%d>%s", tsen(n-1), n, tsen(n-1))
		}
		show = func(n int) string {
			if n == 0 {
				return "."
			}
			return fmt.Sprintf("(%d %s)", n, show(n-1))
		}
		ab = func(n int) string {
			if n == 0 {
				return ""
			}
			return fmt.Sprintf("%c%d%s|", "ab"[(d-n)%2], n, ab(n-1))
		}
		var tree func(n int) string
		tree = func(n int) string {
			if n == 0 {
				return "x"
			}
			return "<" + tree(n-1) + "," + tree(n-1) + ">"
		}
		emit(tcase{Class: "embedded/reentrant/function", Src: fmt.Sprintf("nest := {|n| \"[#{n}:#{nest(n - 1)}]\" if n > 0 else \"-\"}\nnest(%d)", d), Kind: "str", Strs: []string{nest(d)}})
		emit(tcase{Class: "embedded/reentrant/function-twice", Src: fmt.Sprintf("tsen := {|n| \"#{tsen(n - 1)}<#{n}>#{tsen(n - 1)}\" if n > 0 else \"-\"}\ntsen(%d)", d), Kind: "str", Strs: []string{tsen(d)}})
		emit(tcase{Class: "embedded/reentrant/method", Src: fmt.Sprintf("mk := {|d| {d: d, show: m{\"(#{.d} #{mk(.d - 1).show})\" if .d > 0 else \".\"}}}\nmk(%d).show", d), Kind: "str", Strs: []string{show(d)}})
		emit(tcase{Class: "embedded/reentrant/mutual", Src: fmt.Sprintf("a := {|n| \"a#{n}#{b(n - 1)}|\" if n > 0 else \"\"}\nb := {|n| \"b#{n}#{a(n - 1)}|\" if n > 0 else \"\"}\na(%d)", d), Kind: "str", Strs: []string{ab(d)}})
		if d <= 3 {
			emit(tcase{Class: "embedded/reentrant/chain-block", Src: fmt.Sprintf("sep := \",\"\ng := {|n| [1, 2]@{|i| f(n - 1)}.join(sep)}\nf := {|n| \"<#{g(n)}>\" if n > 0 else \"x\"}\nf(%d)", d), Kind: "str", Strs: []string{tree(d)}})
		}
	}
	words("aZ7_?!", idLen, emitName)
	// names that the root scope defines itself are names like any other
	for _, n := range []string{"Int", "Str", "Arr", "Obj", "Map", "Nil", "Float", "Func", "Iter", "Range", "Err", "Either", "Kernel", "Iterable", "Comparable", "true", "false", "nil", "assert", "import"} {
		emit(tcase{Class: "ident/root-scope-name/variable-read-from-nested-functions", Src: "{||\n" + n + " := 5\n[{|| " + n + "}(), {|zq| {|| [zq, " + n + "]}()}(1)]\n}()", Kind: "repr", Strs: []string{"[5, [1, 5]]"}})
		emit(tcase{Class: "ident/root-scope-name/parameter", Src: "{|" + n + "| [" + n + ", {|| " + n + "}()]}(5)", Kind: "repr", Strs: []string{"[5, 5]"}})
	}
	// a text that stops being read in the middle of an interpolated str leaves nothing behind: the texts read afterwards
	// (by the same program, through Str#eval) denote what they denote on their own
	for _, bad := range []string{"`\"total: #{1 1}\"`", "`\"x#{`", "`\"a#{99999999999999999999}b\"`", "`\"p#{(}q\"`", "`\"#{1}#{2 2}\"`"} {
		for _, good := range [][2]string{{"`[{a: 1}, \"b\"]`", `[{"a": 1}, "b"]`}, {"`{|x| x}(\"a}b\")`", `"a}b"`}, {"`{a: 1}; \"s}\" + \"}t\"`", `"s}}t"`}, {"`[\"#{1}\", {k: \"v\"}, \"w\"]`", `["1", {"k": "v"}, "w"]`}} {
			emit(tcase{Class: "embedded/read-after-an-aborted-read", Src: "[" + bad + ".try.eval.err?, " + good[0] + ".eval, " + bad + ".try.eval.err?, " + good[0] + ".eval]", Kind: "repr", Strs: []string{"[true, " + good[1] + ", true, " + good[1] + "]"}})
		}
	}
	// long names: every length around powers of two up to 1025 (thorough 4097), in 4 spellings
	maxLong := 1025
	if thorough {
		maxLong = 4097
	}
	for n := 8; n <= maxLong; n *= 2 {
		for _, l := range []int{n - 1, n, n + 1} {
			body := strings.Repeat("name_Of_7", l/9+1)[:l-1]
			emitName("a" + body)
			emitName("_" + body)
			emitName("q" + body[1:] + "?")
			emitName("Z" + body[1:] + "!")
		}
	}
	for _, k := range keywords {
		for _, n := range []string{k + "x", k + "_", k + "1", k + "?", k + "!", "x" + k, "_" + k, k + k, strings.ToUpper(k[:1]) + k[1:], k + "fy", k + "_else", "a" + k + "b"} {
			emitName(n)
		}
	}
}

func identClass(name string) string {
	for _, k := range keywords {
		// a reserved word directly followed by ! or ? matches the documented pattern and is not itself reserved
		if name == k+"!" || name == k+"?" {
			return "ident/keyword-then-mark"
		}
	}
	for _, k := range keywords {
		if strings.HasPrefix(name, k) {
			return "ident/keyword-prefixed"
		}
	}
	t := strings.TrimLeft(name, "_")
	if t != name {
		if t != "" && t[0] >= '0' && t[0] <= '9' {
			return "ident/underscore-then-digit"
		}
		if t == "?" || t == "!" {
			return "ident/underscores-then-mark"
		}
		return "ident/private"
	}
	return "ident/plain"
}

func judge(c *core.Ctx, t tcase, o panrun.Obs) {
	c.Nontrivial(1)
	c.Validated(1)
	c.Outcome(strings.SplitN(t.Class, "/", 2)[0] + ":" + o.Kind)
	viol := func(sub, exp string) {
		c.Violation(core.Violation{Key: t.Class + "/" + sub, Case: core.JSON(t), Desc: strings.ReplaceAll(t.Src, "\n", "; "), Expected: exp, Observed: o.Short() + " " + o.ErrMsg,
			Repro: "(" + strings.ReplaceAll(t.Src, "\n", "; ") + ").p\n"})
	}
	if o.Kind == "panic" || o.Kind == "discard" {
		viol("host-panic", "no panic")
		return
	}
	rejected := o.Kind == "syntax" || o.Kind == "error"
	switch t.Kind {
	case "reject":
		if !rejected {
			viol("not-rejected", "an error (the literal cannot be represented)")
		}
	case "int":
		if rejected {
			viol("rejected", "Int "+t.Int)
			return
		}
		v, ok := o.Val.(*object.PanInt)
		if !ok || fmt.Sprint(v.Value) != t.Int {
			viol("wrong-value", "Int "+t.Int)
		}
	case "float":
		if rejected {
			viol("rejected", fmt.Sprintf("Float %v", t.Float))
			return
		}
		v, ok := o.Val.(*object.PanFloat)
		if !ok || v.Value != t.Float {
			exp := fmt.Sprintf("Float %s", strconv.FormatFloat(t.Float, 'g', -1, 64))
			obs := o.Short()
			if ok {
				obs = strconv.FormatFloat(v.Value, 'g', -1, 64)
			}
			c.Violation(core.Violation{Key: t.Class + "/wrong-value", Case: core.JSON(t), Desc: t.Src, Expected: exp, Observed: obs, Repro: "(" + t.Src + ").p\n"})
		}
	case "str":
		if rejected {
			if !t.Reject {
				viol("rejected", fmt.Sprintf("Str %q", t.Strs))
			}
			return
		}
		v, ok := o.Val.(*object.PanStr)
		if ok {
			for _, s := range t.Strs {
				if v.Value == s {
					return
				}
			}
		}
		sub := "wrong-value"
		if ok && v.Value == "" {
			sub = "silently-empty"
		}
		viol(sub, fmt.Sprintf("Str %q", t.Strs)+map[bool]string{true: " or an error", false: ""}[t.Reject])
	case "repr":
		if rejected {
			viol("rejected", t.Strs[0])
			return
		}
		if o.Repr != t.Strs[0] {
			viol("wrong-value", t.Strs[0])
		}
	}
}

func run(c *core.Ctx) {
	var safe, risky []tcase
	gen(c.Thorough(), func(t tcase) {
		if t.Risky {
			risky = append(risky, t)
		} else {
			safe = append(safe, t)
		}
	})
	c.Note("cases_total", len(safe)+len(risky))
	c.Note("cases_own_batch(risky)", len(risky))
	n := 0
	j := func(t tcase, o panrun.Obs) {
		n++
		if n%700 == 1 {
			c.Sample(map[string]string{"class": t.Class, "source": t.Src, "expect": t.Kind + " " + t.Int + strings.Join(t.Strs, "|")})
		}
		judge(c, t, o)
	}
	body := func(t tcase) string { return t.Src }
	tk.Batched(c, 500, "", func(emit func(tcase)) {
		for _, t := range safe {
			emit(t)
		}
	}, body, j)
	distinctNames(c)
	fcs := fileCases()
	tk.Sharded(c, len(fcs), func(i int) { judgeFile(c, fcs[i]) })
	rcs := replCases()
	tk.Sharded(c, len(rcs), func(i int) { judgeREPL(c, rcs[i]) })
	// spellings that may not lex get small batches (a syntax error is bisected down to the case)
	tk.Batched(c, 8, "", func(emit func(tcase)) {
		for _, t := range risky {
			emit(t)
		}
	}, body, j)
}

// distinctNames: a name works as a variable/property/symbol only if no OTHER name is the same variable: variables,
// properties and symbols are keyed by the symbol hash, so every pair of different names of a bounded dictionary
// (all lower-case names of <=4 letters, and long names that share a prefix of 255..4097 bytes) must get different
// keys, and a pair of variables named by each prefix pair must hold different values.
func distinctNames(c *core.Ctx) {
	if c.Shard != 0 {
		return
	}
	seen := map[object.SymHash]string{}
	n := 0
	check := func(name string) {
		n++
		h := object.GetSymHash(name)
		if other, dup := seen[h]; dup && other != name {
			c.Violation(core.Violation{Key: "names/distinct-names-are-one-symbol", Case: core.JSON(tcase{Class: "names/pair", Src: other + " := 1\n" + name + " := 2\n[" + other + ", " + name + "]", Kind: "repr", Strs: []string{"[1, 2]"}}),
				Desc: fmt.Sprintf("%.40s and %.40s", other, name), Expected: "different names are different variables, properties and symbols", Observed: "both names have the symbol key " + fmt.Sprint(h),
				Repro: other + " := 1\n" + name + " := 2\n[" + other + ", " + name + "].p\n"})
			return
		}
		seen[h] = name
	}
	var rec func(prefix string, left int)
	rec = func(prefix string, left int) {
		if prefix != "" {
			check(prefix)
		}
		if left == 0 {
			return
		}
		for ch := 'a'; ch <= 'z'; ch++ {
			rec(prefix+string(ch), left-1)
		}
	}
	rec("", 4)
	// names longer than four bytes (more bits than a 32-bit key): every 6-letter name over 8 letters, every 12-letter name over 3
	var rec2 func(alpha, prefix string, left int)
	rec2 = func(alpha, prefix string, left int) {
		if left == 0 {
			check(prefix)
			return
		}
		for _, ch := range alpha {
			rec2(alpha, prefix+string(ch), left-1)
		}
	}
	rec2("aeinorst", "", 6)
	rec2("xyz", "", 12)
	var pairs []tcase
	for _, k := range []int{31, 32, 33, 63, 64, 65, 127, 128, 129, 255, 256, 257, 511, 512, 513, 1023, 1024, 1025, 4095, 4096, 4097} {
		pre := strings.Repeat("longName_", k/9+1)[:k]
		for _, suf := range []string{"a", "b", "ab", "ba", "a1", "a_"} {
			check(pre + suf)
		}
		a, b := pre+"a", pre+"b"
		pairs = append(pairs, tcase{Class: "names/shared-prefix", Src: a + " := 1\n" + b + " := 2\no := {" + a + ": 3, " + b + ": 4}\n[" + a + ", " + b + ", o." + a + ", o." + b + ", o.keys.len, '" + a + " == '" + b + "]", Kind: "repr", Strs: []string{"[1, 2, 3, 4, 2, false]"}})
	}
	// a published pair of different 13-letter names with the same 64-bit FNV-1a value (own key: a known finding must not
	// hide other collisions)
	ka, kb := "swddgEpwqyega", "lwvgwfgDAyorc"
	if object.GetSymHash(ka) == object.GetSymHash(kb) {
		c.Violation(core.Violation{Key: "names/distinct-names-are-one-symbol/" + ka + "+" + kb, Case: core.JSON(tcase{Class: "names/pair", Src: ka + " := 1\n" + kb + " := 2\n[" + ka + ", " + kb + "]", Kind: "repr", Strs: []string{"[1, 2]"}}),
			Desc: ka + " and " + kb, Expected: "different names are different variables, properties and symbols", Observed: "both names have the same symbol key (64-bit FNV-1a collision)",
			Repro: ka + " := 1\n" + kb + " := 2\n[" + ka + ", " + kb + "].p\n"})
	}
	c.Note("names_with_pairwise_distinct_symbol_keys", n)
	c.Eval(n)
	c.Validated(n)
	tk.Batched(c, 8, "", func(emit func(tcase)) {
		for _, t := range pairs {
			emit(t)
		}
	}, func(t tcase) string { return t.Src }, func(t tcase, o panrun.Obs) { judge(c, t, o) })
}

// fileCases: literals in script FILES run by the real command-line binary (the bytes of the file reach the lexer
// through runscript.ReadFile): raw strings spanning lines keep their CR / LF / CRLF bytes.
type fileCase struct {
	Class string `json:"class"` // "file/..."
	Bytes string `json:"bytes"`
	Want  string `json:"want"`
}

func fileCases() []fileCase {
	var cs []fileCase
	for _, nl := range []struct{ name, s string }{{"LF", "\n"}, {"CRLF", "\r\n"}, {"CR", "\r"}, {"LFCR", "\n\r"}, {"CRCRLF", "\r\r\n"}} {
		raw := "ab" + nl.s + "cd" + nl.s + nl.s + "e"
		cs = append(cs, fileCase{Class: "file/raw-string-spanning-lines/" + nl.name, Bytes: "s := `" + raw + "`\n[s.len, s == \"ab\" + " + fmt.Sprintf("%q", nl.s) + " + \"cd\" + " + fmt.Sprintf("%q", nl.s+nl.s) + " + \"e\"].p\n",
			Want: fmt.Sprintf("[%d, true]\n", len(raw))})
		cs = append(cs, fileCase{Class: "file/line-breaks-between-statements/" + nl.name, Bytes: "a := 1" + nl.s + "b := \"x y\"" + nl.s + "[a, b].p" + nl.s, Want: "[1, \"x y\"]\n"})
	}
	cs = append(cs, fileCase{Class: "file/string-bytes", Bytes: "[\"tab\there\".len, `q\"q`.len, \"日本\".len, ?\t.len].p\n", Want: "[8, 3, 2, 1]\n"})
	return cs
}

// replCases: literals that span lines, entered in the REPL's multi-line mode (Class "repl/...", Bytes = the lines,
// Want = the Repr the REPL must echo): a quoted or raw string has exactly its characters, blanks at line ends included.
func replCases() []fileCase {
	var cs []fileCase
	for _, k := range []int{0, 1, 3, 64} {
		b := strings.Repeat(" ", k)
		raw := "a" + b + "\n" + b + " b  \n\tc" + b
		cs = append(cs, fileCase{Class: fmt.Sprintf("repl/raw-string-spanning-lines/%d", k), Bytes: "s := `" + raw + "`\n[s.len, s == \"a" + b + "\\n" + b + " b  \\n\\tc" + b + "\"]\n", Want: fmt.Sprintf("[%d, true]", len(raw))})
		cs = append(cs, fileCase{Class: fmt.Sprintf("repl/char-and-str-at-line-end/%d", k), Bytes: "xs := [\"x" + b + "\",\n  \"" + b + "y\",\n ?z]\nxs@len\n", Want: fmt.Sprintf("[%d, %d, 1]", 1+k, 1+k)})
	}
	return cs
}

func judgeREPL(c *core.Ctx, t fileCase) {
	c.Eval(1)
	c.Validated(1)
	c.Nontrivial(1)
	var out strings.Builder
	func() {
		defer func() {
			if p := recover(); p != nil {
				fmt.Fprintf(&out, "HOST PANIC: %v", p)
			}
		}()
		runscript.StartREPL("", strings.NewReader("multi\n"+t.Bytes+"\n"), &out)
	}()
	ok := strings.Contains(out.String(), "\n"+t.Want+"\n")
	c.Outcome("repl:" + map[bool]string{true: "ok", false: "differs"}[ok])
	if !ok {
		c.Violation(core.Violation{Key: strings.Join(strings.Split(t.Class, "/")[:2], "/") + "/wrong-value", Case: core.JSON(t), Desc: fmt.Sprintf("lines %q entered in the REPL's multi-line mode", t.Bytes), Expected: "echo " + t.Want,
			Observed: fmt.Sprintf("%.300q", out.String())})
	}
}

func judgeFile(c *core.Ctx, t fileCase) {
	c.Eval(1)
	c.Validated(1)
	c.Nontrivial(1)
	cli := os.Getenv("PANMC_CLI")
	if cli == "" {
		c.HarnessError("PANMC_CLI is not set")
		return
	}
	f, err := os.CreateTemp(os.Getenv("PANMC_SCRATCH"), "c17file*.pangaea")
	if err != nil {
		c.HarnessError("%v", err)
		return
	}
	defer os.Remove(f.Name())
	f.WriteString(t.Bytes)
	f.Close()
	cmd := exec.Command("timeout", "30", cli, f.Name())
	var so, se strings.Builder
	cmd.Stdout, cmd.Stderr = &so, &se
	cmd.Run()
	c.Outcome("file:" + map[bool]string{true: "ok", false: "differs"}[so.String() == t.Want])
	if so.String() != t.Want {
		c.Violation(core.Violation{Key: strings.Join(strings.Split(t.Class, "/")[:2], "/") + "/wrong-value", Case: core.JSON(t), Desc: fmt.Sprintf("file bytes %q", t.Bytes), Expected: fmt.Sprintf("stdout %q", t.Want),
			Observed: fmt.Sprintf("stdout %q stderr %.200q", so.String(), se.String())})
	}
}

func replay(c *core.Ctx, raw json.RawMessage) {
	var ft fileCase
	if json.Unmarshal(raw, &ft) == nil && strings.HasPrefix(ft.Class, "file/") {
		judgeFile(c, ft)
		return
	}
	if strings.HasPrefix(ft.Class, "repl/") {
		judgeREPL(c, ft)
		return
	}
	var t tcase
	if err := json.Unmarshal(raw, &t); err != nil {
		c.HarnessError("bad case: %v", err)
		return
	}
	obs := c.R().Thunks("", []string{t.Src}, "")
	c.Eval(1)
	judge(c, t, obs[0])
}
