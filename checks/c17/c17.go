// Package c17: literals and names denote what their spelling says (property C17).
// Every literal spelling of each form up to a length bound (plus boundary spellings) and every
// identifier of the documented pattern up to a length bound (plus keyword-prefixed names) is lexed,
// parsed and evaluated by the real interpreter and compared with an independent decoder.
package c17

import (
	"encoding/json"
	"fmt"
	"math"
	"math/big"
	"regexp"
	"strconv"
	"strings"

	"github.com/Syuparn/pangaea/object"

	"panmc/internal/core"
	"panmc/internal/panrun"
	"panmc/internal/tk"
)

func init() {
	core.Register(&core.Check{
		ID:    "C17",
		Level: "model_checking",
		Rule: "all decimal int spellings <=4 chars over {0,1,7,9,_} + spellings around 2^63/2^64/10^19; 0x/0o/0b spellings <=3 digits + widest values; exponent ints M e K (K in [-3,20]) and with extreme exponents (21 .. beyond int64; zero mantissas, non-representable products, exact quotients of mantissas with up to 3002 digits); floats D.D (<=3+3 digits) and exponent floats incl. extreme magnitudes; " +
			"every escape \\c for c in 0x20..0x7e, \\x/\\u/octal samples, embedded quotes, trailing backslash, char and raw strings; every identifier <=4 (thorough 5) chars over {a,Z,7,_,?,!} matching the documented pattern, every keyword-prefixed/suffixed name and long names of every length 2^k-1, 2^k, 2^k+1 up to 1025 (thorough 4097) in 4 spellings, each as variable, property, symbol, called function, symbol function (sym?) and listed key, " +
			"each used as variable, property, symbol and call; oracle = math/big, strconv.ParseFloat, escape table; non-representable literals must be rejected; non-trivial = every case; distinct = distinct spelling x use",
		Assumptions: []string{
			"exponent-int spellings that do not denote an integer (1e-3) are a don't-care",
			"an undefined escape may be rejected or kept verbatim; a defined one is decoded like Go's strconv.Unquote",
			"names made only of underscores (`_` is a predefined object), a reserved word directly followed by ! or ?, and escapes in ?c char strings are not generated",
		},
		Run:    run,
		Replay: replay,
	})
}

type tcase struct {
	Class string `json:"class"`
	Src   string `json:"src"`
	// expectation
	Kind   string   `json:"kind"` // int | float | str | reject | any
	Int    string   `json:"int,omitempty"`
	Float  float64  `json:"float,omitempty"`
	Strs   []string `json:"strs,omitempty"` // accepted string values
	Reject bool     `json:"reject_ok,omitempty"`
	Risky  bool     `json:"risky,omitempty"`
}

var maxI = big.NewInt(math.MaxInt64)

func intCase(class, spelling string, v *big.Int) tcase {
	if v.Cmp(maxI) > 0 {
		return tcase{Class: class, Src: spelling, Kind: "reject", Risky: true}
	}
	return tcase{Class: class, Src: spelling, Kind: "int", Int: v.String()}
}

func strip(s string) string { return strings.ReplaceAll(s, "_", "") }

func words(alpha string, maxLen int, emit func(string)) {
	var rec func(cur string)
	rec = func(cur string) {
		if cur != "" {
			emit(cur)
		}
		if len(cur) == maxLen {
			return
		}
		for _, c := range alpha {
			rec(cur + string(c))
		}
	}
	rec("")
}

var intRe = regexp.MustCompile(`^([0-9][0-9_]*[0-9]|[0-9]+)$`)
var identRe = regexp.MustCompile(`^[a-zA-Z_][a-zA-Z0-9_]*[!?]?$`)
var keywords = []string{"if", "else", "return", "raise", "yield", "defer"}

func gen(thorough bool, emit func(tcase)) {
	// A. decimal ints
	words("0179_", 4, func(w string) {
		if intRe.MatchString(w) {
			v, _ := new(big.Int).SetString(strip(w), 10)
			emit(intCase("int/decimal", w, v))
		}
	})
	for _, w := range []string{"9223372036854775806", "9223372036854775807", "9223372036854775808", "9223372036854775809", "18446744073709551615", "18446744073709551616",
		"99999999999999999999", "10000000000000000000", "9_223_372_036_854_775_807", "9_223_372_036_854_775_808", "0009223372036854775807", "00009223372036854775808",
		"123456789012345678", "1234567890123456789", "12345678901234567890", "340282366920938463463374607431768211456"} {
		v, _ := new(big.Int).SetString(strip(w), 10)
		emit(intCase("int/decimal-boundary", w, v))
	}
	// B. hex / oct / bin
	type base struct {
		pfx   []string
		alpha string
		b     int
		wide  []string
	}
	for _, b := range []base{
		{[]string{"0x", "0X"}, "01fA_", 16, []string{"7fffffffffffffff", "8000000000000000", "ffffffffffffffff", "7FFF_FFFF_FFFF_FFFF", "10000000000000000"}},
		{[]string{"0o", "0O"}, "017_", 8, []string{"777777777777777777777", "1000000000000000000000", "1777777777777777777777"}},
		{[]string{"0b", "0B"}, "01_", 2, []string{strings.Repeat("1", 63), "1" + strings.Repeat("0", 63), strings.Repeat("1", 64)}},
	} {
		re := regexp.MustCompile(`^([0-9a-fA-F][0-9a-fA-F_]*[0-9a-fA-F]|[0-9a-fA-F]+)$`)
		words(b.alpha, 3, func(w string) {
			if !re.MatchString(w) {
				return
			}
			v, ok := new(big.Int).SetString(strip(w), b.b)
			if !ok {
				return
			}
			for _, p := range b.pfx {
				emit(intCase("int/"+p[1:2]+"-base", p+w, v))
			}
		})
		for _, w := range b.wide {
			v, _ := new(big.Int).SetString(strip(w), b.b)
			emit(intCase("int/"+b.pfx[0][1:2]+"-base-boundary", b.pfx[0]+w, v))
		}
	}
	// C. exponent ints
	for _, m := range []string{"0", "1", "5", "12", "100", "123", "1_0", "9", "92", "922337203685477580", "9223372036854775807"} {
		for k := -3; k <= 20; k++ {
			for _, e := range []string{"e", "E"} {
				if e == "E" && k%5 != 0 {
					continue
				}
				src := fmt.Sprintf("%s%s%d", m, e, k)
				mv, _ := new(big.Int).SetString(strip(m), 10)
				var v *big.Int
				if k >= 0 {
					v = new(big.Int).Mul(mv, new(big.Int).Exp(big.NewInt(10), big.NewInt(int64(k)), nil))
				} else {
					d := new(big.Int).Exp(big.NewInt(10), big.NewInt(int64(-k)), nil)
					q, r := new(big.Int).QuoRem(mv, d, new(big.Int))
					if r.Sign() != 0 {
						continue // does not denote an integer: don't-care
					}
					v = q
				}
				emit(intCase("int/exponent", src, v))
			}
		}
	}
	// C'. exponent ints with extreme exponents: zero stays zero, a non-zero mantissa times a huge power of ten cannot
	// be represented, a mantissa with enough trailing zeros divided by a huge power of ten is exact
	for _, k := range []string{"21", "99", "400", "999", "1000", "1001", "1002", "5000", "99999", "9223372036854775807", "9223372036854775808", "99999999999999999999"} {
		for _, m := range []string{"0", "00", "000", "0_0"} {
			emit(tcase{Class: "int/exponent-extreme", Src: m + "e" + k, Kind: "int", Int: "0"})
			emit(tcase{Class: "int/exponent-extreme", Src: m + "e-" + k, Kind: "int", Int: "0"})
		}
		for _, m := range []string{"1", "7", "10", "922"} {
			emit(tcase{Class: "int/exponent-extreme", Src: m + "e" + k, Kind: "reject", Risky: true})
		}
	}
	for _, k := range []int{21, 400, 999, 1000, 1001, 1002, 3000} {
		for _, m := range []string{"1", "7", "42"} {
			emit(tcase{Class: "int/exponent-extreme", Src: m + strings.Repeat("0", k) + "e-" + fmt.Sprint(k), Kind: "int", Int: m})
			emit(tcase{Class: "int/exponent-extreme", Src: m + strings.Repeat("0", k+2) + "e-" + fmt.Sprint(k), Kind: "int", Int: m + "00"})
		}
	}
	// D. floats
	var digs []string
	words("0159", 3, func(w string) { digs = append(digs, w) })
	for _, a := range digs {
		for _, b := range digs {
			if !thorough && (len(a) == 3 && len(b) == 3) {
				continue
			}
			src := a + "." + b
			f, _ := strconv.ParseFloat(src, 64)
			emit(tcase{Class: "float/plain", Src: src, Kind: "float", Float: f})
		}
	}
	for _, src := range []string{"1_234.567", "1_0.0_1", "12_3.4_56", "0.1", "0.2", "0.3", "2.675", "1.005", "9007199254740993.0", "0.30000000000000004", "123456789.123456789", "179769313486231570000000000000000000000.0"} {
		f, _ := strconv.ParseFloat(strip(src), 64)
		emit(tcase{Class: "float/plain", Src: src, Kind: "float", Float: f})
	}
	for _, m := range []string{"1.0", "1.1", "2.5", "9.99", "0.1", "123.456", "1.7976931348623157", "4.9", "2.2250738585072014", "1_0.5"} {
		for _, k := range []int{-400, -324, -323, -320, -308, -307, -30, -20, -10, -5, -3, -2, -1, 0, 1, 2, 3, 5, 10, 15, 16, 17, 20, 22, 23, 30, 100, 300, 307, 308, 309, 400} {
			src := fmt.Sprintf("%se%d", m, k)
			f, err := strconv.ParseFloat(strip(src), 64)
			if err != nil && math.IsInf(f, 0) {
				emit(tcase{Class: "float/exponent-overflow", Src: src, Kind: "reject", Risky: true})
				continue
			}
			emit(tcase{Class: "float/exponent", Src: src, Kind: "float", Float: f})
		}
	}
	// E. strings
	for c := 0x20; c <= 0x7e; c++ {
		lit := `"a\` + string(rune(c)) + `b"`
		if c == '"' {
			lit = `"a\"b"`
		}
		if c == '#' {
			continue // `#{` would start an embedded string; `\#` handled below
		}
		tc := tcase{Class: "str/escape", Src: lit, Kind: "str", Reject: true, Risky: true}
		if u, err := strconv.Unquote(lit); err == nil {
			tc.Strs = []string{u}
			tc.Reject = false
			if c >= '0' && c <= '7' || c == 'x' || c == 'u' || c == 'U' {
				tc.Reject = true
			}
		} else {
			tc.Strs = []string{`a\` + string(rune(c)) + `b`}
		}
		emit(tc)
	}
	for _, p := range [][2]string{{`"a\x41b"`, "aAb"}, {`"あ"`, "あ"}, {`"a\101b"`, "aAb"}, {`"\U0001D11E"`, "𝄞"}, {`"tab\there"`, "tab\there"}, {`"q\"q"`, `q"q`}, {`"a\\"`, `a\`}, {`"\\"`, `\`},
		{`"\\\\"`, `\\`}, {`"a\\nb"`, `a\nb`}, {`"日本語"`, "日本語"}, {`""`, ""}, {`" "`, " "}, {`"a'b"`, "a'b"}, {"\"a`b\"", "a`b"}} {
		emit(tcase{Class: "str/sample", Src: p[0], Kind: "str", Strs: []string{p[1]}})
	}
	// interpolated strings: every printable character in the literal pieces around an interpolation stays itself
	for c := 0x20; c <= 0x7e; c++ {
		ch := string(rune(c))
		if ch == `"` || ch == `\` || ch == "#" || ch == "{" || ch == "}" {
			continue
		}
		emit(tcase{Class: "str/interpolated-literal-piece", Src: `"x` + ch + `y#{5}z` + ch + ch + `#{6}` + ch + `"`, Kind: "str", Strs: []string{"x" + ch + "y5z" + ch + ch + "6" + ch}})
	}
	// `#` that does not open an interpolation is an ordinary character, also next to one
	for _, p := range [][2]string{{`"a#b#{1}"`, "a#b1"}, {`"#{1}#"`, "1#"}, {`"a#{1}#b"`, "a1#b"}, {`"##{1}"`, "#1"}, {`"#a#{1}#b#{2}#c#"`, "#a1#b2#c#"}, {`"###{1}##"`, "##1##"}, {`"# #{1} #"`, "# 1 #"},
		{`"a#b"`, "a#b"}, {`"#"`, "#"}, {`"##"`, "##"}, {`"a\\##{1}"`, `a\#1`}, {`"#\"#{1}"`, `#"1`}} {
		emit(tcase{Class: "str/interpolated-literal-piece-with-hash", Src: p[0], Kind: "str", Strs: []string{p[1]}})
	}
	for _, p := range [][2]string{{`"\x25d#{1}\u0025s"`, "%d1%s"}, {`"100%#{1}"`, "100%1"}, {`"#{1}%"`, "1%"}, {`"%v#{nil}%v"`, "%vnil%v"}, {`"a\tb#{1}\n"`, "a\tb1\n"}, {`"日本#{1}語"`, "日本1語"}} {
		emit(tcase{Class: "str/interpolated-literal-piece", Src: p[0], Kind: "str", Strs: []string{p[1]}})
	}
	for _, p := range [][2]string{{`["a\\", "x"].len`, "2"}, {`["\\", "y"].len`, "2"}, {`["a\\", "x"][1]`, `"x"`}} {
		emit(tcase{Class: "str/escaped-backslash-before-quote", Src: p[0], Kind: "repr", Strs: []string{p[1]}, Risky: true})
	}
	for _, p := range [][2]string{{"?a", "a"}, {"?Z", "Z"}, {"?7", "7"}, {`?"`, `"`}, {"?'", "'"}, {"?#", "#"}, {"?あ", "あ"}, {"?,", ","}} {
		emit(tcase{Class: "str/char", Src: p[0], Kind: "str", Strs: []string{p[1]}})
	}
	for _, p := range [][2]string{{"`a\\nb`", `a\nb`}, {"`a\"b`", `a"b`}, {"`\\`", `\`}, {"`a#{1}b`", "a#{1}b"}, {"`a\nb`", "a\nb"}, {"``", ""}} {
		emit(tcase{Class: "str/raw", Src: p[0], Kind: "str", Strs: []string{p[1]}})
	}
	// F. identifiers
	idLen := 4
	if thorough {
		idLen = 5
	}
	seen := map[string]bool{}
	emitName := func(name string) {
		if seen[name] || !identRe.MatchString(name) {
			return
		}
		for _, k := range keywords {
			if name == k {
				return
			}
		}
		if strings.Trim(name, "_") == "" {
			return
		}
		for _, k := range keywords {
			// don't-care: a reserved word directly followed by ! or ? reads as the keyword and an operator (`1 if!x`)
			if name == k+"!" || name == k+"?" {
				return
			}
		}
		seen[name] = true
		class := identClass(name)
		risky := class != "ident/plain"
		emit(tcase{Class: class + "/variable", Src: name + " := 5\n" + name, Kind: "repr", Strs: []string{"5"}, Risky: risky})
		emit(tcase{Class: class + "/property", Src: "{" + name + ": 5}." + name, Kind: "repr", Strs: []string{"5"}, Risky: risky})
		emit(tcase{Class: class + "/symbol", Src: "'" + name, Kind: "str", Strs: []string{name}, Risky: risky})
		emit(tcase{Class: class + "/call", Src: name + " := {|x| x}\n" + name + "(5)", Kind: "repr", Strs: []string{"5"}, Risky: risky})
		// the symbol works as a symbol (sym?, symbol function) and the property is a property of the object (listed by keys)
		emit(tcase{Class: class + "/symbol-function", Src: "['" + name + ".sym?, '" + name + "({" + name + ": 5})]", Kind: "repr", Strs: []string{"[true, 5]"}, Risky: risky})
		keys := `["` + name + `"]`
		if strings.HasPrefix(name, "_") {
			keys = "[]"
		}
		emit(tcase{Class: class + "/property-listed", Src: "o := {" + name + ": 5}\n[o.keys, o.keys(private?: true)]", Kind: "repr", Strs: []string{"[" + keys + `, ["` + name + `"]]`}, Risky: risky})
	}
	words("aZ7_?!", idLen, emitName)
	// long names: every length around powers of two up to 1025 (thorough 4097), in 4 spellings
	maxLong := 1025
	if thorough {
		maxLong = 4097
	}
	for n := 8; n <= maxLong; n *= 2 {
		for _, l := range []int{n - 1, n, n + 1} {
			body := strings.Repeat("name_Of_7", l/9+1)[:l-1]
			emitName("a" + body)
			emitName("_" + body)
			emitName("q" + body[1:] + "?")
			emitName("Z" + body[1:] + "!")
		}
	}
	for _, k := range keywords {
		for _, n := range []string{k + "x", k + "_", k + "1", k + "?", k + "!", "x" + k, "_" + k, k + k, strings.ToUpper(k[:1]) + k[1:], k + "fy", k + "_else", "a" + k + "b"} {
			emitName(n)
		}
	}
}

func identClass(name string) string {
	for _, k := range keywords {
		if strings.HasPrefix(name, k) {
			return "ident/keyword-prefixed"
		}
	}
	t := strings.TrimLeft(name, "_")
	if t != name {
		if t != "" && t[0] >= '0' && t[0] <= '9' {
			return "ident/underscore-then-digit"
		}
		if t == "?" || t == "!" {
			return "ident/underscores-then-mark"
		}
		return "ident/private"
	}
	return "ident/plain"
}

func judge(c *core.Ctx, t tcase, o panrun.Obs) {
	c.Nontrivial(1)
	c.Validated(1)
	c.Outcome(strings.SplitN(t.Class, "/", 2)[0] + ":" + o.Kind)
	viol := func(sub, exp string) {
		c.Violation(core.Violation{Key: t.Class + "/" + sub, Case: core.JSON(t), Desc: strings.ReplaceAll(t.Src, "\n", "; "), Expected: exp, Observed: o.Short() + " " + o.ErrMsg,
			Repro: "(" + strings.ReplaceAll(t.Src, "\n", "; ") + ").p\n"})
	}
	if o.Kind == "panic" || o.Kind == "discard" {
		viol("host-panic", "no panic")
		return
	}
	rejected := o.Kind == "syntax" || o.Kind == "error"
	switch t.Kind {
	case "reject":
		if !rejected {
			viol("not-rejected", "an error (the literal cannot be represented)")
		}
	case "int":
		if rejected {
			viol("rejected", "Int "+t.Int)
			return
		}
		v, ok := o.Val.(*object.PanInt)
		if !ok || fmt.Sprint(v.Value) != t.Int {
			viol("wrong-value", "Int "+t.Int)
		}
	case "float":
		if rejected {
			viol("rejected", fmt.Sprintf("Float %v", t.Float))
			return
		}
		v, ok := o.Val.(*object.PanFloat)
		if !ok || v.Value != t.Float {
			exp := fmt.Sprintf("Float %s", strconv.FormatFloat(t.Float, 'g', -1, 64))
			obs := o.Short()
			if ok {
				obs = strconv.FormatFloat(v.Value, 'g', -1, 64)
			}
			c.Violation(core.Violation{Key: t.Class + "/wrong-value", Case: core.JSON(t), Desc: t.Src, Expected: exp, Observed: obs, Repro: "(" + t.Src + ").p\n"})
		}
	case "str":
		if rejected {
			if !t.Reject {
				viol("rejected", fmt.Sprintf("Str %q", t.Strs))
			}
			return
		}
		v, ok := o.Val.(*object.PanStr)
		if ok {
			for _, s := range t.Strs {
				if v.Value == s {
					return
				}
			}
		}
		sub := "wrong-value"
		if ok && v.Value == "" {
			sub = "silently-empty"
		}
		viol(sub, fmt.Sprintf("Str %q", t.Strs)+map[bool]string{true: " or an error", false: ""}[t.Reject])
	case "repr":
		if rejected {
			viol("rejected", t.Strs[0])
			return
		}
		if o.Repr != t.Strs[0] {
			viol("wrong-value", t.Strs[0])
		}
	}
}

func run(c *core.Ctx) {
	var safe, risky []tcase
	gen(c.Thorough(), func(t tcase) {
		if t.Risky {
			risky = append(risky, t)
		} else {
			safe = append(safe, t)
		}
	})
	c.Note("cases_total", len(safe)+len(risky))
	c.Note("cases_own_batch(risky)", len(risky))
	n := 0
	j := func(t tcase, o panrun.Obs) {
		n++
		if n%700 == 1 {
			c.Sample(map[string]string{"class": t.Class, "source": t.Src, "expect": t.Kind + " " + t.Int + strings.Join(t.Strs, "|")})
		}
		judge(c, t, o)
	}
	body := func(t tcase) string { return t.Src }
	tk.Batched(c, 500, "", func(emit func(tcase)) {
		for _, t := range safe {
			emit(t)
		}
	}, body, j)
	// spellings that may not lex get small batches (a syntax error is bisected down to the case)
	tk.Batched(c, 8, "", func(emit func(tcase)) {
		for _, t := range risky {
			emit(t)
		}
	}, body, j)
}

func replay(c *core.Ctx, raw json.RawMessage) {
	var t tcase
	if err := json.Unmarshal(raw, &t); err != nil {
		c.HarnessError("bad case: %v", err)
		return
	}
	obs := c.R().Thunks("", []string{t.Src}, "")
	c.Eval(1)
	judge(c, t, obs[0])
}
