// Package c15: deferred expressions run exactly once, in order, on every way out (property C15).
// Fault enumeration over exit points: every body of <=N statements over an alphabet that contains
// every exit kind, in several calling contexts, against a defer model.
package c15

import (
	"encoding/json"
	"fmt"
	"os"
	"os/exec"
	"path/filepath"
	"strings"

	"panmc/internal/core"
	"panmc/internal/panrun"
	"panmc/internal/tk"
)

func init() {
	core.Register(&core.Check{
		ID:    "C15",
		Level: "fault_enumeration",
		// generous internal deadline: the run takes 1-2 minutes on an idle machine and several times that next to other jobs
		QuickBudget: 900,
		Rule: "all function bodies of <=4 statements over the full alphabet and of 5 over a reduced one (thorough: <=5 over the full alphabet) statements over {print, value, defer, guarded defer true/false, return, guarded return true/false, raise, raise of nil / guarded raise of an int (a raise of something that is not an error ends the body like return), " +
			"failing call, call of a function with its own defers, deferred expression that raises, defer/return whose guard expression raises, a list chain whose block fails with StopIterErr} plus iterator bodies with yield, each run in 7 contexts (direct call, called from a body with its own defer, three nested levels with several defers, as a method, per element of a list chain whose literal has its own defer, inside a try step, iterator next); " +
			"one function literal (function and method) called 2 (thorough 3) times with every sequence of 8 argument tuples that decide which defers are reached and how the body ends, every body of <=3 statements over 6 parametrised kinds; " +
			"stdout markers and outcome compared with a defer model; non-trivial = body contains a defer and an exit or a failing statement; distinct = distinct (body, context); round 8: A second small alphabet (bodies <= 3, thorough 4) holds variables named like keywords and guards built with && / || on zeros that are not the cached 0.",
		Assumptions: []string{
			"the value of a body whose last statement is a defer is a don't-care (only the trace is compared there)",
		},
		Run:    run,
		Replay: replay,
	})
}

const prelude = `hh := {np: m{nil.zz_nope}}
fail := {|| raise ValueErr.new("nested")}
inner := {|| defer "id".p; "ip".p; 5}
`

// statement kinds
var alphabet = []string{"P", "V", "D", "DT", "DF", "DN", "DZ", "DC", "R", "RT", "RF", "X", "CF", "CD", "DX", "DG", "RG", "CS", "XN", "XG"}
var reduced = []string{"P", "D", "DN", "DZ", "R", "X", "CF", "DX", "DG", "CS"}
var iterAlphabet = []string{"P", "D", "DF", "DN", "Y", "YT", "YN", "YF", "X", "DX"}

type tcase struct {
	Stmts []string `json:"stmts"`
	Ctx   string   `json:"ctx"` // call | nested | try | iter
}

func stmtSrc(kind string, k int) string {
	switch kind {
	case "P":
		return fmt.Sprintf(`"p%d".p`, k)
	case "V":
		return fmt.Sprintf("%d", 90+k)
	case "D":
		return fmt.Sprintf(`defer "d%d".p`, k)
	case "DT":
		return fmt.Sprintf(`defer "d%d".p if true`, k)
	case "DF":
		return fmt.Sprintf(`defer "d%d".p if false`, k)
	case "DN": // truthy guard that is not the `true` object
		return fmt.Sprintf(`defer "d%d".p if [%d]`, k, k)
	case "DZ": // falsy guard that is not the `false` object
		return fmt.Sprintf(`defer "d%d".p if ""`, k)
	case "YN":
		return fmt.Sprintf(`yield %d if "go"`, 30+k)
	case "R":
		return fmt.Sprintf("return %d", 70+k)
	case "RT":
		return fmt.Sprintf("return %d if 1", 70+k)
	case "RF":
		return fmt.Sprintf("return %d if nil", 70+k)
	case "X":
		return fmt.Sprintf(`raise Err.new("x%d")`, k)
	case "LN": // a nested failure of kind NoPropErr inside a method reached through the lonely chain
		return "hh&.np"
	case "DJ": // guards that are true without being the cached true object (decoded from JSON)
		return fmt.Sprintf("defer \"d%d\".p if JSON.dec(`true`)", k)
	case "RJ":
		return fmt.Sprintf("return %d if JSON.dec(`[true]`)[0]", 70+k)
	case "KW": // names that merely begin with a reserved word are variables, not jump statements
		return "defer_total := 5\n  return_early := 6\n  raise_on_fail := 7"
	case "DZ2": // a falsy guard made of a zero that is not the cached 0 and an operator that short-cuts
		return fmt.Sprintf(`defer "d%d".p if (false + false) && true`, k)
	case "DO2": // a truthy guard: the left operand does not decide
		return fmt.Sprintf(`defer "d%d".p if (true - true) || [0]`, k)
	case "RZ2":
		return fmt.Sprintf("return %d if Int.bear.new(0) && true", 70+k)
	case "XN": // raise of something that is not an error ends the body like return does (docs/reference/statements.md)
		return "raise nil"
	case "XG":
		return fmt.Sprintf("raise %d if [0]", 60+k)
	case "CF":
		return "fail()"
	case "CD":
		return "inner()"
	case "DG": // the guard of a defer raises: the body ends there, nothing is registered
		return fmt.Sprintf(`defer "d%d".p if fail()`, k)
	case "RG": // the guard of a return raises
		return fmt.Sprintf("return %d if fail()", 70+k)
	case "CS": // a nested failure of the kind that ends iterations, inside the block of a list chain
		return "[1, 2]@{|e| []._iter.next}"
	case "DX":
		return "defer fail()"
	case "DXT": // a guarded defer (truthy guard) whose deferred expression raises when it runs
		return "defer fail() if true"
	case "DXN":
		return "defer fail() if [1]"
	case "IV": // a source file invited into the scope of the running body (CLI family)
		return "invite!(\"./c15mod\")"
	case "DC": // the deferred expression calls a function that has defers of its own
		return "defer inner()"
	case "Y":
		return fmt.Sprintf("yield %d", 30+k)
	case "YT":
		return fmt.Sprintf("yield %d if true", 30+k)
	case "YF":
		return fmt.Sprintf("yield %d if false", 30+k)
	}
	return "?"
}

type outcome struct {
	out     string
	val     string // repr, "" = don't-care
	errKind string
	errMsg  string
}

// model of one body
func model(stmts []string) outcome {
	var out strings.Builder
	var defers []string // "p:<text>" print, "x" raising
	val := "nil"
	valDC := false
	yielded := ""
	var errK, errM string
	stopped := false
	for i, s := range stmts {
		k := i + 1
		valDC = false
		switch s {
		case "P":
			fmt.Fprintf(&out, "p%d\n", k)
			val = "nil"
		case "V":
			val = fmt.Sprint(90 + k)
		case "D", "DT", "DN":
			defers = append(defers, fmt.Sprintf("d%d", k))
			valDC = true
		case "DF", "DZ":
			val = "nil"
		case "R", "RT":
			val = fmt.Sprint(70 + k)
			stopped = true
		case "RF", "RZ2":
			val = "nil"
		case "LN":
			errK, errM = "NoPropErr", "property `zz_nope` is not defined."
			stopped = true
		case "DJ":
			defers = append(defers, fmt.Sprintf("d%d", k))
			valDC = true
		case "RJ":
			val = fmt.Sprint(70 + k)
			stopped = true
		case "KW":
			val = "7"
		case "DZ2":
			val = "nil"
		case "DO2":
			defers = append(defers, fmt.Sprintf("d%d", k))
			valDC = true
		case "XN":
			val = "nil"
			stopped = true
		case "XG":
			val = fmt.Sprint(60 + k)
			stopped = true
		case "X":
			errK, errM = "Err", fmt.Sprintf("x%d", k)
			stopped = true
		case "CF", "DG", "RG":
			errK, errM = "ValueErr", "nested"
			stopped = true
		case "CS":
			errK, errM = "StopIterErr", "iter stopped"
			stopped = true
		case "CD":
			out.WriteString("ip\nid\n")
			val = "5"
		case "DX", "DXT", "DXN":
			defers = append(defers, "!")
			valDC = true
		case "IV":
			out.WriteString("im\n")
			val = "5"
		case "DC":
			defers = append(defers, "ip\nid")
			valDC = true
		case "Y", "YT", "YN":
			if yielded == "" {
				yielded = fmt.Sprint(30 + k)
			}
			val = "?"
			valDC = true
		case "YF":
			errK, errM = "StopIterErr", "iter stopped"
			stopped = true
		}
		if stopped {
			break
		}
	}
	if !stopped && yielded != "" {
		val = yielded
		valDC = false
	} else if stopped && errK == "" {
		valDC = false
	}
	for _, d := range defers {
		if d == "!" {
			errK, errM = "ValueErr", "nested"
			break
		}
		out.WriteString(d + "\n")
	}
	o := outcome{out: out.String(), errKind: errK, errMsg: errM}
	if errK == "" {
		o.val = val
		if valDC {
			o.val = ""
		}
	}
	return o
}

func bodySrc(stmts []string) string {
	parts := make([]string, len(stmts))
	for i, s := range stmts {
		parts[i] = stmtSrc(s, i+1)
	}
	return strings.Join(parts, "\n  ")
}

func (t tcase) src() string {
	b := bodySrc(t.Stmts)
	switch t.Ctx {
	case "call":
		return fmt.Sprintf("f := {||\n  %s\n}\nr := f()\n\"after\".p\nr", b)
	case "nested":
		return fmt.Sprintf("f := {||\n  %s\n}\ng := {||\n  defer \"gd\".p\n  r := f()\n  \"gp\".p\n  r\n}\ng()", b)
	case "try":
		return fmt.Sprintf("f := {||\n  %s\n}\nnil.try.{|x| f()}.A", b)
	case "nested3":
		return fmt.Sprintf("f := {||\n  %s\n}\ng := {||\n  defer \"gd\".p\n  r := f()\n  \"gp\".p\n  r\n}\nh := {||\n  defer \"hd1\".p\n  defer \"hd2\".p\n  r := g()\n  \"hp\".p\n  r\n}\nh()", b)
	case "method":
		return fmt.Sprintf("o := {m: m{\n  %s\n}}\nr := o.m\n\"after\".p\nr", b)
	case "chain-elem":
		return fmt.Sprintf("f := {|e|\n  %s\n}\n[1, 2]@{|e| defer \"cd\".p; f(e)}.len", b)
	case "iter":
		return fmt.Sprintf("it := <{||\n  %s\n}>.new\nit.next", b)
	}
	return "?"
}

func expect(t tcase) outcome {
	m := model(t.Stmts)
	switch t.Ctx {
	case "call":
		if m.errKind == "" {
			m.out += "after\n"
		}
	case "nested":
		if m.errKind == "" {
			m.out += "gp\n"
		}
		m.out += "gd\n"
	case "nested3":
		if m.errKind == "" {
			m.out += "gp\n"
		}
		m.out += "gd\n"
		if m.errKind == "" {
			m.out += "hp\n"
		}
		m.out += "hd1\nhd2\n"
	case "method":
		if m.errKind == "" {
			m.out += "after\n"
		}
	case "chain-elem":
		// the body runs once per element; an error at the first element ends the chain
		one := m.out
		if m.errKind == "" {
			m.out = one + "cd\n" + one + "cd\n"
			m.val = ""
		} else {
			m.out = one + "cd\n"
		}
	case "try":
		if m.errKind == "" {
			if m.val != "" {
				m.val = "[" + m.val + ", nil]"
			}
		} else {
			m.val = fmt.Sprintf("[nil, [%s: %s]]", m.errKind, m.errMsg)
			m.errKind, m.errMsg = "", ""
		}
	}
	return m
}

func nontrivial(t tcase) bool {
	hasDefer, hasExit := false, false
	for _, s := range t.Stmts {
		switch s {
		case "D", "DT", "DF", "DX", "DN", "DZ", "DC":
			hasDefer = true
		case "R", "RT", "X", "CF", "YF":
			hasExit = true
		}
	}
	return hasDefer && (hasExit || t.Ctx != "call")
}

func findingKey(t tcase, want outcome, o panrun.Obs) string {
	last := t.Stmts[len(t.Stmts)-1]
	lastDefer := last == "D" || last == "DT" || last == "DX" || last == "DN" || last == "DC"
	class := "trace"
	if o.Out == want.out {
		class = "outcome"
	}
	if lastDefer {
		return t.Ctx + "/" + class + "/body-ends-with-defer"
	}
	for _, s := range t.Stmts {
		if s == "DX" {
			return t.Ctx + "/" + class + "/raising-deferred-expression"
		}
	}
	for _, s := range t.Stmts {
		if s == "DN" || s == "DZ" || s == "YN" {
			return t.Ctx + "/" + class + "/non-bool-guard"
		}
	}
	return t.Ctx + "/" + class
}

func judge(c *core.Ctx, t tcase, o panrun.Obs) {
	if nontrivial(t) {
		c.Nontrivial(1)
	}
	c.Validated(1)
	want := expect(t)
	if o.Kind == "syntax" {
		c.HarnessError("generated body does not parse: %s: %s", t.src(), o.ErrMsg)
		return
	}
	c.Outcome(t.Ctx + ":" + o.Kind + ":" + o.ErrKind)
	ok := o.Out == want.out
	if ok {
		if want.errKind != "" {
			ok = o.Kind == "error" && o.ErrKind == want.errKind && o.ErrMsg == want.errMsg
		} else if want.val != "" {
			ok = o.Kind == "value" && o.Repr == want.val
		} else {
			ok = o.Kind == "value"
		}
	}
	if ok {
		return
	}
	exp := fmt.Sprintf("out=%q ", want.out)
	if want.errKind != "" {
		exp += want.errKind + ": " + want.errMsg
	} else if want.val != "" {
		exp += "value " + want.val
	} else {
		exp += "any value"
	}
	c.Violation(core.Violation{Key: findingKey(t, want, o), Case: core.JSON(t), Desc: strings.Join(t.Stmts, ";") + " [" + t.Ctx + "]", Expected: exp,
		Observed: fmt.Sprintf("out=%q %s", o.Out, o.Short()), Repro: prelude + "zz := {||\n" + t.src() + "\n}\nzz().p\n"})
}

func gen(c *core.Ctx, emit func(tcase)) {
	var rec func(alpha []string, max int, cur []string, ctxs []string)
	rec = func(alpha []string, max int, cur []string, ctxs []string) {
		if len(cur) > 0 {
			for _, cx := range ctxs {
				emit(tcase{Stmts: append([]string{}, cur...), Ctx: cx})
			}
		}
		if len(cur) == max {
			return
		}
		for _, a := range alpha {
			rec(alpha, max, append(cur, a), ctxs)
		}
	}
	fn := []string{"call", "nested", "try", "nested3", "method", "chain-elem"}
	// a second, small alphabet: keyword-prefixed variable names and guards whose truth needs the full rule
	rec([]string{"P", "D", "R", "X", "KW", "DZ2", "DO2", "RZ2", "LN", "DJ", "RJ"}, c.Pick(3, 4), nil, fn)
	// a third small alphabet: guarded defers whose deferred expression raises
	rec([]string{"P", "D", "DXT", "DXN", "R", "X", "DF"}, c.Pick(3, 4), nil, fn)
	if c.Thorough() {
		rec(alphabet, 5, nil, fn)
		rec(iterAlphabet, 5, nil, []string{"iter"})
	} else {
		rec(alphabet, 4, nil, fn)
		rec(iterAlphabet, 4, nil, []string{"iter"})
	}
	if true {
		// length-5 bodies over the reduced alphabet (only those, shorter ones are covered above)
		var rec5 func(cur []string)
		rec5 = func(cur []string) {
			if len(cur) == 5 {
				for _, cx := range fn {
					emit(tcase{Stmts: append([]string{}, cur...), Ctx: cx})
				}
				return
			}
			for _, a := range reduced {
				rec5(append(cur, a))
			}
		}
		rec5(nil)
	}
}

// ---------------------------------------------------------------- one function literal called several times

// The same function value takes a different way out on every call (its parameters decide which defers are reached and
// how the body ends): what an earlier call did must not matter. Statement kinds: print, defer, defer guarded by a,
// return guarded by b, raise guarded by b, failing nested call guarded by b; every body ends with the value 99.
var againKinds = []string{"P", "D", "DA", "RB", "XB", "CB"}

func againStmt(kind string, k int) string {
	switch kind {
	case "P":
		return fmt.Sprintf(`"p%d".p`, k)
	case "D":
		return fmt.Sprintf(`defer "d%d".p`, k)
	case "DA":
		return fmt.Sprintf(`defer "d%d".p if a == 1`, k)
	case "RB":
		return fmt.Sprintf(`return %d if b == 1`, k)
	case "XB":
		return fmt.Sprintf(`raise ValueErr.new("e%d") if b == 2`, k)
	case "CB":
		return `fail() if b == 3`
	}
	return "?"
}

type againCase struct {
	Stmts []string `json:"stmts"`
	Calls [][2]int `json:"calls"`
	Form  string   `json:"form"`
}

func (t againCase) src() string {
	parts := make([]string, len(t.Stmts))
	for i, st := range t.Stmts {
		parts[i] = againStmt(st, i+1)
	}
	body := strings.Join(parts, "\n  ") + "\n  99"
	var calls []string
	for _, cl := range t.Calls {
		switch t.Form {
		case "method":
			calls = append(calls, fmt.Sprintf("nil.try.{|u| o.f(%d, %d)}.A", cl[0], cl[1]))
		default:
			calls = append(calls, fmt.Sprintf("nil.try.{|u| f(%d, %d)}.A", cl[0], cl[1]))
		}
	}
	def := "f := {|a, b|\n  " + body + "\n}\n"
	if t.Form == "method" {
		def = "o := {f: m{|a, b|\n  " + body + "\n}}\n"
	}
	return def + "[" + strings.Join(calls, ", \"|\".p, ") + "]"
}

func (t againCase) want() (out, res string) {
	var parts []string
	for ci, cl := range t.Calls {
		a, b := cl[0], cl[1]
		var defers []string
		r := "[99, nil]"
	body:
		for i, st := range t.Stmts {
			k := i + 1
			switch st {
			case "P":
				out += fmt.Sprintf("p%d\n", k)
			case "D":
				defers = append(defers, fmt.Sprintf("d%d\n", k))
			case "DA":
				if a == 1 {
					defers = append(defers, fmt.Sprintf("d%d\n", k))
				}
			case "RB":
				if b == 1 {
					r = fmt.Sprintf("[%d, nil]", k)
					break body
				}
			case "XB":
				if b == 2 {
					r = fmt.Sprintf("[nil, [ValueErr: e%d]]", k)
					break body
				}
			case "CB":
				if b == 3 {
					r = "[nil, [ValueErr: nested]]"
					break body
				}
			}
		}
		out += strings.Join(defers, "")
		parts = append(parts, r)
		if ci < len(t.Calls)-1 {
			out += "|\n"
			parts = append(parts, "nil")
		}
	}
	return out, "[" + strings.Join(parts, ", ") + "]"
}

func runAgain(c *core.Ctx) {
	var tuples [][2]int
	for a := 0; a <= 1; a++ {
		for b := 0; b <= 3; b++ {
			tuples = append(tuples, [2]int{a, b})
		}
	}
	depth := c.Pick(2, 3)
	n := 0
	total := tk.Batched(c, 800, prelude, func(emit func(againCase)) {
		var bodies [][]string
		var rec func(cur []string)
		rec = func(cur []string) {
			if len(cur) > 0 {
				bodies = append(bodies, append([]string{}, cur...))
			}
			if len(cur) == 3 {
				return
			}
			for _, k := range againKinds {
				rec(append(cur, k))
			}
		}
		rec(nil)
		for _, b := range bodies {
			hasDefer := false
			for _, st := range b {
				if st == "D" || st == "DA" {
					hasDefer = true
				}
			}
			if !hasDefer {
				continue
			}
			var seq func(cur [][2]int)
			seq = func(cur [][2]int) {
				if len(cur) >= 2 {
					for _, form := range []string{"func", "method"} {
						if form == "method" && len(cur) > 2 {
							continue
						}
						emit(againCase{Stmts: b, Calls: append([][2]int{}, cur...), Form: form})
					}
				}
				if len(cur) == depth {
					return
				}
				for _, tu := range tuples {
					seq(append(cur, tu))
				}
			}
			seq(nil)
		}
	}, func(t againCase) string { return t.src() }, func(t againCase, o panrun.Obs) {
		n++
		if n%4000 == 1 {
			c.Sample(map[string]interface{}{"family": "called-again", "body": t.Stmts, "calls": t.Calls, "source": t.src()})
		}
		c.Nontrivial(1)
		c.Validated(1)
		if o.Kind == "syntax" {
			c.HarnessError("generated program does not parse: %s: %s", t.src(), o.ErrMsg)
			return
		}
		wantOut, wantRes := t.want()
		ok := o.Kind == "value" && o.Out == wantOut && o.Repr == wantRes
		c.Outcome("again:" + map[bool]string{true: "ok", false: "differs"}[ok])
		if !ok {
			class := "trace"
			if o.Out == wantOut {
				class = "outcome"
			}
			c.Violation(core.Violation{Key: "called-again/" + t.Form + "/" + class, Case: core.JSON(t), Desc: strings.Join(t.Stmts, ";") + fmt.Sprint(t.Calls), Expected: fmt.Sprintf("out=%q %s", wantOut, wantRes),
				Observed: fmt.Sprintf("out=%q %s", o.Out, o.Short()), Repro: prelude + t.src() + ".p\n"})
		}
	})
	c.Note("called_again_cases", total)
}

// A body that reaches defers and then invites a source file into its own scope (the invited statements run in the body's
// scope): the defers of the body still run once, when the BODY is left. Every body of <=3 statements over {print, defer,
// invite!, return, raise} that holds a defer and an invite!, run as a script file by the real binary.
func runInvite(c *core.Ctx) {
	cli := os.Getenv("PANMC_CLI")
	if cli == "" {
		c.HarnessError("PANMC_CLI is not set")
		return
	}
	var bodies [][]string
	var rec func(cur []string)
	rec = func(cur []string) {
		hasD, hasI := false, false
		for _, k := range cur {
			hasD = hasD || k == "D"
			hasI = hasI || k == "IV"
		}
		if hasD && hasI {
			bodies = append(bodies, append([]string{}, cur...))
		}
		if len(cur) == 3 {
			return
		}
		for _, k := range []string{"P", "D", "IV", "R", "X"} {
			rec(append(cur, k))
		}
	}
	rec(nil)
	tk.Sharded(c, len(bodies), func(i int) {
		stmts := append(append([]string{}, bodies[i]...), "V")
		c.Eval(1)
		c.Validated(1)
		c.Nontrivial(1)
		dir, err := os.MkdirTemp(os.Getenv("PANMC_SCRATCH"), "c15inv")
		if err != nil {
			c.HarnessError("%v", err)
			return
		}
		defer os.RemoveAll(dir)
		os.WriteFile(filepath.Join(dir, "c15mod.pangaea"), []byte("\"im\".p\nhelper := 5\n"), 0o644)
		src := "f := {||\n  " + bodySrc(stmts) + "\n}\nr := nil.try.{|u| f()}.A\n\"after\".p\nr.p\n"
		os.WriteFile(filepath.Join(dir, "main.pangaea"), []byte(src), 0o644)
		cmd := exec.Command("timeout", "60", cli, "main.pangaea")
		cmd.Dir = dir
		outb, rerr := cmd.Output()
		if ee, isExit := rerr.(*exec.ExitError); isExit && ee.ExitCode() == 124 {
			c.Incomplete("invite family: the binary did not finish within 60 s (machine overloaded?)") // never an oracle
			return
		}
		m := model(stmts)
		res := "[" + m.val + ", nil]"
		if m.errKind != "" {
			res = "[nil, [" + m.errKind + ": " + m.errMsg + "]]"
		}
		want := m.out + "after\n" + res + "\n"
		c.Outcome("invite:" + map[bool]string{true: "ok", false: "differs"}[string(outb) == want])
		if string(outb) != want {
			c.Violation(core.Violation{Key: "invite-inside-a-body-with-defers", Case: core.JSON(tcase{Stmts: stmts, Ctx: "invite"}), Desc: strings.Join(stmts, ";") + " [script file]", Expected: fmt.Sprintf("%q", want), Observed: fmt.Sprintf("%q", string(outb))})
		}
	})
}

func run(c *core.Ctx) {
	runInvite(c)
	runAgain(c)
	n := 0
	total := tk.Batched(c, 800, prelude, func(emit func(tcase)) { gen(c, emit) }, func(t tcase) string { return t.src() }, func(t tcase, o panrun.Obs) {
		n++
		if n%700 == 1 {
			c.Sample(map[string]interface{}{"body": t.Stmts, "context": t.Ctx, "source": t.src(), "model": fmt.Sprintf("%+v", expect(t))})
		}
		judge(c, t, o)
	})
	c.Note("cases_total", total)
}

func replay(c *core.Ctx, raw json.RawMessage) {
	var ag againCase
	if err := json.Unmarshal(raw, &ag); err == nil && len(ag.Calls) > 0 {
		runAgain(c)
		return
	}
	var t tcase
	if json.Unmarshal(raw, &t) == nil && t.Ctx == "invite" {
		runInvite(c)
		return
	}
	if err := json.Unmarshal(raw, &t); err != nil {
		c.HarnessError("bad case: %v", err)
		return
	}
	obs := c.R().Thunks(prelude, []string{t.src()}, "")
	c.Eval(1)
	judge(c, t, obs[0])
}
