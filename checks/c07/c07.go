// Package c07: raised errors stop evaluation and reach the nearest handler (property C07).
// Fault enumeration: a raise is injected at every slot of every construct (and at every slot of a
// construct nested in every slot of another), in 6 handler contexts.
package c07

import (
	"encoding/json"
	"fmt"
	"github.com/Syuparn/pangaea/runscript"
	"os"
	"os/exec"
	"path/filepath"
	"regexp"
	"sort"
	"strings"

	"github.com/Syuparn/pangaea/object"

	"panmc/internal/core"
	"panmc/internal/panrun"
	"panmc/internal/tk"
)

func init() {
	core.Register(&core.Check{
		ID:    "C07",
		Level: "fault_enumeration",
		Rule: "a raise (explicit ValueErr through a nested call, a natural ZeroDivisionErr, a natural StopIterErr outside iterator bodies, the NameErr of an undefined name and the NoPropErr of an absent property) is injected at every evaluation slot of every construct (array/object/map literal incl. unpacking, range bounds, call callee/arguments/keyword/unpack/trailing function, receiver, chain argument, " +
			"infix/prefix operands, if/else parts, guarded jumps, assignment, embedded string pieces, index expressions, keyword defaults, parameter expressions, _incBy/<=> hooks of an iterated range, the first step of an iterator consumed by each of 33 native Iterable methods, element k of n in the 9 non-thoughtful chain context x 3 call forms), " +
			"single level and nested two levels, in 6 contexts (top-level program, function body with pending defer, try step, thoughtful scalar chain, list-chain element, deferred expression); " +
			"every error prototype of the root scope raised explicitly (kind and message reach try/catch through a nested call and a defer); callbacks: every property reachable from 10 kinds of receivers (Either values excluded: a call on them is an Either step, C13's subject) (names discovered at run time) is handed a raising callback in 5 call forms, plus the predicate forms ===, !==, case, asFor?: whenever the callback ran, its error comes out; " +
			"uncaught errors through the real command-line binary (script file, -e one-liner) for 5 error kinds x 14 messages (with %, quotes, backslashes, non-ASCII, empty): stdout stops at the raise, exit status non-zero, first stderr line is kind and message; " +
			"oracle: nothing but pending-defer output after the marker, no assignment, injected kind+message reaches the handler/top, no error object stored inside a value; " +
			"non-trivial = every case (each has exactly one injected fault); distinct = distinct (construct, slot, inner construct, inner slot, context, fault kind); round 8: Every expression construct is also evaluated three times inside one function with its slot failing on the first and third evaluation only; 14 programs spread over several files run by the binary (a failing or unparsable file imported / invited twice under three handlers, `pangaea test` trees with the failing file in every position).",
		Assumptions: []string{
			"errors raised inside hooks the interpreter calls itself (B, S, ==) are outside the property and not injected",
			"the order in which slots before the fault are evaluated is C08's subject and is not judged here",
		},
		Run:    run,
		Replay: replay,
	})
}

const prelude = `t := {|k, v| ("t" + k.S).p; v}
bm := {|k| "m".p; raise ValueErr.new("boom" + k.S)}
nb := {|k| "m".p; 1 / 0}
si := {|k| "m".p; []._iter.next}
un := {|k| "m".p; zz_c07_undefined}
np := {|k| "m".p; nil.zz_c07_nope}
ff := {|a, b, k: 0, j: 0| [a, b, k, j]}
id := {|x| x}
cf := {|a, f| f(a)}
oo := {m: m{|a, b| [a, b]}}
x0 := 1
`

type construct struct {
	Name  string
	Tmpl  string   // §0, §1 ... are slots
	Slots []string // default value expression per slot
	Stmt  bool     // template is a statement list (cannot be nested as an expression)
	Fn    bool     // must be wrapped in a function body (jump statements)
}

var constructs = []construct{
	{Name: "arr", Tmpl: "[§0, §1, §2]", Slots: []string{"1", "2", "3"}},
	{Name: "arr-unpack", Tmpl: "[§0, *§1, §2]", Slots: []string{"1", "[7, 8]", "3"}},
	{Name: "obj-value", Tmpl: "{a: §0, b: §1}", Slots: []string{"1", "2"}},
	{Name: "obj-key", Tmpl: "{§0: 1, §1: 2}", Slots: []string{`"ka"`, `"kb"`}},
	{Name: "obj-embed", Tmpl: "{a: §0, **§1, **§2}", Slots: []string{"1", "{c: 1}", "{d: 2}"}},
	{Name: "map-pairs", Tmpl: "%{§0: §1, §2: §3}", Slots: []string{`"k1"`, "1", "[2]", "2"}},
	{Name: "map-embed", Tmpl: "%{1: §0, **§1, **§2}", Slots: []string{"1", "%{2: 2}", "{d: 2}"}},
	{Name: "range", Tmpl: "(§0:§1:§2)", Slots: []string{"1", "5", "1"}},
	{Name: "range-2", Tmpl: "(§0:§1)", Slots: []string{"1", "5"}},
	{Name: "call-args", Tmpl: "ff(§0, §1)", Slots: []string{"1", "2"}},
	{Name: "call-kwargs", Tmpl: "ff(§0, k: §1, §2, j: §3)", Slots: []string{"1", "2", "3", "4"}},
	{Name: "call-unpack", Tmpl: "ff(*§0, **§1)", Slots: []string{"[1, 2]", "{k: 3}"}},
	{Name: "call-callee", Tmpl: "§0(§1)", Slots: []string{"id", "1"}},
	// keyword arguments continued on a line that starts further left than the first keyword (hanging indent)
	{Name: "call-kwargs-hanging-indent", Tmpl: "ff(1, 2,                k: §0,\n  j: §1)", Slots: []string{"1", "2"}},
	{Name: "kwarg-defaults-hanging-indent", Tmpl: "{|a,                 k: §0,\n  j: §1| a}", Slots: []string{"1", "2"}},
	{Name: "obj-pairs-hanging-indent", Tmpl: "{                   a: §0,\n  b: §1,\n c: §2}", Slots: []string{"1", "2", "3"}},
	{Name: "call-trailing-func", Tmpl: "cf(§0) {|y| §1}", Slots: []string{"1", "2"}},
	{Name: "propcall", Tmpl: "§0.m(§1, k: §2)", Slots: []string{"oo", "1", "2"}},
	{Name: "propcall-chainarg-list", Tmpl: "§0@(§1){|e| e}", Slots: []string{"[[1, 2]]", "%{}"}},
	{Name: "propcall-chainarg-reduce", Tmpl: "§0$(§1)+(§2)", Slots: []string{"[1, 2]", "0", "1"}},
	{Name: "literalcall-recv", Tmpl: "§0.{|v| v}", Slots: []string{"1"}},
	{Name: "varcall-recv", Tmpl: "§0.^id", Slots: []string{"1"}},
	{Name: "infix", Tmpl: "§0 + §1", Slots: []string{"1", "2"}},
	{Name: "infix-cmp", Tmpl: "§0 == §1", Slots: []string{"1", "2"}},
	{Name: "and", Tmpl: "§0 && §1", Slots: []string{"true", "2"}},
	{Name: "or", Tmpl: "§0 || §1", Slots: []string{"false", "2"}},
	{Name: "prefix-minus", Tmpl: "-§0", Slots: []string{"x0"}},
	{Name: "prefix-not", Tmpl: "!§0", Slots: []string{"x0"}},
	{Name: "if-then", Tmpl: "§1 if §0 else 9", Slots: []string{"true", "1"}},
	{Name: "if-else", Tmpl: "9 if §0 else §1", Slots: []string{"false", "1"}},
	{Name: "if-no-else", Tmpl: "§1 if §0", Slots: []string{"true", "1"}},
	{Name: "assign", Tmpl: "(y := §0)", Slots: []string{"1"}},
	{Name: "compound-assign", Tmpl: "(x0 += §0)", Slots: []string{"1"}},
	{Name: "right-assign", Tmpl: "(§0 => y)", Slots: []string{"1"}},
	{Name: "embedded-str", Tmpl: `"a#{§0}b#{§1}c#{§2}d"`, Slots: []string{"1", "2", "3"}},
	{Name: "index", Tmpl: "§0[§1]", Slots: []string{"[1, 2, 3]", "1"}},
	{Name: "index-range", Tmpl: "§0[§1:§2]", Slots: []string{"[1, 2, 3]", "0", "2"}},
	{Name: "kwarg-default", Tmpl: "{|a, k: §0| a}", Slots: []string{"1"}},
	// duplicated names/keys: the later occurrence loses, but its expression is still evaluated
	{Name: "call-duplicate-kwarg", Tmpl: "ff(§0, k: §1, k: §2, k: §3)", Slots: []string{"1", "2", "3", "4"}},
	{Name: "propcall-duplicate-kwarg", Tmpl: "oo.m(§0, k: §1, k: §2)", Slots: []string{"1", "2", "3"}},
	{Name: "obj-duplicate-name", Tmpl: "{a: §0, a: §1, b: §2, a: §3}", Slots: []string{"1", "2", "3", "4"}},
	{Name: "map-duplicate-key", Tmpl: "%{1: §0, 1: §1, [2]: §2, [2]: §3}", Slots: []string{"1", "2", "3", "4"}},
	{Name: "kwarg-default-duplicate", Tmpl: "{|a, k: §0, k: §1| a}", Slots: []string{"1", "2"}},
	{Name: "obj-embed-duplicate", Tmpl: "{a: §0, **§1, **§2}", Slots: []string{"1", "{a: 2}", "{a: 3}"}},
	{Name: "call-unpack-duplicate", Tmpl: "ff(k: §0, **§1, **§2)", Slots: []string{"1", "{k: 2}", "{k: 3, j: 4}"}},
	// statement lists: a raise after an earlier yield / defer / plain statement in the same body
	{Name: "stmt-list", Tmpl: "{|| §0; §1; §2}()", Slots: []string{"1", "2", "3"}},
	{Name: "stmt-list-after-yield", Tmpl: "{|| yield 5; §0; §1}()", Slots: []string{"1", "2"}},
	{Name: "iter-body-after-yield", Tmpl: "<{|| yield 5; §0; §1}>.new.next", Slots: []string{"1", "2"}},
	{Name: "iter-body-before-yield", Tmpl: "<{|| §0; yield §1; §2}>.new.next", Slots: []string{"1", "2", "3"}},
	{Name: "stmt-list-after-defer", Tmpl: "{|| defer 1; §0; §1}()", Slots: []string{"1", "2"}},
	{Name: "method-body", Tmpl: "{m: m{§0; §1}}.m", Slots: []string{"1", "2"}},
	{Name: "iter-chain-body-after-yield", Tmpl: "<{|i| yield i if i < 2; §0; recur(i + 1)}>.new(0).A", Slots: []string{"1"}},
	{Name: "native-predicate", Tmpl: "[1, 2, 3].select {|v| §0}", Slots: []string{"true"}},
	{Name: "native-iter-predicate", Tmpl: "(1:4).doWhile {|v| §0}.A", Slots: []string{"true"}},
	// parameter positions hold arbitrary expressions (pattern parameters); hooks called while a range is iterated
	{Name: "param-expression", Tmpl: "{|§0, §1| 5}", Slots: []string{"1", "2"}},
	{Name: "range-incby-hook", Tmpl: "({v: 1, _incBy: m{|n| §0}, '<=>: m{|o| -1}}:5).A", Slots: []string{"1"}},
	{Name: "range-spaceship-hook", Tmpl: "({v: 1, _incBy: m{|n| self}, '<=>: m{|o| §0}}:5).A", Slots: []string{"1"}},
	{Name: "arr-nested-call", Tmpl: "[id(§0), id(id(§1))]", Slots: []string{"1", "2"}},
	{Name: "guarded-return", Tmpl: "return §1 if §0", Slots: []string{"true", "1"}, Stmt: true, Fn: true},
	{Name: "return", Tmpl: "return §0", Slots: []string{"1"}, Stmt: true, Fn: true},
	{Name: "guarded-raise", Tmpl: "raise §1 if §0", Slots: []string{"false", "1"}, Stmt: true, Fn: true},
	{Name: "guarded-raise-taken", Tmpl: "raise §1 if §0", Slots: []string{"true", "ValueErr.new(\"r\")"}, Stmt: true, Fn: true},
	{Name: "guarded-defer-cond", Tmpl: "defer 1 if §0", Slots: []string{"true"}, Stmt: true, Fn: true},
	{Name: "guarded-yield", Tmpl: "yield §1 if §0", Slots: []string{"true", "1"}, Stmt: true, Fn: true},
}

// chain element constructs: the fault hits element 2 of 3; elements print e1/e2/e3 when visited.
var chainMains = []string{".", "@", "$"}
var chainAdds = []string{"", "&", "="}

func chainConstructs() []construct {
	var cs []construct
	for _, main := range chainMains {
		for _, add := range chainAdds {
			ch := add + main
			name := "chain" + ch
			switch main {
			case ".":
				cs = append(cs,
					construct{Name: name + "/literal", Tmpl: "2" + ch + `{|i| §0}`, Slots: []string{"1"}},
					construct{Name: name + "/variable", Tmpl: "{|| g := {|i| §0}; 2" + ch + "^g}()", Slots: []string{"1"}},
					construct{Name: name + "/property", Tmpl: "{r: m{§0}}" + ch + "r", Slots: []string{"1"}},
				)
			case "@":
				cs = append(cs,
					construct{Name: name + "/literal", Tmpl: "[1, 2, 3]" + ch + `{|i| ("e" + i.S).p; §0 if i == 2 else i}`, Slots: []string{"1"}},
					construct{Name: name + "/variable", Tmpl: `{|| g := {|i| ("e" + i.S).p; §0 if i == 2 else i}; [1, 2, 3]` + ch + "^g}()", Slots: []string{"1"}},
					construct{Name: name + "/property", Tmpl: `[{r: m{"e1".p; 1}}, {r: m{"e2".p; §0}}, {r: m{"e3".p; 3}}]` + ch + "r", Slots: []string{"1"}},
				)
			case "$":
				cs = append(cs,
					construct{Name: name + "/literal", Tmpl: "[1, 2, 3]" + ch + `(0){|acc, i| ("e" + i.S).p; §0 if i == 2 else acc + i}`, Slots: []string{"1"}},
					construct{Name: name + "/variable", Tmpl: `{|| g := {|acc, i| ("e" + i.S).p; §0 if i == 2 else acc + i}; [1, 2, 3]` + ch + "(0)^g}()", Slots: []string{"1"}},
					construct{Name: name + "/property", Tmpl: `[1, 2, 3]` + ch + `({add: m{|i| ("e" + i.S).p; §0 if i == 2 else self}})add`, Slots: []string{"1"}},
				)
			}
		}
	}
	return cs
}

var contexts = []string{"prog", "fn", "try", "thoughtful", "elem", "deferred"}

type tcase struct {
	Outer     int    `json:"outer"`
	OuterName string `json:"outer_name"`
	Slot      int    `json:"slot"`
	Inner     int    `json:"inner"` // -1 = none
	InnerName string `json:"inner_name,omitempty"`
	InnerSlot int    `json:"inner_slot"`
	Ctx       string `json:"ctx"`
	Fault     string `json:"fault"` // bm | nb
}

var all []construct

func init() {
	all = append(append(append(append([]construct{}, constructs...), chainConstructs()...), consumerConstructs()...), continuedChainConstructs()...)
}

// consumerConstructs: every native Iterable method applied to an iterator whose first step raises
// (lazy results are drained with .A): the error of the explicitly called step must come out.
// continuedChainConstructs: chains written on a continuation line, with additional context and chain argument
func continuedChainConstructs() []construct {
	var cs []construct
	for _, ad := range []string{"", "&", "~", "="} {
		if ad == "~" {
			continue // a thoughtful chain is itself a handler
		}
		cs = append(cs,
			construct{Name: "continued-chain-" + ad + "@-chainarg", Tmpl: "[[1, 2]]\n  |" + ad + "@(§0)at(§1)", Slots: []string{"[]", "[0]"}},
			construct{Name: "continued-chain-" + ad + "$-chainarg", Tmpl: "[1, 2]\n  |" + ad + "$(§0)+(§1)", Slots: []string{"0", "1"}},
			construct{Name: "continued-literal-chain-" + ad + "@-chainarg", Tmpl: "[[1, 2]]\n  |" + ad + "@(§0){|x| x}", Slots: []string{"[]"}})
	}
	return cs
}

func consumerConstructs() []construct {
	calls := []string{"A", "avg", "empty?", "first", "last", "max", "min", "std", "sum", "tally", "withI.A",
		"acc({|a, b| b}).A", "all? {|x| true}", "any? {|x| false}", "exclude {|x| false}", "find {|x| false}", "keyBy {|x| x}", "lazyMap({|x| x}).A", "map {|x| x}",
		"reduce({|a, b| b})", "select {|x| true}", "until({|x| false}).A", "while({|x| true}).A", "doUntil({|x| false}).A", "doWhile({|x| true}).A",
		"append(9).A", "prepend(9).A", "chain([9]).A", "chunk(2).A", "index(5)", "indices(5)", "rindex(5)", "zip([1, 2]).A"}
	var cs []construct
	for _, call := range calls {
		name := call
		if i := strings.IndexAny(name, "({ "); i >= 0 {
			name = name[:i]
		}
		cs = append(cs, construct{Name: "native-consumer/" + name, Tmpl: "<{|i| yield §0 if i < 2; recur(i + 1)}>.new(0)." + call, Slots: []string{"1"}})
	}
	return cs
}

func fill(c construct, fills []string) string {
	s := c.Tmpl
	for i := len(fills) - 1; i >= 0; i-- {
		s = strings.ReplaceAll(s, fmt.Sprintf("§%d", i), fills[i])
	}
	return s
}

func faultExpr(kind string, k int) string { return fmt.Sprintf("%s(%d)", kind, k) }

// exprOf renders the construct with the fault at (slot, inner...).
func (t tcase) expr() string {
	oc := all[t.Outer]
	fills := make([]string, len(oc.Slots))
	for i, d := range oc.Slots {
		fills[i] = fmt.Sprintf("t(%d, %s)", i, d)
	}
	if t.Inner < 0 {
		fills[t.Slot] = faultExpr(t.Fault, t.Slot)
	} else {
		ic := all[t.Inner]
		in := make([]string, len(ic.Slots))
		for i, d := range ic.Slots {
			in[i] = fmt.Sprintf("t(%d, %s)", 10+i, d)
		}
		in[t.InnerSlot] = faultExpr(t.Fault, 10+t.InnerSlot)
		fills[t.Slot] = "(" + fill(ic, in) + ")"
	}
	return fill(oc, fills)
}

func (t tcase) faultNo() int {
	if t.Inner < 0 {
		return t.Slot
	}
	return 10 + t.InnerSlot
}

func (t tcase) src() string {
	e := t.expr()
	oc := all[t.Outer]
	if oc.Fn {
		// jump statements live in a function (or iterator) body of their own
		if strings.HasPrefix(oc.Tmpl, "yield") {
			e = "<{||\n" + e + "\n\"afterjump\".p\n}>.new.next"
		} else {
			e = "{||\n" + e + "\n\"afterjump\".p\n}()"
		}
	}
	switch t.Ctx {
	case "prog":
		return "z := " + e + "\n\"after\".p\n"
	case "fn":
		return "f := {||\n defer \"defer\".p\n z := " + e + "\n \"after\".p\n z\n}\nf()"
	case "try":
		return "r := nil.try.{|u| " + e + "}\n\"post\".p\nr.A"
	case "thoughtful":
		return "r := 5~.{|u| " + e + "}\n\"post\".p\nr"
	case "elem":
		return "[1, 2, 3]@{|n| (\"o\" + n.S).p; (" + e + ") if n == 2 else n}"
	case "deferred":
		return "f := {||\n defer (" + e + ")\n \"body\".p\n 1\n}\nf()"
	}
	return "?"
}

func (t tcase) desc() string {
	s := fmt.Sprintf("%s slot %d", t.OuterName, t.Slot)
	if t.Inner >= 0 {
		s += fmt.Sprintf(" <- %s slot %d", t.InnerName, t.InnerSlot)
	}
	return s + " [" + t.Ctx + "," + t.Fault + "]: " + t.expr()
}

func wantErr(t tcase) (string, string) {
	if t.Fault == "nb" {
		return "ZeroDivisionErr", "cannot be divided by 0"
	}
	if t.Fault == "si" {
		return "StopIterErr", "iter stopped"
	}
	if t.Fault == "un" {
		return "NameErr", "name `zz_c07_undefined` is not defined"
	}
	if t.Fault == "np" {
		return "NoPropErr", "property `zz_c07_nope` is not defined."
	}
	return "ValueErr", fmt.Sprintf("boom%d", t.faultNo())
}

// containsErr walks a value for a stored error object.
func containsErr(v object.PanObject, depth int) bool {
	if depth > 6 || v == nil {
		return false
	}
	switch x := v.(type) {
	case *object.PanErr:
		return true
	case *object.PanArr:
		for _, e := range x.Elems {
			if containsErr(e, depth+1) {
				return true
			}
		}
	case *object.PanRange:
		return containsErr(x.Start, depth+1) || containsErr(x.Stop, depth+1) || containsErr(x.Step, depth+1)
	case *object.PanObj:
		if x.Pairs != nil {
			for _, p := range *x.Pairs {
				if containsErr(p.Key, depth+1) || containsErr(p.Value, depth+1) {
					return true
				}
			}
		}
	case *object.PanMap:
		for _, p := range *x.Pairs {
			if containsErr(p.Key, depth+1) || containsErr(p.Value, depth+1) {
				return true
			}
		}
		for _, p := range *x.NonHashablePairs {
			if containsErr(p.Key, depth+1) || containsErr(p.Value, depth+1) {
				return true
			}
		}
	}
	return false
}

// verdict returns the failure class ("" = fine, "-" = fault not reached) with expectation and observation.
func verdict(t tcase, o panrun.Obs, assigned bool) (class, exp, got string) {
	kind, msg := wantErr(t)
	idx := strings.Index(o.Out, "m\n")
	if idx < 0 {
		return "-", "", ""
	}
	after := o.Out[idx+2:]
	allowed := ""
	errExpected := true
	wantVal := ""
	switch t.Ctx {
	case "fn":
		allowed = "defer\n"
	case "try":
		allowed = "post\n"
		errExpected = false
		wantVal = fmt.Sprintf("[nil, [%s: %s]]", kind, msg)
	case "thoughtful":
		allowed = "post\n"
		errExpected = false
		wantVal = "5"
	}
	if o.Kind == "panic" || o.Kind == "discard" {
		return "host-panic", "a Pangaea error", o.Short()
	}
	if after != allowed {
		return "continued-after-raise", fmt.Sprintf("output after the marker: %q", allowed), fmt.Sprintf("%q (result %s)", after, o.Short())
	}
	if errExpected {
		if o.Kind == "value" {
			class := "error-dropped"
			if containsErr(o.Val, 0) {
				class = "error-embedded-in-value"
			}
			return class, kind + ": " + msg, "value " + o.Repr
		}
		if o.ErrKind != kind || o.ErrMsg != msg {
			return "wrong-error", kind + ": " + msg, o.Short()
		}
	} else if o.Kind != "value" || o.Repr != wantVal {
		class := "handler-got-wrong-outcome"
		if o.Kind == "value" && containsErr(o.Val, 0) && t.Ctx != "try" {
			class = "error-embedded-in-value"
		}
		return class, wantVal, o.Short()
	}
	if assigned {
		return "assigned-despite-raise", "variable z not assigned", "z is defined"
	}
	return "", "", ""
}

// leaky holds the single-level sites (construct/slot) that fail on their own; a nested case whose
// inner site is leaky is attributed to that site, otherwise to the outer slot.
var leaky = map[string]bool{}

func siteOf(name string, slot int) string { return fmt.Sprintf("%s/slot%d", name, slot) }

func judge(c *core.Ctx, t tcase, o panrun.Obs, assigned bool) {
	c.Nontrivial(1)
	c.Validated(1)
	if o.Kind == "syntax" {
		c.HarnessError("generated program does not parse: %s\n%s", t.src(), o.ErrMsg)
		return
	}
	class, exp, got := verdict(t, o, assigned)
	if class == "-" {
		c.Outcome(t.Ctx + ":fault-not-reached")
		c.Counter("fault_not_reached", 1)
		if t.Inner < 0 {
			c.Counter("fault_not_reached@"+siteOf(t.OuterName, t.Slot), 1)
		}
		return
	}
	c.Outcome(t.Ctx + ":" + o.Kind)
	if class == "" {
		return
	}
	site := siteOf(t.OuterName, t.Slot)
	if t.Inner >= 0 {
		if in := siteOf(t.InnerName, t.InnerSlot); leaky[in] {
			site = in
		} else {
			site += "/nested"
		}
	}
	c.Violation(core.Violation{Key: site + "/" + class, Case: core.JSON(t), Desc: t.desc(), Expected: exp, Observed: got,
		Repro: prelude + "zz := {||\n" + t.src() + "\n}\nzz().p\n"})
}

// findLeaky runs every single-level case of the thunk contexts quietly (not counted) to learn
// which sites fail on their own.
func findLeaky(c *core.Ctx) {
	var cases []tcase
	for oi, oc := range all {
		for s := range oc.Slots {
			for _, ctx := range []string{"fn", "try"} {
				cases = append(cases, tcase{Outer: oi, OuterName: oc.Name, Slot: s, Inner: -1, Ctx: ctx, Fault: "bm"})
			}
		}
	}
	bodies := make([]string, len(cases))
	for i, t := range cases {
		bodies[i] = t.src()
	}
	obs := c.R().Thunks(prelude, bodies, "")
	for i, t := range cases {
		if cl, _, _ := verdict(t, obs[i], false); cl != "" && cl != "-" {
			leaky[siteOf(t.OuterName, t.Slot)] = true
		}
	}
}

// deep (thorough tier): nested cases also with the natural fault
var deep bool

func gen(thorough bool, emit func(tcase)) {
	for oi, oc := range all {
		for s := range oc.Slots {
			for _, ctx := range contexts {
				for _, fk := range []string{"bm", "nb"} {
					if fk == "nb" && ctx != "prog" && ctx != "try" && !thorough {
						continue
					}
					emit(tcase{Outer: oi, OuterName: oc.Name, Slot: s, Inner: -1, Ctx: ctx, Fault: fk})
				}
				// the error kind the interpreter itself uses to end iteration, raised by an ordinary step:
				// it is an error like any other wherever the step is not the body of an iterator
				if !inIterBody(oc) {
					emit(tcase{Outer: oi, OuterName: oc.Name, Slot: s, Inner: -1, Ctx: ctx, Fault: "si"})
				}
				// the errors of an undefined name and of an absent property (the kinds some constructs treat as "nothing there")
				if ctx == "prog" || ctx == "try" || thorough {
					emit(tcase{Outer: oi, OuterName: oc.Name, Slot: s, Inner: -1, Ctx: ctx, Fault: "un"})
					emit(tcase{Outer: oi, OuterName: oc.Name, Slot: s, Inner: -1, Ctx: ctx, Fault: "np"})
				}
			}
		}
	}
	// two-level nesting
	for oi, oc := range all {
		for s := range oc.Slots {
			if !nestable(oc, s) {
				continue
			}
			for ii, ic := range all {
				if ic.Stmt || ic.Fn {
					continue
				}
				slots := []int{0, len(ic.Slots) - 1}
				if thorough {
					slots = slots[:0]
					for k := range ic.Slots {
						slots = append(slots, k)
					}
				}
				seen := map[int]bool{}
				for _, is := range slots {
					if seen[is] {
						continue
					}
					seen[is] = true
					ctxs := []string{"fn", "try"}
					if thorough {
						ctxs = contexts
					}
					for _, ctx := range ctxs {
						if oc.Name == "embedded-str" && strings.ContainsAny(fill(ic, ic.Slots), "}\"") {
							continue // `}` and quotes cannot be written inside #{...} (lexer restriction, not this property)
						}
						if deep && (ctx == "fn" || ctx == "try") {
							emit(tcase{Outer: oi, OuterName: oc.Name, Slot: s, Inner: ii, InnerName: ic.Name, InnerSlot: is, Ctx: ctx, Fault: "nb"})
						}
						tc := tcase{Outer: oi, OuterName: oc.Name, Slot: s, Inner: ii, InnerName: ic.Name, InnerSlot: is, Ctx: ctx, Fault: "bm"}
						emit(tc)
					}
				}
			}
		}
	}
}

// inIterBody: constructs whose slots are evaluated inside an iterator body (written, native select/doWhile, or the
// _incBy / <=> hooks that make up the next step of a range iterator),
// where raising StopIterErr is how an iterator says it is exhausted.
func inIterBody(oc construct) bool {
	return strings.HasPrefix(oc.Name, "iter-") || strings.HasPrefix(oc.Name, "native-") || strings.HasSuffix(oc.Name, "-hook") || oc.Name == "guarded-yield" || oc.Name == "stmt-list-after-yield"
}

// nestable: slots whose value may be an arbitrary expression without changing what the outer
// construct then does with it (the fault hits before the outer construct uses the value).
func nestable(oc construct, slot int) bool {
	return !strings.HasPrefix(oc.Name, "chain")
}

// ---------------------------------------------------------------- one construct evaluated again, failing only sometimes

// The construct is written once inside a function; the slot raises on the first and third evaluation and yields
// its ordinary value on the second: every evaluation reports what happens in THAT evaluation (an error or a
// result remembered per syntax node would show here).
type againCase struct {
	Mode  string `json:"mode"` // "again"
	Outer int    `json:"outer"`
	Name  string `json:"name"`
	Slot  int    `json:"slot"`
}

func (a againCase) src() string {
	oc := all[a.Outer]
	fills := make([]string, len(oc.Slots))
	base := make([]string, len(oc.Slots))
	for i, d := range oc.Slots {
		fills[i], base[i] = d, d
	}
	fills[a.Slot] = fmt.Sprintf("sometimes(k, %d, %s)", a.Slot, oc.Slots[a.Slot])
	return "sometimes := {|k, n, d| raise ValueErr.new(\"boom\" + n.S) if k; d}\nf := {|k| " + fill(oc, fills) + "}\n" +
		"[nil.try.{|u| f(true)}.A, nil.try.{|u| f(false)}.err.S, nil.try.{|u| f(true)}.A, nil.try.{|u| " + fill(oc, base) + "}.err.S]"
}

func judgeAgain(c *core.Ctx, a againCase, o panrun.Obs) {
	c.Validated(1)
	c.Nontrivial(1)
	if o.Kind == "syntax" {
		c.HarnessError("again program does not parse: %s: %s", a.src(), o.ErrMsg)
		return
	}
	arr, ok := o.Val.(*object.PanArr)
	if o.Kind != "value" || !ok || len(arr.Elems) != 4 {
		c.Outcome("again:" + o.Kind)
		c.Violation(core.Violation{Key: "evaluated-again/" + a.Name + "/no-result", Case: core.JSON(a), Desc: strings.ReplaceAll(a.src(), "\n", "; "), Expected: "four observations", Observed: o.Short(), Repro: prelude + a.src() + ".p\n"})
		return
	}
	wantErr := fmt.Sprintf("[nil, [ValueErr: boom%d]]", a.Slot)
	got := []string{arr.Elems[0].Repr(), arr.Elems[1].Repr(), arr.Elems[2].Repr(), arr.Elems[3].Repr()}
	good := got[0] == wantErr && got[2] == wantErr && got[1] == got[3]
	c.Outcome(fmt.Sprintf("again:%v", good))
	if !good {
		c.Violation(core.Violation{Key: "evaluated-again/" + a.Name, Case: core.JSON(a), Desc: strings.ReplaceAll(a.src(), "\n", "; "),
			Expected: "[" + wantErr + ", " + got[3] + ", " + wantErr + ", " + got[3] + "]", Observed: "[" + strings.Join(got, ", ") + "]", Repro: prelude + a.src() + ".p\n"})
	}
}

func sweepAgain(c *core.Ctx) {
	tk.Batched(c, 200, prelude, func(emit func(againCase)) {
		for oi, oc := range all {
			if oc.Stmt || oc.Fn {
				continue
			}
			for s := range oc.Slots {
				emit(againCase{Mode: "again", Outer: oi, Name: oc.Name, Slot: s})
			}
		}
	}, func(a againCase) string { return a.src() }, func(a againCase, o panrun.Obs) { judgeAgain(c, a, o) })
}

// ---------------------------------------------------------------- programs spread over several files (real binary)

// An error raised while a file is loaded (import / invite! / a file of `pangaea test`) is delivered every time
// that file is loaded, and nothing written after the failing load - in the script, or in the test tree - runs.
type loadCase struct {
	Jargon  bool              `json:"jargon,omitempty"` // run with PANGAEA_JARGON_FILE=jargon.pangaea
	Mode    string            `json:"mode"`             // "load"
	Name    string            `json:"name"`
	Files   map[string]string `json:"files"`
	Args    []string          `json:"args"`
	WantOut string            `json:"want_out"`
	WantErr string            `json:"want_err"` // first line of stderr
}

func loadCases() []loadCase {
	broken := "\"loading\".p\nname := \"demo\"\nretries := 1 / 0\nafter := 1\n"
	var cs []loadCase
	for _, how := range []string{"import", "invite!"} {
		for _, handler := range []string{"nil.try.{|u| LOAD}.err?.p", "(5~.{|u| LOAD}).p", "[1]~@{|u| LOAD}.p"} {
			first := strings.ReplaceAll(handler, "LOAD", how+"(\"./mods/broken\")")
			caught := map[string]string{"nil.try.{|u| LOAD}.err?.p": "true\n", "(5~.{|u| LOAD}).p": "5\n", "[1]~@{|u| LOAD}.p": "[1]\n"}[handler]
			cs = append(cs, loadCase{Mode: "load", Name: how + "-failing-file-twice", Files: map[string]string{"mods/broken.pangaea": broken,
				"main.pangaea": "\"before\".p\n" + first + "\nm := " + how + "(\"./mods/broken\")\n\"not reached\".p\n"}, Args: []string{"main.pangaea"},
				WantOut: "before\nloading\n" + caught + "loading\n", WantErr: "ZeroDivisionErr: cannot be divided by 0"})
		}
		cs = append(cs, loadCase{Mode: "load", Name: how + "-unparsable-file-twice", Files: map[string]string{"mods/bad.pangaea": "x := (1\n",
			"main.pangaea": "\"before\".p\nnil.try.{|u| " + how + "(\"./mods/bad\")}.err?.p\n" + how + "(\"./mods/bad\")\n\"not reached\".p\n"}, Args: []string{"main.pangaea"},
			WantOut: "before\ntrue\n", WantErr: "SyntaxErr: failed to parse"})
	}
	// `pangaea test`: the run ends at the first file that raises, wherever that file lies in the tree
	tree := func(failing string) map[string]string {
		fs := map[string]string{}
		for _, f := range []string{"01_unit/a_test", "01_unit/b_test", "01_unit/c_test", "02_integration/d_test", "02_integration/sub/e_test", "03_last/f_test"} {
			body := "\"" + f + "\".p\n"
			if f == failing {
				body += "raise ValueErr.new(\"bad\")\n"
			}
			fs["suite/"+f+".pangaea"] = body
		}
		return fs
	}
	order := []string{"01_unit/a_test", "01_unit/b_test", "01_unit/c_test", "02_integration/d_test", "02_integration/sub/e_test", "03_last/f_test"}
	for fi, failing := range order {
		want := ""
		for _, f := range order[:fi+1] {
			want += "run:  suite/" + f + ".pangaea\n" + f + "\n"
			if f != failing {
				want += "pass: suite/" + f + ".pangaea\n"
			}
		}
		cs = append(cs, loadCase{Mode: "load", Name: "test-tree-failing-" + strings.ReplaceAll(failing, "/", "-"), Files: tree(failing), Args: []string{"test", "suite"}, WantOut: want, WantErr: "ValueErr: bad"})
	}
	// -j: the jargon file is part of the program; a statement of it that raises ends the run like any other statement
	// (script file, -e, -n and -p one-liners; the failing statement first, in the middle, last)
	for _, jar := range [][2]string{{"\"j1\".p\nlimit := 1 / 0\n\"j2\".p\n", "j1\n"}, {"limit := nil.zz_nope\n\"j2\".p\n", ""}, {"\"j1\".p\n\"j2\".p\nraise ValueErr.new(\"jargon\")\n", "j1\nj2\n"}, {"\"j1\".p\nhelper := {|| 1 / 0}\nx := [1, helper(), 3]\n", "j1\n"}} {
		wantErr := map[bool]string{true: "ZeroDivisionErr", false: "NoPropErr"}[strings.Contains(jar[0], "1 / 0")]
		if strings.Contains(jar[0], "ValueErr") {
			wantErr = "ValueErr: jargon"
		}
		for _, how := range [][]string{{"-j", "main.pangaea"}, {"-j", "-e", "\"script\".p"}, {"-j", "-n", "-e", "\"script\".p"}, {"-j", "-p", "-e", "\\"}} {
			cs = append(cs, loadCase{Mode: "load", Jargon: true, Name: "jargon-raises/" + strings.Join(how[:len(how)-1], ""), Files: map[string]string{"jargon.pangaea": jar[0], "main.pangaea": "\"script\".p\n"}, Args: how, WantOut: jar[1], WantErr: wantErr})
		}
	}
	return cs
}

func judgeLoad(c *core.Ctx, t loadCase) {
	c.Eval(1)
	c.Validated(1)
	c.Nontrivial(1)
	cli := os.Getenv("PANMC_CLI")
	if cli == "" {
		c.HarnessError("PANMC_CLI is not set")
		return
	}
	dir, err := os.MkdirTemp(os.Getenv("PANMC_SCRATCH"), "c07load")
	if err != nil {
		c.HarnessError("%v", err)
		return
	}
	defer os.RemoveAll(dir)
	for name, body := range t.Files {
		os.MkdirAll(filepath.Join(dir, filepath.Dir(name)), 0o755)
		os.WriteFile(filepath.Join(dir, name), []byte(body), 0o644)
	}
	cmd := exec.Command("timeout", append([]string{"60", cli}, t.Args...)...)
	cmd.Dir = dir
	if t.Jargon {
		cmd.Env = append(os.Environ(), "PANGAEA_JARGON_FILE="+filepath.Join(dir, "jargon.pangaea"))
		cmd.Stdin = strings.NewReader("line1\nline2\n")
	}
	var so, se strings.Builder
	cmd.Stdout, cmd.Stderr = &so, &se
	runErr := cmd.Run()
	code := 0
	if runErr != nil {
		code = 1
	}
	if ee, isExit := runErr.(*exec.ExitError); isExit && ee.ExitCode() == 124 {
		c.Incomplete("several-files family: the binary did not finish within 60 s (machine overloaded?)") // never an oracle
		return
	}
	first := strings.SplitN(se.String(), "\n", 2)[0]
	c.Outcome("load:" + t.Name)
	class := ""
	switch {
	case so.String() != t.WantOut:
		class = "continued-or-skipped"
	case code == 0:
		class = "error-dropped"
	case !strings.HasPrefix(first, t.WantErr):
		class = "wrong-error"
	}
	if class == "" {
		return
	}
	c.Violation(core.Violation{Key: "several-files/" + t.Name + "/" + class, Case: core.JSON(t), Desc: t.Name + " " + strings.Join(t.Args, " "), Expected: fmt.Sprintf("stdout %q, exit != 0, stderr starting %q", t.WantOut, t.WantErr),
		Observed: fmt.Sprintf("stdout %q, exit %d, stderr starting %q", so.String(), code, first)})
}

// ---------------------------------------------------------------- the REPL as outermost handler

// One scanned source (a line in single-line mode, a block in multi-line mode) is a statement list: after a
// statement raised, the later statements of that source are not evaluated (no output, no assignment).
func sweepREPL(c *core.Ctx) {
	type rc struct{ name, stdin, mustNot, must string }
	cases := []rc{
		{"single-line", "x := 1\n\"before\".p; raise ValueErr.new(\"boom\"); \"after\".p; x := 2\nx\n", "after", "ValueErr: boom"},
		{"single-line-nested", "x := 1\nf := {|| 1 / 0}\n\"before\".p; [1, f(), 3]; \"after\".p; x := 2\nx\n", "after", "ZeroDivisionErr"},
		{"multi-line", "x := 1\nmulti\n\"before\".p\nraise ValueErr.new(\"boom\")\n\"after\".p\nx := 2\n\nx\n\n", "after", "ValueErr: boom"},
		{"multi-line-nested", "x := 1\nmulti\n\"before\".p\ny := nil.zz_nope\n\"after\".p\nx := 2\n\nx\n\n", "after", "NoPropErr"},
	}
	tk.Sharded(c, len(cases), func(i int) {
		t := cases[i]
		c.Eval(1)
		c.Validated(1)
		c.Nontrivial(1)
		var out strings.Builder
		func() {
			defer func() {
				if p := recover(); p != nil {
					fmt.Fprintf(&out, "HOST PANIC: %v", p)
				}
			}()
			runscript.StartREPL("", strings.NewReader(t.stdin), &out)
		}()
		o := out.String()
		// the last echo must be the value x had before the failing source: 1
		ok := !strings.Contains(o, t.mustNot) && strings.Contains(o, t.must) && strings.Contains(o, "before") && !strings.Contains(o, "\n2\n") && !strings.HasSuffix(strings.TrimSpace(o), "2")
		c.Outcome("repl:" + map[bool]string{true: "ok", false: "differs"}[ok])
		if !ok {
			c.Violation(core.Violation{Key: "repl/" + t.name + "/continued-after-raise", Case: core.JSON(map[string]string{"mode": "repl", "name": t.name}), Desc: fmt.Sprintf("REPL input %q", t.stdin), Expected: "the error " + t.must + ", nothing of the same source after it, x still 1", Observed: fmt.Sprintf("%.400q", o)})
		}
	})
}

func run(c *core.Ctx) {
	c.Note("constructs", len(all))
	findLeaky(c)
	n := 0
	var progCases []tcase
	total := tk.Batched(c, 500, prelude, func(emit func(tcase)) {
		deep = c.Thorough()
		gen(true, func(t tcase) {
			if t.Ctx == "prog" {
				progCases = append(progCases, t)
				return
			}
			emit(t)
		})
	}, func(t tcase) string { return t.src() }, func(t tcase, o panrun.Obs) {
		n++
		if n%900 == 1 {
			c.Sample(map[string]string{"case": t.desc(), "source": t.src()})
		}
		judge(c, t, o, false)
	})
	sweepCallbacks(c)
	sweepAgain(c)
	raiseKinds(c)
	cs := cliCases()
	tk.Sharded(c, len(cs), func(i int) { judgeCLI(c, cs[i]) })
	c.Note("command_line_cases_total", len(cs))
	sweepREPL(c)
	ls := loadCases()
	tk.Sharded(c, len(ls), func(i int) { judgeLoad(c, ls[i]) })
	c.Note("thunk_cases_total", total)
	c.Note("program_cases_total", len(progCases))
	// top-level programs: one parse + evaluation each, in an own scope (checks the assignment too)
	tk.Sharded(c, len(progCases), func(i int) {
		t := progCases[i]
		env := object.NewEnclosedEnv(c.R().Root)
		o := c.R().EvalSrcIn(env, prelude+t.src(), "")
		c.Eval(1)
		_, assigned := env.Get(object.GetSymHash("z"))
		if i%300 == 0 {
			c.Sample(map[string]string{"case": t.desc(), "source": t.src()})
		}
		judge(c, t, o, assigned)
	})
}

// ---------------------------------------------------------------- callbacks handed to built-in and native properties

type cbCase struct {
	Mode string `json:"mode"` // "callback"
	Recv string `json:"recv"`
	Prop string `json:"prop"`
	Form string `json:"form"`
	Ctx  string `json:"ctx"`
}

var cbRecvs = []struct{ src, protos string }{
	{"[1, 5, 7]", "[Arr, Iterable, Obj, BaseObj]"}, {`"ab"`, "[Str, Iterable, Comparable, Obj, BaseObj]"}, {"(1:4)", "[Range, Iterable, Obj, BaseObj]"}, {"{a: 1, b: 2}", "[Obj, Iterable, BaseObj]"},
	{"%{1: 2, [3]: 4}", "[Map, Iterable, Obj, BaseObj]"}, {"3", "[Int, Num, Comparable, Iterable, Obj, BaseObj]"}, {"2.5", "[Float, Num, Comparable, Obj, BaseObj]"},
	{"<{|i| yield i if i < 3; recur(i + 1)}>.new(0)", "[Iter, Iterable, Func, Obj, BaseObj]"},
	{"nil", "[Nil, Obj, BaseObj]"}, {"{|x| x}", "[Func, Obj, BaseObj]"},
}

// call forms: CB is the callback (it prints the marker and raises when it is called)
var cbForms = []string{"RECV.PROP CB", "RECV.PROP(CB)", "RECV.PROP(1) CB", "RECV.PROP(CB, CB)", "RECV.PROP(5, CB)", "5 === CB", "RECV === CB", "RECV.case(%{CB: 1})", "CB.asFor?(RECV)", "RECV !== CB"}

var cbSkip = map[string]bool{"p": true, "puts": true, "print": true, "exit": true, "import": true, "invite!": true, "read": true, "eval": true, "evalEnv": true, "argv": true, "try": true, "bear": true, "bro": true, "new": true,
	"call": true, "callProp": true, "which": true, "_missing": true, "_literalProxy": true, "repr": true, "S": true, "B": true}

func (t cbCase) src() string {
	cb := "{|x, y| bm(0)}"
	e := strings.NewReplacer("RECV", "("+t.Recv+")", "PROP", t.Prop, "CB", cb).Replace(t.Form)
	if t.Ctx == "try" {
		return "r := nil.try.{|u| " + e + "}\n\"post\".p\nr.A"
	}
	return "f := {||\n defer \"defer\".p\n z := " + e + "\n \"after\".p\n z\n}\nf()"
}

// sweepCallbacks: every property reachable from 10 kinds of receivers (Either values excluded: a call on them is an Either step, C13's subject) is given a callback that raises, in 5 call forms
// (plus the predicate forms ===, !==, case, asFor?); whenever the callback was actually called, its error must come
// out and nothing after the call may run. Names are discovered at run time.
func sweepCallbacks(c *core.Ctx) {
	var cases []cbCase
	seen := map[string]bool{}
	for _, r := range cbRecvs {
		var names []string
		for _, pn := range strings.Split(strings.Trim(r.protos, "[]"), ", ") {
			v, ok := c.R().Root.Get(object.GetSymHash(pn))
			po, isObj := v.(*object.PanObj)
			if !ok || !isObj || po.Pairs == nil {
				c.HarnessError("prototype %s is not an object of the root scope", pn)
				return
			}
			for _, pair := range *po.Pairs {
				if ks, ok := pair.Key.(*object.PanStr); ok && identRe.MatchString(ks.Value) && !cbSkip[ks.Value] {
					names = append(names, ks.Value)
				}
			}
		}
		sort.Strings(names)
		for _, n := range names {
			for fi, f := range cbForms {
				if !strings.Contains(f, "PROP") && (n != names[0]) {
					continue // predicate forms do not depend on the property: once per receiver
				}
				for _, ctx := range []string{"fn", "try"} {
					t := cbCase{Mode: "callback", Recv: r.src, Prop: n, Form: cbForms[fi], Ctx: ctx}
					if !seen[t.src()] {
						seen[t.src()] = true
						cases = append(cases, t)
					}
				}
			}
		}
	}
	c.Note("callback_cases_total", len(cases))
	tk.Batched(c, 400, prelude, func(emit func(cbCase)) {
		for _, t := range cases {
			emit(t)
		}
	}, func(t cbCase) string { return t.src() }, func(t cbCase, o panrun.Obs) { judgeCallback(c, t, o) })
}

var identRe = regexp.MustCompile(`^[a-zA-Z][a-zA-Z0-9_]*[!?]?$`)

func judgeCallback(c *core.Ctx, t cbCase, o panrun.Obs) {
	c.Validated(1)
	if o.Kind == "syntax" {
		c.HarnessError("callback case does not parse: %s: %s", t.src(), o.ErrMsg)
		return
	}
	if o.Kind == "discard" || o.Kind == "panic" {
		c.Outcome("callback:" + o.Kind) // C01's subject
		return
	}
	class, exp, got := verdict(tcase{Ctx: t.Ctx, Fault: "bm", Inner: -1}, o, false)
	if class == "-" {
		c.Outcome("callback:not-called")
		return
	}
	c.Nontrivial(1)
	c.Outcome("callback:" + o.Kind)
	if class == "" {
		return
	}
	what := t.Prop
	if !strings.Contains(t.Form, "PROP") {
		what = strings.TrimSpace(strings.NewReplacer("RECV", "", "CB", "", "(", "", ")", "", "%{", "", ": 1}", "", ".", "").Replace(t.Form))
	}
	c.Violation(core.Violation{Key: "callback/" + what + "/" + class, Case: core.JSON(t), Desc: strings.ReplaceAll(t.src(), "\n", "; "), Expected: exp, Observed: got, Repro: prelude + "zz := {||\n" + t.src() + "\n}\nzz().p\n"})
}

// ---------------------------------------------------------------- every error kind of the root scope, raised explicitly

// raiseKinds: `raise K.new(msg)` for every error prototype K found in the root scope delivers kind K and the message to
// a try step, to a function's caller (through a pending defer) and out of a nested call chain.
func raiseKinds(c *core.Ctx) {
	var kinds []string
	for h, v := range c.R().Root.Store {
		name, _ := object.SymHash2Str(h)
		ps, ok := name.(*object.PanStr)
		if !ok || !strings.HasSuffix(ps.Value, "Err") || ps.Value == "EitherErr" {
			continue
		}
		if _, isObj := v.(*object.PanObj); isObj {
			kinds = append(kinds, ps.Value)
		}
	}
	sort.Strings(kinds)
	c.Note("error_kinds_raised_explicitly", strings.Join(kinds, ","))
	if len(kinds) < 10 {
		c.HarnessError("only %d error prototypes found in the root scope", len(kinds))
		return
	}
	tk.Batched(c, 50, prelude, func(emit func(string)) {
		for _, k := range kinds {
			emit(k)
		}
	}, func(k string) string {
		return "kf := {|| defer \"kd\".p; raise " + k + ".new(\"msg of " + k + "\")}\nkg := {|| [1, kf(), 2]}\nr := nil.try.{|u| kg()}\n[r.A.S, r.err.type == " + k + ", r.err.kindOf?(" + k + "), 1.try.{|u| kf()}.catch(" + k + ") {|e| 'caught}.val]"
	}, func(k string, o panrun.Obs) {
		c.Validated(1)
		c.Nontrivial(1)
		want := `["[nil, [` + k + `: msg of ` + k + `]]", true, true, "caught"]`
		c.Outcome("raise-kind:" + o.Kind)
		if o.Kind == "value" && o.Repr == want && o.Out == "kd\nkd\n" {
			return
		}
		c.Violation(core.Violation{Key: "explicit-raise/" + k + "/wrong-error", Case: core.JSON(map[string]string{"raise_kind": k}), Desc: "raise " + k + ".new(...) through a nested call, a defer and a try step", Expected: want + ` out="kd\nkd\n"`,
			Observed: o.Short() + fmt.Sprintf(" out=%q", o.Out), Repro: "r := nil.try.{|u| raise " + k + ".new(\"m\")}\nr.A.p\n"})
	})
}

// ---------------------------------------------------------------- uncaught errors through the real command line

type cliCase struct {
	Mode string `json:"mode"` // "cli"
	Kind string `json:"kind"`
	Msg  string `json:"msg"` // Pangaea string literal body (escapes as written)
	Want string `json:"want"`
	How  string `json:"how"` // file | oneliner
}

var cliMsgs = [][2]string{{"plain", "plain"}, {"100% full", "100% full"}, {"%d items, %s and %v", "%d items, %s and %v"}, {"50%", "50%"}, {"%", "%"}, {"%%", "%%"}, {"%!x(MISSING)", "%!x(MISSING)"},
	{`a\\b`, `a\b`}, {`q\"q`, `q"q`}, {"日本語 %語", "日本語 %語"}, {"", ""}, {" lead and trail ", " lead and trail "}, {"{curly} [square] <angle>", "{curly} [square] <angle>"}, {"$1 `tick` 'q'", "$1 `tick` 'q'"}}

func cliCases() []cliCase {
	var cs []cliCase
	for _, k := range []string{"ValueErr", "Err", "TypeErr", "AssertionErr", "ZeroDivisionErr"} {
		for _, m := range cliMsgs {
			for _, how := range []string{"file", "oneliner"} {
				cs = append(cs, cliCase{Mode: "cli", Kind: k, Msg: m[0], Want: k + ": " + m[1], How: how})
			}
		}
	}
	return cs
}

func (t cliCase) src() string {
	return "\"before\".p\nf := {|| raise " + t.Kind + ".new(\"" + t.Msg + "\")}\nf()\n\"after\".p\n"
}

// runCLI runs the program with the real command-line binary built from the tree under test.
func runCLI(t cliCase) (stdout, stderr string, code int, err error) {
	cli := os.Getenv("PANMC_CLI")
	if cli == "" {
		return "", "", 0, fmt.Errorf("PANMC_CLI is not set")
	}
	var cmd *exec.Cmd
	switch t.How {
	case "file":
		f, e := os.CreateTemp(os.Getenv("PANMC_SCRATCH"), "c07cli*.pangaea")
		if e != nil {
			return "", "", 0, e
		}
		defer os.Remove(f.Name())
		f.WriteString(t.src())
		f.Close()
		cmd = exec.Command("timeout", "30", cli, f.Name())
	case "oneliner":
		cmd = exec.Command("timeout", "30", cli, "-e", t.src())
	default:
		cmd = exec.Command("timeout", "30", cli)
		cmd.Stdin = strings.NewReader(t.src())
	}
	var so, se strings.Builder
	cmd.Stdout, cmd.Stderr = &so, &se
	e := cmd.Run()
	if ee, ok := e.(*exec.ExitError); ok {
		code = ee.ExitCode()
	} else if e != nil {
		return "", "", 0, e
	}
	return so.String(), se.String(), code, nil
}

func judgeCLI(c *core.Ctx, t cliCase) {
	c.Eval(1)
	c.Validated(1)
	c.Nontrivial(1)
	so, se, code, err := runCLI(t)
	if err != nil {
		c.HarnessError("cannot run the command line: %v", err)
		return
	}
	first := strings.SplitN(se, "\n", 2)[0]
	c.Outcome("cli:" + t.How)
	class := ""
	switch {
	case so != "before\n":
		class = "continued-after-raise"
	case code == 0:
		class = "error-dropped"
	case first != t.Want:
		class = "wrong-error"
	}
	if class == "" {
		return
	}
	c.Violation(core.Violation{Key: "command-line/" + t.How + "/uncaught/" + class, Case: core.JSON(t), Desc: strings.ReplaceAll(t.src(), "\n", "; "), Expected: fmt.Sprintf("stdout %q, exit != 0, stderr starting %q", "before\n", t.Want),
		Observed: fmt.Sprintf("stdout %q, exit %d, stderr starting %q", so, code, first), Repro: t.src()})
}

func replay(c *core.Ctx, raw json.RawMessage) {
	var cb cbCase
	if json.Unmarshal(raw, &cb) == nil && cb.Mode == "callback" {
		obs := c.R().Thunks(prelude, []string{cb.src()}, "")
		c.Eval(1)
		judgeCallback(c, cb, obs[0])
		return
	}
	var rp struct{ Mode string }
	if json.Unmarshal(raw, &rp) == nil && rp.Mode == "repl" {
		sweepREPL(c)
		return
	}
	var lc loadCase
	if json.Unmarshal(raw, &lc) == nil && lc.Mode == "load" {
		judgeLoad(c, lc)
		return
	}
	var ag againCase
	if json.Unmarshal(raw, &ag) == nil && ag.Mode == "again" {
		for i, k := range all {
			if k.Name == ag.Name {
				ag.Outer = i
			}
		}
		obs := c.R().Thunks(prelude, []string{ag.src()}, "")
		c.Eval(1)
		judgeAgain(c, ag, obs[0])
		return
	}
	var ct cliCase
	if json.Unmarshal(raw, &ct) == nil && ct.Mode == "cli" {
		judgeCLI(c, ct)
		return
	}
	var t tcase
	if err := json.Unmarshal(raw, &t); err != nil {
		c.HarnessError("bad case: %v", err)
		return
	}
	// locate constructs by name (indices may shift between versions of the check)
	for i, k := range all {
		if k.Name == t.OuterName {
			t.Outer = i
		}
		if t.Inner >= 0 && k.Name == t.InnerName {
			t.Inner = i
		}
	}
	c.Eval(1)
	findLeaky(c)
	if t.Ctx == "prog" {
		env := object.NewEnclosedEnv(c.R().Root)
		o := c.R().EvalSrcIn(env, prelude+t.src(), "")
		_, assigned := env.Get(object.GetSymHash("z"))
		judge(c, t, o, assigned)
		return
	}
	obs := c.R().Thunks(prelude, []string{t.src()}, "")
	judge(c, t, obs[0], false)
}
