// Package c16: parsing does not depend on layout volume, token length or input chunking
// (property C16). Padding sizes around the lexer's refill threshold and read size are swept at every
// position where the grammar permits a line break; token lengths are swept; reader chunkings are
// enumerated (constant sizes exhaustively, short reads as bounded deviations from "everything at once").
package c16

import (
	"encoding/json"
	"fmt"
	"io"
	"os"
	"os/exec"
	"strings"

	"github.com/Syuparn/pangaea/parser"
	"github.com/Syuparn/pangaea/runscript"

	"panmc/internal/core"
	"panmc/internal/tk"
)

func init() {
	core.Register(&core.Check{
		ID:    "C16",
		Level: "model_checking",
		Rule: "base programs with a mark at every position where the grammar permits a line break; every mark x 3 padding kinds (blank lines, one long comment line, mixed spaces/tabs/comment/blank lines) x sizes {0..8} U [1016,1032] U [2040,2056] U {3000,4095,4096,4097,5000,8192} U {2^k-1, 2^k, 2^k+1 : 16 KiB <= 2^k <= 128 KiB (thorough 1 MiB)} " +
			"(thorough: every size 0..4200 at three positions, +-64 windows elsewhere) and all marks at once; 7 token kinds (string, raw string, embedded-string piece, comment, identifier, symbol, int) x the same lengths; " +
			"whole programs of <=4 padding lines (comment, blank, spaces, indented comment, bare #) around nothing or around one statement at every position, with and without a line break after the last line; " +
			"reader chunkings: constant chunk sizes {1,2,3,5,7,64,1023,1024,1025,2047,2048,2049} and every schedule with <=1 (thorough 2) short reads among the first 6 reads, on programs of 0.5-5 KiB, and readers that deliver their last bytes together with io.EOF and/or return (0, nil) once (7 chunk sizes x 7 variants); oracle: AST string equals the unpadded/unchunked parse with the token text intact; " +
			"two more padding kinds put the padding on the line itself (k spaces/tabs after the break = the next token starts in column k+1; k spaces/tabs before the break), sizes around 256, 1 KiB, 2 KiB, 4 KiB, 8 KiB at every mark; for paddings <= 8 KiB the padded program is also evaluated and must print and return what the unpadded one does (3 base programs show the order of keyword arguments, keyword defaults and pairs); " +
			"script files with LF / CRLF / CR line breaks, a raw string spanning lines, a comment and padding of 0..8 KiB are run by the real binary; " +
			"non-trivial = padding/length >= 1000 bytes or a chunked read; distinct = distinct (program, position, kind, size) / (program, schedule); round 8: Every bracketed construct is also compared with its one-line spelling (AST and evaluation; incl. calls and literals made of expansions only); four programs are entered in the REPL's multi-line mode with blanks of 0..4096 bytes at line ends and on lines of their own.",
		Assumptions: []string{
			"ast.Program.String() is the observable; comments are not part of it",
			"read schedules with more than 2 deviations are not explored",
		},
		Run:    run,
		Replay: replay,
	})
}

// § marks a position where one line break is written in the base program.
var bases = []string{
	"§x := 1§y := 2§x + y§",
	"a := [§1,§2,§3§]§a§",
	"o := {§a: 1,§b: 2§}§o§",
	"m := %{§1: 2,§3: 4§}§m§",
	"f := {|a, b|§a + b§}§f(§1,§2§)§",
	"g := m{|x|§x§}§h := <{|i|§yield i§}>§k := m<{|i|§yield i§}>§g§",
	"r := [§[§1§],§[§2§]§]§r§",
	"[1, 2, 3]§|@{|i| i * 2}§|.p§",
	"x := 5§x§|.S§|.p§y := x§",
	"p := {a: {§b: [§1§]§}§}§p§",
	// programs whose evaluation shows the order in which keyword arguments, keyword defaults and pairs are taken
	"t := {|x| x.p; x}§f := {|a: 0, b: 0| [a, b]}§f(§a: t(1),§b: t(2)§)§f(§b: t(3),§a: t(4)§)§",
	"t := {|x| x.p; x}§g := {|a: t(3),§b: t(4)| [a, b]}§g()§f := {|a: 0| a}§f(§a: t(5),§a: t(6)§)§",
	"t := {|x| x.p; x}§o := {§a: t(1),§b: t(2),§a: t(3)§}§m := %{§t(1): t(2),§t(1): t(3)§}§[o, m]§",
	"t := {|x| x.p; x}§f := {|a: 0, b: 0| [a, b]}§f(§**t({a: 1}),§**t({b: 2})§)§f(**t({a: 3})§)§f(§1,§**t({b: 4})§)§f(§*t([5]),§b: t(6)§)§",
	"t := {|x| x.p; x}§xs := [§*t([1]),§*t([2])§]§o := {§**t({a: 1}),§**t({b: 2})§}§m := %{§**t(%{1: 2}),§**t(%{3: 4})§}§[xs, o, m]§",
	// multi-character tokens, each after a blank: whatever offset of the source they start at (see tokenWindow)
	"a := 2§b := a ** 3 ** 2 - -a ** 2§c := a <=> 2 if a === 2 else a !== 3 // 2§d := [a, b]@{|i| i ** 2} + [a // 2]§e := a <= b && b >= a || a != b§[a, b, c, d, e]§",
}

const tokenWindowBase = 15

// flat: the same programs written with every bracketed construct on one line (breaks only between statements):
// the multi-line spelling of a base must be the same program as its one-line spelling
var flat = map[int]string{
	10: "t := {|x| x.p; x}\nf := {|a: 0, b: 0| [a, b]}\nf(a: t(1), b: t(2))\nf(b: t(3), a: t(4))\n",
	11: "t := {|x| x.p; x}\ng := {|a: t(3), b: t(4)| [a, b]}\ng()\nf := {|a: 0| a}\nf(a: t(5), a: t(6))\n",
	12: "t := {|x| x.p; x}\no := {a: t(1), b: t(2), a: t(3)}\nm := %{t(1): t(2), t(1): t(3)}\n[o, m]\n",
	13: "t := {|x| x.p; x}\nf := {|a: 0, b: 0| [a, b]}\nf(**t({a: 1}), **t({b: 2}))\nf(**t({a: 3}))\nf(1, **t({b: 4}))\nf(*t([5]), b: t(6))\n",
	14: "t := {|x| x.p; x}\nxs := [*t([1]), *t([2])]\no := {**t({a: 1}), **t({b: 2})}\nm := %{**t(%{1: 2}), **t(%{3: 4})}\n[xs, o, m]\n",
	1:  "a := [1, 2, 3]\na\n",
	2:  "o := {a: 1, b: 2}\no\n",
	3:  "m := %{1: 2, 3: 4}\nm\n",
	4:  "f := {|a, b| a + b}\nf(1, 2)\n",
	6:  "r := [[1], [2]]\nr\n",
	9:  "p := {a: {b: [1]}}\np\n",
}

type tcase struct {
	Mode string `json:"mode"` // pad | token | chunk
	Base int    `json:"base"`
	Mark int    `json:"mark"` // -1 = all marks
	Kind string `json:"kind"`
	Size int    `json:"size"`
	// chunk mode
	Src    string `json:"src,omitempty"`    // lines mode: the whole source
	Chunks []int  `json:"chunks,omitempty"` // read sizes; after the list everything that is asked for
	Const  int    `json:"const,omitempty"`
	// how the reader ends and stalls (both allowed by the io.Reader contract): Eof 1 = the last bytes are delivered together
	// with io.EOF; Empty k>0 = the k-th read returns (0, nil) once
	Eof   int `json:"eof,omitempty"`
	Empty int `json:"empty,omitempty"`
}

func padding(kind string, k int) string {
	if k <= 0 {
		return "\n"
	}
	switch kind {
	case "blank":
		return strings.Repeat("\n", k)
	case "comment":
		if k < 2 {
			return "\n"
		}
		return "\n#" + strings.Repeat("c", k-2) + "\n"
	case "special": // comment text made of characters that mean something elsewhere in the grammar
		var sb strings.Builder
		sb.WriteString("\n")
		texts := []string{"# |@ not a chain |.p", "# x := \"unterminated { [ ( `", "# }> ]) }} ' ?c \\ \\1", "# |", "#|$", "# a | b || c |& d", "# #{ } #", "# if else return yield defer raise",
			// line comments that look like the ends and the starts of block comments of other languages (closers first: a
			// reader that took an opener for a block start would run on into the next padding, across the code between)
			"# end of banner ]#", "# *# =# -# |# }# ># )# #]", "#]", "#[ config ]####", "#[1] step", "#[", "#* #= #- #| #{ #< #(", "#!/usr/bin/env pangaea", "#=begin", "#--[[", "#<<EOF",
			// bytes that end a text elsewhere (C strings, terminals)
			"# a NUL byte \x00 in a comment", "# \x1a \x04 \x1b[0m \x7f"}
		i := 0
		for sb.Len() < k || i < len(texts) {
			sb.WriteString(texts[i%len(texts)] + "\n")
			i++
			if i > 4000 {
				break
			}
		}
		return sb.String()
	case "indent": // the line break followed by k spaces / tabs: the next token starts in column k+1
		return "\n" + strings.Repeat(" \t", k/2) + strings.Repeat(" ", k%2)
	case "trail": // k spaces / tabs before the line break
		return strings.Repeat("\t ", k/2) + strings.Repeat(" ", k%2) + "\n"
	case "mixed":
		var sb strings.Builder
		sb.WriteString("\n")
		i := 0
		for sb.Len() < k {
			switch i % 4 {
			case 0:
				sb.WriteString("  \t# note " + fmt.Sprint(i) + "\n")
			case 1:
				sb.WriteString("\n")
			case 2:
				sb.WriteString("\t\t\n")
			case 3:
				sb.WriteString("# " + strings.Repeat("x", 40) + "\n")
			}
			i++
		}
		return sb.String()
	}
	return "\n"
}

func render(base string, mark int, pad string) string {
	parts := strings.Split(base, "§")
	var sb strings.Builder
	for i, p := range parts {
		sb.WriteString(p)
		if i == len(parts)-1 {
			break
		}
		if mark == -1 || i == mark {
			sb.WriteString(pad)
		} else {
			sb.WriteString("\n")
		}
	}
	return sb.String()
}

func parse(src string) (string, string) {
	return parseReader(strings.NewReader(src))
}

func parseReader(r io.Reader) (res string, errs string) {
	defer func() {
		if p := recover(); p != nil {
			errs = fmt.Sprintf("host panic: %v", p)
		}
	}()
	n, err := parser.Parse(parser.NewReader(r, "<c16>"))
	if err != nil {
		return "", firstLines(err.Error())
	}
	return n.String(), ""
}

func firstLines(s string) string {
	l := strings.Split(s, "\n")
	if len(l) > 3 {
		l = l[:3]
	}
	s = strings.Join(l, " / ")
	if len(s) > 200 {
		s = s[:200] + "..."
	}
	return s
}

type tokenKind struct {
	name string
	mk   func(k int) (src, short string) // source with a token of k bytes, and the same with a 3-byte token
}

func rep(k int) string { return strings.Repeat("a", k) }

var tokenKinds = []tokenKind{
	{"string", func(k int) (string, string) { return `x := "` + rep(k) + `"` + "\nx\n", "" }},
	{"raw-string", func(k int) (string, string) { return "x := `" + rep(k) + "`\nx\n", "" }},
	{"embedded-str-piece", func(k int) (string, string) {
		return `x := "` + rep(k) + `#{1}` + rep(k) + `#{2}` + rep(k) + `"` + "\nx\n", ""
	}},
	{"comment", func(k int) (string, string) { return "x := 1 #" + rep(k) + "\nx\n", "" }},
	{"identifier", func(k int) (string, string) { return "v" + rep(k) + " := 1\nv" + rep(k) + "\n", "" }},
	{"symbol", func(k int) (string, string) { return "x := 's" + rep(k) + "\nx\n", "" }},
	{"int", func(k int) (string, string) {
		return "x := 1" + strings.Repeat("_0", 0) + strings.Repeat("0", 0) + " + " + intTok(k) + "\nx\n", ""
	}},
}

// intTok: an int literal of k characters whose value fits (leading zeros and separators)
func intTok(k int) string {
	if k < 1 {
		return "7"
	}
	return strings.Repeat("0", k-1) + "7"
}

func expectToken(kind string, k int) string {
	switch kind {
	case "string":
		return `(x := "` + rep(k) + `")` + "\nx"
	case "raw-string":
		return "(x := `" + rep(k) + "`)\nx"
	case "embedded-str-piece":
		return `(x := "` + rep(k) + `#{ 1 }` + rep(k) + `#{ 2 }` + rep(k) + `")` + "\nx"
	case "comment":
		return "(x := 1)\nx"
	case "identifier":
		return "(v" + rep(k) + " := 1)\nv" + rep(k)
	case "symbol":
		return "(x := 's" + rep(k) + ")\nx"
	case "int":
		return "(x := (1 + " + intTok(k) + "))\nx"
	}
	return ""
}

func sizes(thorough bool, wide bool) []int {
	var s []int
	add := func(a, b int) {
		for i := a; i <= b; i++ {
			s = append(s, i)
		}
	}
	if thorough && wide {
		add(0, 4200)
		s = append(s, 5000, 8192, 16384)
		return s
	}
	add(0, 8)
	if thorough {
		add(960, 1088)
		add(1984, 2112)
		add(3008, 3136)
		add(4032, 4160)
	} else {
		add(1016, 1032)
		add(2040, 2056)
	}
	s = append(s, 3000, 4095, 4096, 4097, 5000, 8192)
	// every power of two +-1 up to 128 KiB (thorough 1 MiB): buffer/window sizes a lexer might use
	top := 128 << 10
	if thorough {
		top = 1 << 20
	}
	for k := 16 << 10; k <= top; k *= 2 {
		s = append(s, k-1, k, k+1)
	}
	return s
}

// chunkReader returns data in the scheduled read sizes.
type chunkReader struct {
	data   []byte
	sched  []int
	konst  int
	nreads int
	eof    int
	empty  int
}

func (r *chunkReader) Read(p []byte) (int, error) {
	if len(r.data) == 0 {
		return 0, io.EOF
	}
	if r.empty > 0 && r.nreads+1 == r.empty {
		r.nreads++
		return 0, nil
	}
	n := len(p)
	if r.konst > 0 && n > r.konst {
		n = r.konst
	}
	if r.nreads < len(r.sched) && r.sched[r.nreads] > 0 && n > r.sched[r.nreads] {
		n = r.sched[r.nreads]
	}
	r.nreads++
	if n > len(r.data) {
		n = len(r.data)
	}
	copy(p, r.data[:n])
	r.data = r.data[n:]
	if r.eof == 1 && len(r.data) == 0 {
		return n, io.EOF
	}
	return n, nil
}

func chunkPrograms() []string {
	var ps []string
	// several KiB of ordinary statements with long-ish tokens
	var sb strings.Builder
	for i := 0; i < 12; i++ {
		fmt.Fprintf(&sb, "value_number_%d := [%d, \"some string literal %d\", 'symbol_%d] # trailing comment %d\n", i, i, i, i, i)
	}
	ps = append(ps, sb.String())
	sb.Reset()
	for i := 0; i < 60; i++ {
		fmt.Fprintf(&sb, "identifier%03d := identifier_function_%03d(argument_%03d, \"text %03d\")\n", i, i, i, i)
	}
	ps = append(ps, sb.String())
	ps = append(ps, render(bases[4], -1, "\n")+render(bases[5], -1, "\n")+render(bases[9], -1, "\n"))
	// characters of 2, 3 and 4 bytes at every offset: str literals, raw strings, comments, symbols in quotes
	sb.Reset()
	for i := 0; i < 40; i++ {
		fmt.Fprintf(&sb, "%sv%d := [\"h\u00e9llo w\u00f6rld \u3042\u3044 %d\", `r\u00e4w \U0001d11e`] # \u6ce8\u91c8 \u00e9 %d\n", strings.Repeat(" ", i%4), i, i, i)
	}
	ps = append(ps, sb.String())
	return ps
}

func gen(thorough bool, emit func(tcase)) {
	for bi, b := range bases {
		marks := strings.Count(b, "§")
		for m := 0; m < marks; m++ {
			for _, k := range []int{0, 64, 1024, 2048} {
				emit(tcase{Mode: "pad", Base: bi, Mark: m, Kind: "special", Size: k})
			}
			for _, kind := range []string{"blank", "comment", "mixed"} {
				wide := thorough && (bi == 0 && m <= 1 || bi == 2 && m == 0)
				for _, k := range sizes(thorough, wide) {
					emit(tcase{Mode: "pad", Base: bi, Mark: m, Kind: kind, Size: k})
				}
			}
		}
		for m := 0; m < marks; m++ {
			for _, kind := range []string{"indent", "trail"} {
				for _, k := range []int{1, 2, 7, 8, 100, 255, 256, 257, 1016, 1022, 1023, 1024, 1025, 1032, 2047, 2048, 2049, 4095, 4096, 4097, 8192} {
					emit(tcase{Mode: "pad", Base: bi, Mark: m, Kind: kind, Size: k})
				}
			}
		}
		for _, kind := range []string{"blank", "comment", "mixed", "indent", "trail"} {
			for _, k := range []int{0, 1, 2, 100, 1023, 1024, 1025, 2047, 2048, 2049, 4096} {
				emit(tcase{Mode: "pad", Base: bi, Mark: -1, Kind: kind, Size: k})
			}
		}
		// every alignment of the following tokens relative to 4 KiB / 8 KiB / 64 KiB offsets of the source (a reader that
		// takes the source block by block must not cut a token)
		if bi == tokenWindowBase {
			for _, kind := range []string{"blank", "comment", "indent"} {
				for _, w := range [][2]int{{3980, 4110}, {8080, 8200}, {65400, 65545}} {
					for k := w[0]; k <= w[1]; k++ {
						emit(tcase{Mode: "pad", Base: bi, Mark: 0, Kind: kind, Size: k})
					}
				}
			}
		}
		// the special comment texts at every line break at once (a comment of one padding must not reach the next one)
		for _, k := range []int{0, 1024} {
			emit(tcase{Mode: "pad", Base: bi, Mark: -1, Kind: "special", Size: k})
		}
	}
	for e := 0; e < 3; e++ {
		for _, k := range []int{0, 8, 1024, 4096} {
			emit(tcase{Mode: "jargon", Base: e, Size: k})
		}
	}
	for pi := 0; pi < 4; pi++ {
		for _, k := range []int{0, 1, 8, 100, 1024, 4096} {
			emit(tcase{Mode: "repl-multi", Base: pi, Size: k})
		}
	}
	for bi := range bases {
		if _, ok := flat[bi]; ok {
			emit(tcase{Mode: "flat", Base: bi})
		}
	}
	for _, nl := range []string{"LF", "CRLF", "CR"} {
		for _, k := range []int{0, 8, 1000, 1024, 2048, 4096, 8192} {
			emit(tcase{Mode: "file", Kind: nl, Size: k})
		}
	}
	for _, tkd := range tokenKinds {
		for _, k := range sizes(thorough, false) {
			if k == 0 {
				continue
			}
			emit(tcase{Mode: "token", Kind: tkd.name, Size: k})
		}
	}
	// whole programs of padding lines (comments, blanks, indented comments) around nothing / around one statement,
	// every sequence of <=4 lines, with and without a line break after the last line
	lineKinds := []string{"#c", "", "  ", "\t# d", "#"}
	for _, base := range []string{"", "1.p"} {
		var rec func(lines []string)
		rec = func(lines []string) {
			if len(lines) > 0 {
				for pos := 0; pos <= len(lines); pos++ {
					if base == "" && pos > 0 {
						break
					}
					all := append(append(append([]string{}, lines[:pos]...), base), lines[pos:]...)
					if base == "" {
						all = lines
					}
					src := strings.Join(all, "\n")
					emit(tcase{Mode: "lines", Kind: base, Src: src})
					emit(tcase{Mode: "lines", Kind: base, Src: src + "\n"})
				}
			}
			if len(lines) == 4 {
				return
			}
			for _, l := range lineKinds {
				rec(append(append([]string{}, lines...), l))
			}
		}
		rec(nil)
	}
	progs := chunkPrograms()
	for pi := range progs {
		for _, cs := range []int{1, 2, 3, 5, 7, 64, 1023, 1024, 1025, 2047, 2048, 2049} {
			emit(tcase{Mode: "chunk", Base: pi, Const: cs})
		}
		// the end of the input delivered together with the last bytes; one read that returns nothing
		for _, cs := range []int{0, 1, 7, 64, 1024, 2048, 32768} {
			emit(tcase{Mode: "chunk", Base: pi, Const: cs, Eof: 1})
			for k := 1; k <= 3; k++ {
				emit(tcase{Mode: "chunk", Base: pi, Const: cs, Empty: k})
				emit(tcase{Mode: "chunk", Base: pi, Const: cs, Empty: k, Eof: 1})
			}
		}
		// deviation-bounded: short reads among the first 6 reads
		short := []int{1, 2, 1000, 2047}
		for i := 0; i < 6; i++ {
			for _, a := range short {
				s := make([]int, 6)
				s[i] = a
				emit(tcase{Mode: "chunk", Base: pi, Chunks: s})
				if thorough {
					for j := i + 1; j < 6; j++ {
						for _, b := range short {
							s2 := append([]int{}, s...)
							s2[j] = b
							emit(tcase{Mode: "chunk", Base: pi, Chunks: s2})
						}
					}
				}
			}
		}
	}
}

func check(c *core.Ctx, t tcase) {
	c.Eval(1)
	c.Validated(1)
	viol := func(key, desc, exp, got, repro string) {
		c.Violation(core.Violation{Key: key, Case: core.JSON(t), Desc: desc, Expected: exp, Observed: got, Repro: repro})
	}
	bucket := func(k int) string {
		switch {
		case k < 1000:
			return "under-1KiB"
		case k < 2040:
			return "1KiB-2KiB"
		default:
			return "2KiB-and-more"
		}
	}
	switch t.Mode {
	case "pad":
		base := render(bases[t.Base], -1, "\n")
		want, e0 := parse(base)
		if e0 != "" {
			c.HarnessError("base program %d does not parse: %s", t.Base, e0)
			return
		}
		src := render(bases[t.Base], t.Mark, padding(t.Kind, t.Size))
		if t.Size >= 1000 {
			c.Nontrivial(1)
		}
		got, e := parse(src)
		c.Outcome("pad:" + map[bool]string{true: "ok", false: "fail"}[e == "" && got == want])
		if e != "" || got != want {
			pos := fmt.Sprint(t.Mark)
			if t.Mark == -1 {
				pos = "all"
			}
			viol("padding/"+t.Kind+"/"+bucket(t.Size), fmt.Sprintf("base %d (%q) mark %s padded with %d bytes of %s", t.Base, bases[t.Base], pos, t.Size, t.Kind), want, got+e, "")
		} else if t.Size <= 8192 {
			// "the same program": what it prints and returns is the same as well (positions of the tokens differ)
			o0, o1 := c.R().EvalSrc(base, ""), c.R().EvalSrc(src, "")
			c.Outcome("pad-eval:" + map[bool]string{true: "ok", false: "differs"}[o0.Key() == o1.Key()])
			if o0.Key() != o1.Key() {
				pos := fmt.Sprint(t.Mark)
				if t.Mark == -1 {
					pos = "all"
				}
				viol("padding-changes-evaluation/"+t.Kind+"/"+bucket(t.Size), fmt.Sprintf("base %d (%q) mark %s padded with %d bytes of %s", t.Base, bases[t.Base], pos, t.Size, t.Kind), o0.Key(), o1.Key(), "")
			}
		}
	case "token":
		var tkd tokenKind
		for _, k := range tokenKinds {
			if k.name == t.Kind {
				tkd = k
			}
		}
		src, _ := tkd.mk(t.Size)
		want := expectToken(t.Kind, t.Size)
		if t.Size >= 1000 {
			c.Nontrivial(1)
		}
		got, e := parse(src)
		c.Outcome("token:" + map[bool]string{true: "ok", false: "fail"}[e == "" && got == want])
		if e != "" || got != want {
			trim := func(s string) string {
				if len(s) > 120 {
					return s[:60] + "..." + s[len(s)-50:]
				}
				return s
			}
			viol("token-length/"+t.Kind+"/"+bucket(t.Size), fmt.Sprintf("%s token of %d bytes", t.Kind, t.Size), trim(want), trim(got)+e, "")
		}
	case "jargon":
		// -j puts the text of a jargon file in front of the program: a last jargon line without a final line break
		// (a comment of any length, or code) must not swallow or join the program's first line
		ending := []string{"# " + strings.Repeat("c", t.Size), "j := 1 # " + strings.Repeat("c", t.Size), "j := 1"}[t.Base]
		cli := os.Getenv("PANMC_CLI")
		dir, err := os.MkdirTemp(os.Getenv("PANMC_SCRATCH"), "c16jargon")
		if cli == "" || err != nil {
			c.HarnessError("PANMC_CLI / scratch directory missing: %v", err)
			return
		}
		defer os.RemoveAll(dir)
		os.WriteFile(dir+"/jargon.pangaea", []byte("k := 2\n"+ending), 0o644)
		os.WriteFile(dir+"/main.pangaea", []byte("\"first\".p\n[k].p\n"), 0o644)
		outs := map[string]string{}
		for _, how := range []string{"file", "oneliner"} {
			args := []string{"60", cli, "-j", "main.pangaea"}
			if how == "oneliner" {
				args = []string{"60", cli, "-j", "-e", "\"first\".p; [k].p"}
			}
			cmd := exec.Command("timeout", args...)
			cmd.Dir = dir
			cmd.Env = append(os.Environ(), "PANGAEA_JARGON_FILE="+dir+"/jargon.pangaea")
			var so, se strings.Builder
			cmd.Stdout, cmd.Stderr = &so, &se
			cmd.Run()
			outs[how] = so.String() + strings.SplitN(se.String(), "\n", 2)[0]
		}
		c.Nontrivial(1)
		want := "first\n[2]\n"
		ok := outs["file"] == want && outs["oneliner"] == want
		c.Outcome("jargon:" + map[bool]string{true: "ok", false: "differs"}[ok])
		if !ok {
			viol("jargon-last-line-without-line-break/"+bucket(t.Size), fmt.Sprintf("-j with a jargon file ending %.40q (no final line break)", ending), fmt.Sprintf("%q both as script file and as one-liner", want), fmt.Sprintf("file: %q one-liner: %q", outs["file"], outs["oneliner"]), "")
		}
	case "repl-multi":
		// the REPL's multi-line mode hands the lines it read to the parser: blanks at the ends of a line, lines of
		// blanks only and comment lines are layout (or text of a raw string), exactly as in a file
		blank := strings.Repeat(" ", t.Size)
		progs := [][]string{
			{"s := `a", "  b  ", "\tc " + blank + "`", "[s.len, s]"},
			{"xs := [", "  1,", " " + blank, "  2" + blank, "]", "xs"},
			{"x := 1   " + blank, blank + " # comment   ", "\t" + blank, "y := x + 1\t", "[x, y]"},
			{"f := {|a,", blank + " b|", blank + "  a + b" + blank, "}", "f(1,", " " + blank + "2)"},
		}
		lines := progs[t.Base]
		src := strings.Join(lines, "\n") + "\n"
		want := c.R().EvalSrc(src, "")
		if want.Kind != "value" {
			c.HarnessError("repl program is not a value as a script: %q: %s", src, want.Short())
			return
		}
		var out strings.Builder
		func() {
			defer func() {
				if p := recover(); p != nil {
					fmt.Fprintf(&out, "HOST PANIC: %v", p)
				}
			}()
			runscript.StartREPL("", strings.NewReader("multi\n"+src+"\n"), &out)
		}()
		c.Nontrivial(1)
		ok := strings.Contains(out.String(), "\n"+want.Repr+"\n") && !strings.Contains(out.String(), "Error") && !strings.Contains(out.String(), "PANIC")
		c.Outcome("repl-multi:" + map[bool]string{true: "ok", false: "differs"}[ok])
		if !ok {
			viol("repl-multi-line-mode/"+bucket(t.Size), fmt.Sprintf("lines %q entered in the REPL's multi-line mode", lines), "the value the same text has as a script: "+want.Repr, fmt.Sprintf("%.400q", out.String()), "")
		}
	case "flat":
		want, e0 := parse(flat[t.Base])
		src := render(bases[t.Base], -1, "\n")
		got, e := parse(src)
		c.Nontrivial(1)
		ok := e0 == "" && e == "" && got == want
		if ok {
			o0, o1 := c.R().EvalSrc(flat[t.Base], ""), c.R().EvalSrc(src, "")
			ok = o0.Key() == o1.Key()
			want, got = want+" => "+o0.Key(), got+" => "+o1.Key()
		}
		c.Outcome("flat:" + map[bool]string{true: "ok", false: "differs"}[ok])
		if !ok {
			viol("multi-line-spelling-differs-from-one-line-spelling", fmt.Sprintf("base %d (%q)", t.Base, bases[t.Base]), want+e0, got+e, "")
		}
	case "file":
		// a script file run by the real binary: raw strings, comments and padding with LF / CRLF / CR line breaks
		nl := map[string]string{"LF": "\n", "CRLF": "\r\n", "CR": "\r"}[t.Kind]
		raw := "ab" + nl + "cd" + nl + nl + "e"
		pad := strings.ReplaceAll(padding("mixed", t.Size), "\n", nl)
		src := "s := `" + raw + "`" + pad + "c := \"x\" # comment" + nl + "[s.len, s == \"ab\" + " + fmt.Sprintf("%q", nl) + " + \"cd\" + " + fmt.Sprintf("%q", nl+nl) + " + \"e\", c]" + pad + "|.p" + nl
		want := fmt.Sprintf("[%d, true, \"x\"]\n", len(raw))
		cli := os.Getenv("PANMC_CLI")
		if cli == "" {
			c.HarnessError("PANMC_CLI is not set")
			return
		}
		f, err := os.CreateTemp(os.Getenv("PANMC_SCRATCH"), "c16file*.pangaea")
		if err != nil {
			c.HarnessError("%v", err)
			return
		}
		defer os.Remove(f.Name())
		f.WriteString(src)
		f.Close()
		cmd := exec.Command("timeout", "60", cli, f.Name())
		var so, se strings.Builder
		cmd.Stdout, cmd.Stderr = &so, &se
		cmd.Run()
		c.Nontrivial(1)
		c.Outcome("file:" + map[bool]string{true: "ok", false: "differs"}[so.String() == want])
		if so.String() != want {
			viol("script-file/"+t.Kind+"/"+bucket(t.Size), fmt.Sprintf("script file with %s line breaks, a raw string spanning lines and %d bytes of padding", t.Kind, t.Size), fmt.Sprintf("stdout %q", want), fmt.Sprintf("stdout %q stderr %.200q", so.String(), se.String()), "")
		}
	case "lines":
		// a program made of padding lines only / a statement surrounded by padding lines, with and without a final line break
		want, e0 := parse(t.Kind)
		if e0 != "" {
			c.HarnessError("base %q does not parse: %s", t.Kind, e0)
			return
		}
		c.Nontrivial(1)
		got, e := parse(t.Src)
		c.Outcome("lines:" + map[bool]string{true: "ok", false: "fail"}[e == "" && got == want])
		if e != "" || got != want {
			end := "terminated"
			if !strings.HasSuffix(t.Src, "\n") {
				end = "last-line-unterminated"
			}
			viol("padding-lines/"+end, fmt.Sprintf("%q (base %q)", t.Src, t.Kind), want, got+e, t.Src)
		}
	case "chunk":
		src := chunkPrograms()[t.Base]
		want, e0 := parse(src)
		if e0 != "" {
			c.HarnessError("chunk program %d does not parse: %s", t.Base, e0)
			return
		}
		c.Nontrivial(1)
		got, e := parseReader(&chunkReader{data: []byte(src), sched: t.Chunks, konst: t.Const, eof: t.Eof, empty: t.Empty})
		// determinism of the harness: the same schedule twice
		got2, e2 := parseReader(&chunkReader{data: []byte(src), sched: t.Chunks, konst: t.Const, eof: t.Eof, empty: t.Empty})
		if got != got2 || e != e2 {
			c.HarnessError("chunked parse is not reproducible for %+v", t)
			return
		}
		c.Outcome("chunk:" + map[bool]string{true: "ok", false: "fail"}[e == "" && got == want])
		if e != "" || got != want {
			key := "chunking/short-reads"
			if t.Const > 0 {
				key = "chunking/constant-chunk-size"
			}
			if t.Eof > 0 {
				key = "chunking/last-bytes-delivered-with-eof"
			} else if t.Empty > 0 {
				key = "chunking/a-read-that-returns-nothing"
			}
			g := got
			if len(g) > 150 {
				g = g[:150] + "..."
			}
			viol(key, fmt.Sprintf("program %d (%d bytes) read with const=%d schedule=%v", t.Base, len(src), t.Const, t.Chunks), "same AST as one read", g+e+fmt.Sprintf(" (eof=%d empty=%d)", t.Eof, t.Empty), "")
		}
	}
}

func run(c *core.Ctx) {
	var cases []tcase
	gen(c.Thorough(), func(t tcase) { cases = append(cases, t) })
	c.Note("cases_total", len(cases))
	tk.Sharded(c, len(cases), func(i int) {
		if i%997 == 0 {
			c.Sample(cases[i])
		}
		check(c, cases[i])
	})
}

func replay(c *core.Ctx, raw json.RawMessage) {
	var t tcase
	if err := json.Unmarshal(raw, &t); err != nil {
		c.HarnessError("bad case: %v", err)
		return
	}
	check(c, t)
}
