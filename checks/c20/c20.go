// Package c20: concurrent evaluations do not race on interpreter-wide state (property C20).
// The real code runs on cooperative threads under a controlled scheduler (internal/sched); every
// interleaving of the API scenario and every schedule within a deviation (preemption) bound of the
// evaluation and start-up scenarios is enumerated; vector clocks decide data races on the symbol tables.
package c20

import (
	"encoding/json"
	"fmt"
	"net/http/httptest"
	"os"
	"os/exec"
	"regexp"
	"sort"
	"strings"

	"github.com/Syuparn/pangaea/di"
	"github.com/Syuparn/pangaea/evaluator"
	"github.com/Syuparn/pangaea/object"
	"github.com/Syuparn/pangaea/parser"
	httpbuiltin "github.com/Syuparn/pangaea/props/modules/http/builtin"
	verifrt "github.com/Syuparn/pangaea/verifrt"

	"panmc/internal/core"
	"panmc/internal/explore"
	"panmc/internal/sched"
	"panmc/internal/tk"

	"github.com/labstack/echo/v4"
)

func init() {
	core.Register(&core.Check{
		ID:    "C20",
		Level: "model_checking",
		Rule: "S1 (API seam, ALL interleavings): every assignment of operation sequences over {GetSymHash(k1), GetSymHash(k2), SymHash2Str(h1), SymHash2Str(h2), env.Items()} to 2 threads x 2 ops (thorough also 2x3 and 3x1, 3x2) on two fresh keys forced to collide; " +
			"S2 (real evaluations, deviation bound 1, thorough 2): 2-3 Evals in separate scopes of one interpreter that intern the same new identifiers, call evalEnv, decode JSON and compare/hash/print the strings the symbol table hands out; " +
			"S3 (start-up loaders, bound 1, thorough 2): pairs of the real readNativeCode bodies from the table state that exists when the start-up goroutines are spawned; " +
			"S4 (main script and handlers, bound 1, thorough 2): one evaluation assigning variables in a shared scope while 1-2 others call a handler function defined in that scope from enclosed scopes (what the HTTP module does after serve(background: true)); " +
			"S5 (the real request handlers of the http module, bound 1, thorough 2): handler objects are built by the module's own S.get/S.post in a script scope and their Go handler functions are called directly (echo context over an in-memory recorder, no server, no network) by 2 threads x 1-2 requests out of 11 (two of them carrying header and query names the interpreter has not seen, which the handler sends back), all pairs, plus every single-thread history of 2 requests; every response (status, content type, header, body) must equal the response the same request gets alone from freshly built handlers; local variables that a Go closure assigns although they are declared outside it are recorded like fields (state kept by a closure that several requests call); " +
			"the tables are restored to a snapshot before every execution; oracle: no happens-before-unordered conflicting accesses on symHashTable/strTable nor on any package-level variable that a function other than init assigns, nor on any field of a struct of a repository package (object, evaluator, ast, ...) that some statement assigns after construction (every read/write of such a field is recorded per object; at present Env.Store, PanErr.StackTrace, PanFunc.Env, PanObj.Keys/Pairs/PrivateKeys/zero; a new lazily written field is picked up automatically), SymHash2Str returns what the thread interned, Items() never panics, no deadlock, same final tables and results in every schedule; " +
			"states = schedules executed, transitions = scheduling steps; non-trivial = schedule containing a cross-thread conflicting access pair; distinct = distinct (scenario, choice vector); round 7: S2 also has two programs that catch errors raised by built-in code (exhausted built-in iterators asked again, failing built-ins, `_`).; round 8: The sync shim reports a lock value copied after its first use; S4 also runs pairs of handlers that only read shared values while expanding them into calls and literals or instantiating a shared iterator literal.",
		Assumptions: []string{
			"memory model: a data-race-free Go program is sequentially consistent; races are what is detected",
			"scheduling points are lock acquisitions and unprotected table accesses; code between two points is atomic under the cooperative scheduler",
			"the HTTP server itself is not run: handler goroutines are represented by concurrent Evals using the same seams",
		},
		Run:            run,
		Replay:         replay,
		QuickBudget:    200,
		ThoroughBudget: 1200,
	})
}

type tcase struct {
	Scenario string     `json:"scenario"`
	Threads  [][]string `json:"threads"` // S1: op names; S2: program sources; S3: native file names
	Choices  []int      `json:"choices,omitempty"`
	Bound    int        `json:"bound"`
	// FreeResults: the threads legitimately communicate through a variable one of them binds again, so their results
	// may depend on the schedule; races, deadlocks and panics are still checked (also which names get interned may then depend on the schedule)
	FreeResults bool `json:"free_results,omitempty"`
}

type world struct {
	c        *core.Ctx
	snapA    map[string]object.SymHash
	snapB    map[object.SymHash]*object.PanStr
	preParse map[string]interface{}
	alone    map[string]string
}

func newWorld(c *core.Ctx) *world {
	c.R()
	if !object.VerifHasSymTables {
		c.HarnessError("the symbol tables are not exported by the overlay (names changed?)")
		return nil
	}
	a, b := object.VerifSymTableSnapshot()
	if names := verifrt.SnapshotGlobals(); len(names) > 0 {
		c.Note("other_function_written_package_variables(restored_before_every_execution)", strings.Join(names, ","))
	}
	return &world{c: c, snapA: a, snapB: b}
}

func (w *world) reset() {
	object.VerifResetSymTables(w.snapA, w.snapB)
	verifrt.RestoreGlobals()
}

func verifrtChoose(site string, n int) int { return verifrt.Choose(site, n) }

func newKeysOnly(w *world) string {
	a, b := object.VerifSymTableSnapshot()
	var ks []string
	for k := range a {
		if _, ok := w.snapA[k]; !ok {
			ks = append(ks, k)
		}
	}
	sort.Strings(ks)
	// both tables must describe the same set
	miss := 0
	for _, h := range a {
		if _, ok := b[h]; !ok {
			miss++
		}
	}
	return fmt.Sprintf("new=%v missing_in_strTable=%d", ks, miss)
}

// ---------------------------------------------------------------- thread bodies

// objOrdinal: the per-schedule number of an object in a field location name (Type.field#n)
var objOrdinal = regexp.MustCompile(`#[0-9]+$`)

var k1, k2 = "zz_c20_key_one", "zz_c20_key_two"

// s1Body builds the body of one API thread; post-condition failures are appended to fails.
func s1Body(ops []string, fails *[]string) func() {
	return func() {
		own := map[string]object.SymHash{}
		for _, op := range ops {
			switch op {
			case "get1":
				own[k1] = object.GetSymHash(k1)
			case "get2":
				own[k2] = object.GetSymHash(k2)
			case "str1", "str2":
				k := k1
				if op == "str2" {
					k = k2
				}
				h, mine := own[k]
				if !mine {
					// look the hash up without interning (a reader of somebody else's symbol)
					h = fnv(k)
				}
				s, ok := object.SymHash2Str(h)
				if mine {
					if !ok {
						*fails = append(*fails, "SymHash2Str did not find a symbol this thread had interned: "+k)
					} else if ps, isStr := s.(*object.PanStr); !isStr || ps.Value != k {
						*fails = append(*fails, "SymHash2Str returned a wrong string for "+k)
					}
				}
			case "items":
				env := object.NewEnv()
				for k, h := range own {
					_ = k
					env.Set(h, object.BuiltInNil)
				}
				func() {
					defer func() {
						if r := recover(); r != nil {
							*fails = append(*fails, fmt.Sprintf("Env.Items panicked: %v", r))
						}
					}()
					env.Items()
				}()
			}
		}
	}
}

func fnv(s string) object.SymHash {
	const off, prime = 14695981039346656037, 1099511628211
	h := uint64(off)
	for i := 0; i < len(s); i++ {
		h ^= uint64(s[i])
		h *= prime
	}
	return h
}

func (w *world) s2Body(src string, results *[]string, idx int) func() {
	r := w.c.R()
	return func() {
		env := object.NewEnclosedEnv(r.Root)
		out := "?"
		func() {
			defer func() {
				if p := recover(); p != nil {
					out = fmt.Sprintf("PANIC %v", p)
				}
			}()
			node, err := parser.Parse(parser.NewReader(strings.NewReader(src), "c20"))
			if err != nil {
				out = "syntax: " + err.Error()
				return
			}
			v := evaluator.Eval(node, env)
			out = v.Inspect()
		}()
		(*results)[idx] = out
	}
}

const s4Setup = "zz_c20_g0 := 10\nzz_c20_handler := {|req| [zz_c20_g0, req, Int.name, zz_c20_g0 + req]}\n" +
	"zz_c20_defaults := {status: 200, body: \"x\"}\nzz_c20_list := [1, 2, 3]\nzz_c20_render := {|status: 0, body: \"\", debug: false, trace: false| [status, body, debug, trace]}\n" +
	"zz_c20_it := <{|i| yield i if i < 3; recur(i + 1)}>\nzz_c20_handler"

// envBody evaluates src in the given scope (shared or enclosed).
func (w *world) envBody(src string, env *object.Env, results *[]string, idx int) func() {
	return func() {
		out := "?"
		func() {
			defer func() {
				if p := recover(); p != nil {
					out = fmt.Sprintf("PANIC %v", p)
				}
			}()
			node, err := parser.Parse(parser.NewReader(strings.NewReader(src), "c20"))
			if err != nil {
				out = "syntax: " + err.Error()
				return
			}
			out = evaluator.Eval(node, env).Inspect()
		}()
		(*results)[idx] = out
	}
}

func genS4(thorough bool, emit func(tcase)) {
	bound := 1
	if thorough {
		bound = 2
	}
	// the main script defines new names, and binds names again that exist already and that the handlers read
	mains := []string{"zz_c20_g1 := zz_c20_g0 + 1; zz_c20_g2 := 2; zz_c20_g1", "zz_c20_other := {|| 1}; zz_c20_other()", "zz_c20_g0 := 11; zz_c20_g0 := 12; zz_c20_g0", "zz_c20_list := [4, 5]; zz_c20_defaults := {status: 404}; zz_c20_list.len"}
	handlers := []string{"zz_c20_handler(1)", "[1, 2]@{|r| zz_c20_handler(r)}"}
	// handlers that only READ values of the shared scope while building their own: keyword objects and arrays expanded
	// into calls and literals, an iterator literal instantiated, a function called by both
	readers := []string{"zz_c20_render(**zz_c20_defaults, **{debug: true})", "zz_c20_render(**zz_c20_defaults, **{trace: true})", "[*zz_c20_list, 4].len + {**zz_c20_defaults, extra: 1}.keys.len",
		"[*zz_c20_list, 5].len + %{**zz_c20_defaults, 'k: 1}.len", "zz_c20_it.new(0).A", "zz_c20_it.new(1).A",
		// shared function / iterator values turned into text or compared for the first time by the handlers
		"zz_c20_render.S.len", "\"#{zz_c20_handler} #{zz_c20_it}\".len", "[zz_c20_handler == zz_c20_render, zz_c20_render.repr.len, {f: zz_c20_render}.S.len]"}
	for i := range readers {
		for j := i; j < len(readers); j++ {
			emit(tcase{Scenario: "S4", Threads: [][]string{{mains[0]}, {readers[i]}, {readers[j]}}, Bound: 1})
		}
	}
	for mi, m := range mains {
		for _, h := range handlers {
			emit(tcase{Scenario: "S4", Threads: [][]string{{m}, {h}}, Bound: bound, FreeResults: mi >= 2})
		}
		if mi >= 2 {
			for _, h := range readers[:4] {
				emit(tcase{Scenario: "S4", Threads: [][]string{{m}, {h}}, Bound: 1, FreeResults: true})
			}
		}
	}
	emit(tcase{Scenario: "S4", Threads: [][]string{{mains[0]}, {handlers[0]}, {handlers[0]}}, Bound: 1})
	// two evaluations in the shared scope itself binding the same existing name again (thread 1 runs in an enclosed scope:
	// its assignment is its own, its reads go to the shared scope)
	emit(tcase{Scenario: "S4", Threads: [][]string{{mains[2]}, {"zz_c20_g0 + 1"}, {"zz_c20_g0 := 5; zz_c20_g0"}}, Bound: 1, FreeResults: true})
}

// ---------------------------------------------------------------- S5: the http module's request handlers

const s5Setup = "invite!(\"http\")\nzz_users := [{id: \"1\", name: \"Taro\"}, {id: \"2\", name: \"Jiro\"}]\n" +
	"zz_h1 := S.get(\"/users/:id\") {|req| zz_users.find {|u| u.id == req.params.id} || Response.new(status: 404, body: \"not found\")}\n" +
	"zz_h2 := S.post(\"/echo\") {|req| req.body + \"!\"}\n" +
	"zz_h3 := S.put(\"/made/:k\") {|req| Response.new(status: 200 + req.params.k.I, body: \"made\", headers: {\"X-A\": req.params.k})}\n" +
	"zz_h4 := S.get(\"/json\") {|req| {n: req.queries.n, h: req.headers['Accept]}}\n" +
	"zz_h5 := S.delete(\"/gone\") {|req| Response.new(status: 204)}\n" +
	"zz_h6 := S.get(\"/corr\") {|req| Response.new(body: req.headers.keys.S + req.queries.keys.S, headers: {**req.headers@({}){|k, v| [k, v[0]]}})}\nzz_h1"

type s5req struct{ handler, method, url, params, body, hdr string }

var s5reqs = map[string]s5req{
	"u1":    {"zz_h1", "GET", "/users/1", "id=1", "", ""},
	"u2":    {"zz_h1", "GET", "/users/2", "id=2", "", ""},
	"u9":    {"zz_h1", "GET", "/users/9", "id=9", "", ""},
	"echoA": {"zz_h2", "POST", "/echo", "", "aaa", ""},
	"echoB": {"zz_h2", "POST", "/echo", "", "b", ""},
	"made1": {"zz_h3", "PUT", "/made/1", "k=1", "", ""},
	"made0": {"zz_h3", "PUT", "/made/0", "k=0", "", ""},
	"json":  {"zz_h4", "GET", "/json?n=5", "", "", ""},
	"gone":  {"zz_h5", "DELETE", "/gone", "", "", ""},
	// requests that carry a header / query name the interpreter has not seen yet; the handler sends the headers back
	"corrA": {"zz_h6", "GET", "/corr?zzq5_fresh=1", "", "", "X-Zz5-Corr=a1"},
	"corrB": {"zz_h6", "GET", "/corr?zzq5_fresh=2", "", "", "X-Zz5-Corr=b2"},
}

var s5names = []string{"u1", "u2", "u9", "echoA", "echoB", "made1", "made0", "json", "gone", "corrA", "corrB"}

func s5Call(h echo.HandlerFunc, rq s5req) string {
	e := echo.New()
	var body *strings.Reader
	req := httptest.NewRequest(rq.method, rq.url, nil)
	if rq.body != "" {
		body = strings.NewReader(rq.body)
		req = httptest.NewRequest(rq.method, rq.url, body)
	}
	req.Header.Set("Accept", "text/x-"+rq.method)
	if rq.hdr != "" {
		kv := strings.SplitN(rq.hdr, "=", 2)
		req.Header.Set(kv[0], kv[1])
	}
	rec := httptest.NewRecorder()
	c := e.NewContext(req, rec)
	if rq.params != "" {
		kv := strings.SplitN(rq.params, "=", 2)
		c.SetParamNames(kv[0])
		c.SetParamValues(kv[1])
	}
	err := h(c)
	return fmt.Sprintf("%d ct=%s xa=%s corr=%s body=%q err=%v", rec.Code, rec.Header().Get("Content-Type"), rec.Header().Get("X-A"), rec.Header().Get("X-Zz5-Corr"), rec.Body.String(), err)
}

func (w *world) s5Body(hs map[string]echo.HandlerFunc, names []string, results *[]string, idx int) func() {
	return func() {
		var outs []string
		for _, n := range names {
			out := "?"
			func() {
				defer func() {
					if p := recover(); p != nil {
						out = fmt.Sprintf("PANIC %v", p)
					}
				}()
				rq := s5reqs[n]
				out = n + " -> " + s5Call(hs[rq.handler], rq)
			}()
			outs = append(outs, out)
		}
		(*results)[idx] = strings.Join(outs, " ; ")
	}
}

// s5Handlers builds fresh handler objects in a fresh script scope.
func (w *world) s5Handlers() map[string]echo.HandlerFunc {
	main := object.NewEnclosedEnv(w.c.R().Root)
	if o := w.c.R().EvalSrcIn(main, s5Setup, ""); o.Kind != "value" {
		w.c.HarnessError("S5 set-up failed: %s", o.Short())
		return nil
	}
	hs := map[string]echo.HandlerFunc{}
	for _, n := range []string{"zz_h1", "zz_h2", "zz_h3", "zz_h4", "zz_h5", "zz_h6"} {
		v, ok := main.Get(object.GetSymHash(n))
		if !ok {
			w.c.HarnessError("S5: %s is not defined", n)
			return nil
		}
		h, ok := httpbuiltin.VerifHandlerFunc(v)
		if !ok {
			w.c.HarnessError("S5: %s is not a handler object (%s)", n, v.Inspect())
			return nil
		}
		hs[n] = h
	}
	return hs
}

// s5Alone is what a request is answered with when it is the only request freshly built handlers ever get.
func (w *world) s5Alone(name string) string {
	if v, ok := w.alone[name]; ok {
		return v
	}
	hs := w.s5Handlers()
	if hs == nil {
		return "?"
	}
	res := make([]string, 1)
	w.s5Body(hs, []string{name}, &res, 0)()
	if w.alone == nil {
		w.alone = map[string]string{}
	}
	w.alone[name] = res[0]
	return res[0]
}

// s5AloneCached returns the pre-computed lone answer (computed before the exploration starts: building handlers
// inside an execution would disturb the tables the execution is about to use).
func (w *world) s5AloneCached(name string) string { return w.alone[name] }

func genS5(thorough bool, emit func(tcase)) {
	bound := 1
	if thorough {
		bound = 2
	}
	// every single-thread history of two requests (what an earlier request leaves behind for a later one)
	for _, a := range s5names {
		for _, b := range s5names {
			emit(tcase{Scenario: "S5", Threads: [][]string{{a, b}}, Bound: 0})
		}
	}
	for i, a := range s5names {
		for _, b := range s5names[i:] {
			bd := 1
			if s5reqs[a].handler == s5reqs[b].handler {
				bd = bound // two requests to one handler share its closure: the deeper bound goes there
			}
			emit(tcase{Scenario: "S5", Threads: [][]string{{a}, {b}}, Bound: bd})
		}
	}
	// two requests per thread on the handlers that answer with and without a status of their own
	for _, p := range [][2][]string{{{"corrA", "corrA"}, {"corrB"}}, {{"corrA"}, {"corrA"}}, {{"u9", "u1"}, {"u2", "u9"}}, {{"made1", "made0"}, {"made0", "made1"}}, {{"u9", "echoA"}, {"echoB", "u1"}}} {
		emit(tcase{Scenario: "S5", Threads: [][]string{p[0], p[1]}, Bound: 1})
	}
	if thorough {
		emit(tcase{Scenario: "S5", Threads: [][]string{{"u9"}, {"u1"}, {"u2"}}, Bound: 1})
	}
}

func (w *world) s3Body(name string, env *object.Env, results *[]string, idx int) func() {
	return func() {
		out := "?"
		func() {
			defer func() {
				if p := recover(); p != nil {
					out = fmt.Sprintf("PANIC %v", p)
				}
			}()
			pairs, err := di.VerifReadNativeCode(name, env)
			if err != nil {
				out = "error: " + err.Error()
				return
			}
			ks := make([]string, 0, len(*pairs))
			for _, p := range *pairs {
				ks = append(ks, p.Key.Inspect())
			}
			sort.Strings(ks)
			out = strings.Join(ks, ",")
		}()
		(*results)[idx] = out
	}
}

// ---------------------------------------------------------------- exploration of one scenario instance

type obs struct {
	res     sched.Result
	fails   []string
	results []string
	tables  string
}

func (w *world) execute(t tcase, trace bool) obs {
	w.reset()
	var fails []string
	results := make([]string, len(t.Threads))
	var bodies []func()
	switch t.Scenario {
	case "S1":
		for _, ops := range t.Threads {
			bodies = append(bodies, s1Body(ops, &fails))
		}
	case "S2":
		for i, th := range t.Threads {
			bodies = append(bodies, w.s2Body(th[0], &results, i))
		}
	case "S4":
		// the main script goes on in its (global) scope while request handlers defined there run: thread 0 evaluates
		// in the shared scope itself, the others call a handler from an enclosed scope of it
		main := object.NewEnclosedEnv(w.c.R().Root)
		if o := w.c.R().EvalSrcIn(main, s4Setup, ""); o.Kind != "value" {
			w.c.HarnessError("S4 set-up failed: %s", o.Short())
		}
		for i, th := range t.Threads {
			if i == 0 {
				bodies = append(bodies, w.envBody(th[0], main, &results, i))
			} else {
				bodies = append(bodies, w.envBody(th[0], object.NewEnclosedEnv(main), &results, i))
			}
		}
	case "S5":
		hs := w.s5Handlers()
		if hs == nil {
			return obs{}
		}
		for i, th := range t.Threads {
			bodies = append(bodies, w.s5Body(hs, th, &results, i))
		}
	case "S3":
		env := object.NewEnvWithConsts()
		for i, th := range t.Threads {
			bodies = append(bodies, w.s3Body(th[0], env, &results, i))
		}
	}
	s := sched.New(bodies, trace)
	// the explorer owns the choice: the scheduler asks verifrt.Choose through this closure
	verifrt.TakeMisuse()
	res := s.Run(chooseFn)
	for _, m := range verifrt.TakeMisuse() {
		fails = append(fails, "lock misuse: "+m)
	}
	return obs{res: res, fails: fails, results: results, tables: newKeysOnly(w)}
}

var chooseFn func(site string, n int) int

func (w *world) explore(t tcase, maxExec int) {
	c := w.c
	if t.Scenario == "S5" {
		if !httpbuiltin.VerifHasHandler {
			c.HarnessError("the http module's handler object is not exported by the overlay (type or field renamed?)")
			return
		}
		for _, th := range t.Threads {
			for _, n := range th {
				if _, ok := w.alone[n]; !ok {
					w.reset()
					w.s5Alone(n)
				}
			}
		}
	}
	var cur obs
	var base *obs
	reported := map[string]bool{}
	viol := func(key, exp, got string, x *explore.Exec) {
		if reported[key] {
			return
		}
		reported[key] = true
		tc := t
		tc.Choices = append([]int{}, x.Choices...)
		// replay the schedule twice with tracing before believing it
		r1 := w.replayOnce(tc)
		r2 := w.replayOnce(tc)
		if r1 != r2 {
			c.HarnessError("schedule does not reproduce: %s vs %s", r1, r2)
			return
		}
		c.Violation(core.Violation{Key: t.Scenario + "/" + key, Case: core.JSON(tc), Desc: describe(t) + fmt.Sprintf(" schedule=%v", compact(x)), Expected: exp, Observed: got + " | replay: " + r1})
	}
	filter := func(p explore.Point) bool { return p.Site == "sched" }
	st, div := explore.Explore(t.Bound, maxExec, filter, func() {
		chooseFn = func(site string, n int) int {
			return verifrtChoose(site, n)
		}
		cur = w.execute(t, false)
	}, func(x *explore.Exec) bool {
		if c.Expired() {
			// the internal deadline also ends an exploration that is under way (what was explored is counted)
			c.Incomplete(fmt.Sprintf("%s: stopped at the internal deadline at bound %d", describe(t), t.Bound))
			return false
		}
		c.Eval(1)
		c.State(1)
		c.Transition(cur.res.Steps)
		c.Validated(1)
		if cur.res.Conflicts > 0 {
			c.Nontrivial(1)
		}
		c.Outcome(fmt.Sprintf("%s:races=%v:switches=%d", t.Scenario, len(cur.res.Races) > 0, min(cur.res.Switches, 4)))
		if len(cur.res.Races) > 0 {
			r := cur.res.Races[0]
			viol("data-race/"+objOrdinal.ReplaceAllString(r.Table, "")+"/"+strip(r.A)+"-vs-"+strip(r.B), "every conflicting pair of accesses to "+r.Table+" ordered by the lock", fmt.Sprintf("%s and %s are unordered (%d racy pairs in this schedule)", r.A, r.B, len(cur.res.Races)), x)
		}
		if cur.res.Deadlock {
			viol("deadlock", "all threads finish", "no enabled thread while some are unfinished", x)
		}
		for _, p := range cur.res.Panics {
			viol("thread-panic", "no panic", p, x)
		}
		for _, f := range cur.fails {
			viol("postcondition/"+firstWords(f, 4), "post-condition holds", f, x)
		}
		if t.Scenario == "S5" {
			for i, th := range t.Threads {
				var want []string
				for _, n := range th {
					want = append(want, w.s5AloneCached(n))
				}
				if exp := strings.Join(want, " ; "); i < len(cur.results) && cur.results[i] != exp {
					viol("response-differs-from-the-request-alone/"+strings.Join(th, "+"), exp, cur.results[i], x)
				}
			}
		}
		if base == nil {
			b := cur
			base = &b
		} else {
			if cur.tables != base.tables && !t.FreeResults {
				viol("final-tables-depend-on-schedule", base.tables, cur.tables, x)
			}
			if t.Scenario != "S1" && !t.FreeResults && strings.Join(cur.results, "|") != strings.Join(base.results, "|") {
				viol("results-depend-on-schedule", strings.Join(base.results, "|"), strings.Join(cur.results, "|"), x)
			}
		}
		return true
	})
	if div != "" {
		c.HarnessError("%s: %s", describe(t), div)
	}
	if st.Capped {
		c.Incomplete(fmt.Sprintf("%s: execution cap %d reached at bound %d", describe(t), maxExec, t.Bound))
	}
	c.Counter(t.Scenario+"_schedules", int64(st.Executions))
}

func min(a, b int) int {
	if a < b {
		return a
	}
	return b
}

func strip(s string) string {
	s = strings.ReplaceAll(s, " ", "-")
	return strings.Map(func(r rune) rune {
		if r >= '0' && r <= '9' {
			return -1
		}
		return r
	}, s)
}

func firstWords(s string, n int) string {
	w := strings.Fields(s)
	if len(w) > n {
		w = w[:n]
	}
	return strings.Join(w, "-")
}

func compact(x *explore.Exec) []string {
	var out []string
	for i, c := range x.Choices {
		if c != 0 {
			out = append(out, fmt.Sprintf("@%d:%d", i, c))
		}
	}
	return out
}

func describe(t tcase) string {
	var th []string
	for _, ops := range t.Threads {
		s := strings.Join(ops, ",")
		if len(s) > 60 {
			s = s[:60] + "..."
		}
		th = append(th, "["+s+"]")
	}
	return t.Scenario + " " + strings.Join(th, " || ")
}

func (w *world) replayOnce(t tcase) string {
	var o obs
	_, div := explore.Run(t.Choices, nil, func() {
		chooseFn = func(site string, n int) int { return verifrtChoose(site, n) }
		o = w.execute(t, true)
	})
	if div != "" {
		return "DIVERGED " + div
	}
	tr := o.res.Trace
	if len(tr) > 14 {
		tr = append(append([]string{}, tr[:7]...), append([]string{"..."}, tr[len(tr)-6:]...)...)
	}
	return fmt.Sprintf("races=%d deadlock=%v fails=%v trace=%v", len(o.res.Races), o.res.Deadlock, o.fails, tr)
}

// ---------------------------------------------------------------- scenario generation

var s1ops = []string{"get1", "get2", "str1", "str2", "items"}

func seqs(n int) [][]string {
	if n == 0 {
		return [][]string{{}}
	}
	var out [][]string
	for _, rest := range seqs(n - 1) {
		for _, o := range s1ops {
			out = append(out, append([]string{o}, rest...))
		}
	}
	return out
}

func useful(ops []string) bool {
	// a thread that only reads symbols nobody interned adds nothing: require that the whole case interns
	for _, o := range ops {
		if strings.HasPrefix(o, "get") {
			return true
		}
	}
	return false
}

func genS1(thorough bool, emit func(tcase)) {
	shapes := [][2]int{{2, 2}}
	if thorough {
		shapes = append(shapes, [2]int{2, 3}, [2]int{3, 1}, [2]int{3, 2})
	} else {
		shapes = append(shapes, [2]int{3, 1})
	}
	for _, sh := range shapes {
		nt, no := sh[0], sh[1]
		all := seqs(no)
		var rec func(th [][]string)
		rec = func(th [][]string) {
			if len(th) == nt {
				any := false
				for _, ops := range th {
					if useful(ops) {
						any = true
					}
				}
				if any {
					emit(tcase{Scenario: "S1", Threads: append([][]string{}, th...), Bound: 1 << 20})
				}
				return
			}
			for _, s := range all {
				// symmetry: thread order is irrelevant, keep non-decreasing sequences
				if len(th) > 0 && strings.Join(s, ",") < strings.Join(th[len(th)-1], ",") {
					continue
				}
				rec(append(th, s))
			}
		}
		rec(nil)
	}
}

var s2programs = []string{
	"zz_c20_a := 1; zz_c20_b := zz_c20_a + 1; zz_c20_b",
	"\"zz_c20_a := 1; zz_c20_c := 2\".evalEnv.keys",
	"JSON.dec(`{\"zz_c20_a\": 1, \"zz_c20_d\": 2}`).keys",
	"{zz_c20_b: 1, zz_c20_e: 2}.keys",
	// a call wider than any earlier call of the process (arity-indexed interpreter state, argument variables \9, \10 ...)
	"{|a, b, c, d, e, f, g, h, i, j, k, l| [\\1, \\9, \\10, \\12, \\0.len]}(1, 2, 3, 4, 5, 6, 7, 8, 9, 10, 11, 12)",
	// standard modules loaded for the first time; shared built-in prototypes compared, listed and printed
	"[import(\"dummy_native\").keys, import(\"dummy\").keys]",
	"[Int == Int, Kernel == Obj, [Comparable, Kernel, Iterable, JSON, Diamond, Num, Nil, Err, ValueErr, Obj, Range, Map]@{|pr| pr == pr}, Int.keys.len, Arr.S.len, Obj.items.len]",
	// strings handed out by the interpreter-wide symbol table used as values: compared, hashed as map keys, printed
	"k := \"zz_c20_a := 1; zz_c20_c := 2\".evalEnv.keys; [k[0] == \"zz_c20_a\", %{k[1]: 1}[k[1]], k[0] + k[1], k.S]",
	// errors raised by built-in code and caught: exhausted built-in iterators asked again, failing built-ins, the `_` object
	// (an error object kept by the interpreter and handed to several evaluations would be written by each of them)
	"it := [1]._iter; it.next; [nil.try.{|u| it.next}.err.msg, nil.try.{|u| (1:1)._iter.next}.err.msg, nil.try.{|u| \"\"._iter.next}.err.msg, nil.try.{|u| {}._iter.next}.err.msg, nil.try.{|u| %{}._iter.next}.err.msg]",
	// indexing, slicing, reversing and stepping strs and arrays of different lengths (scratch space kept by the interpreter
	// for such operations would be shared by the evaluations)
	"s := \"aaaaaaaaaaaaaaaaaaaaaaaaaaaaaaaa\"; [s[0], s[31], s[3:9], s[::-1].len, s.len, (s[0]:\"d\").A, s@{|c| c}.len, [1, 2, 3][1:], [1, 2, 3][::-1]]",
	"s := \"日本語日本語\"; [s[0], s[5], s[1:3], s[::-1], s.len, s._incBy(1), s@{|c| c}.len, [9, 8][0], [9, 8][::-1]]",
	"[nil.try.{|u| 1 / 0}.err.msg, nil.try.{|u| nil.zz_c20_nope}.err.msg, nil.try.{|u| _}.err.msg, nil.try.{|u| [1].withI.{|w| w.next; w.next}}.err.msg, nil.try.{|u| zz_c20_undefined}.err.msg]",
}

func genS2(thorough bool, emit func(tcase)) {
	bound := 1
	if thorough {
		bound = 2
	}
	for i := range s2programs {
		for j := i; j < len(s2programs); j++ {
			emit(tcase{Scenario: "S2", Threads: [][]string{{s2programs[i]}, {s2programs[j]}}, Bound: bound})
		}
	}
	emit(tcase{Scenario: "S2", Threads: [][]string{{s2programs[0]}, {s2programs[1]}, {s2programs[2]}}, Bound: 1})
}

func genS3(thorough bool, emit func(tcase)) {
	bound := 1
	pairs := [][]string{{"Comparable", "Num"}, {"Diamond", "EitherVal"}, {"Num", "Int"}, {"Wrappable", "EitherErr"}}
	if thorough {
		pairs = append(pairs, []string{"Either", "Func"}, []string{"Float", "Range"}, []string{"Comparable", "Num", "Diamond"})
	}
	for _, p := range pairs {
		var th [][]string
		for _, n := range p {
			th = append(th, []string{n})
		}
		emit(tcase{Scenario: "S3", Threads: th, Bound: bound})
	}
}

func run(c *core.Ctx) {
	w := newWorld(c)
	if w == nil {
		return
	}
	if !di.VerifHasReadNative {
		c.HarnessError("readNativeCode is not exported by the overlay (name or signature changed?)")
		return
	}
	var cases []tcase
	genS1(c.Thorough(), func(t tcase) { cases = append(cases, t) })
	nS1 := len(cases)
	genS2(c.Thorough(), func(t tcase) { cases = append(cases, t) })
	genS3(c.Thorough(), func(t tcase) { cases = append(cases, t) })
	genS4(c.Thorough(), func(t tcase) { cases = append(cases, t) })
	genS5(c.Thorough(), func(t tcase) { cases = append(cases, t) })
	c.Note("S1_thread_assignments", nS1)
	c.Note("scenario_instances", len(cases))
	tk.Sharded(c, len(cases), func(i int) {
		t := cases[i]
		capExec := 200000
		if t.Scenario != "S1" {
			capExec = c.Pick(6000, 400000)
		}
		if i%37 == 0 || t.Scenario != "S1" && i%3 == 0 {
			c.Sample(map[string]interface{}{"scenario": t.Scenario, "threads": t.Threads, "bound": t.Bound})
		}
		w.explore(t, capExec)
	})
	w.reset()
	if bin := os.Getenv("PANMC_RACEBIN"); bin != "" && c.Shard == 0 {
		raceComplement(c, bin)
	}
}

// raceComplement runs the free-running -race build; a race it reports that the explorer did not predict
// is a harness error (the explorer's model of the synchronisation would be wrong).
func raceComplement(c *core.Ctx, bin string) {
	cmd := exec.Command(bin)
	cmd.Env = append(os.Environ(), "GORACE=halt_on_error=1 exitcode=66")
	out, err := cmd.CombinedOutput()
	raced := strings.Contains(string(out), "WARNING: DATA RACE")
	c.Note("race_complement", map[string]interface{}{"ran": true, "race_reported": raced, "exit_error": fmt.Sprint(err)})
	if raced {
		predicted := false
		for k := range c.ViolationKeys() {
			if strings.Contains(k, "data-race") {
				predicted = true
			}
		}
		if !predicted {
			tail := string(out)
			if len(tail) > 1500 {
				tail = tail[:1500]
			}
			c.HarnessError("the free-running -race build reports a data race that the explorer did not predict:\n%s", tail)
		}
	}
}

func replay(c *core.Ctx, raw json.RawMessage) {
	var t tcase
	if err := json.Unmarshal(raw, &t); err != nil {
		c.HarnessError("bad case: %v", err)
		return
	}
	w := newWorld(c)
	if w == nil {
		return
	}
	c.Eval(1)
	// re-explore the instance (the recorded choice vector is in the replay file for inspection)
	w.explore(t, 200000)
	w.reset()
}
