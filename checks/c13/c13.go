// Package c13: try/Either captures exactly the error that would have been raised (property C13).
// Fault enumeration: every chain of <=N steps over a step alphabet (with failures of every error
// kind at every position) x receivers x accessors; oracle = the unwrapped chain run in the same batch.
package c13

import (
	"encoding/json"
	"fmt"
	"regexp"
	"sort"
	"strings"

	"github.com/Syuparn/pangaea/object"

	"panmc/internal/core"
	"panmc/internal/panrun"
	"panmc/internal/tk"
)

func init() {
	core.Register(&core.Check{
		ID:    "C13",
		Level: "fault_enumeration",
		Rule: "name sweep: every identifier-named property reachable along the prototype chain of 10 receivers (discovered at run time) as a one-step chain under every accessor - names that the Either objects answer themselves on the unchanged tree are the known proxy class, any other name must reach the value; " +
			"all chains of <=2 (thorough <=3 over a reduced alphabet) steps over a 33-step alphabet (property calls with arguments, operator property calls, user methods, absent and non-callable properties, literal calls returning value/nil, " +
			"raising each of 11 error kinds explicitly and failing naturally, variable call) x 6 receivers x 11 accessors, plus the chain without any step over 13 receivers (incl. results of earlier try chains, successful and failed, a function, prototypes); each wrapped chain `v.try.s1.s2.acc` is compared with what the outcome of the plain chain `v.s1.s2` (same batch) implies, including the stdout trace (skip after failure); " +
			"non-trivial = chain with at least one failing step or an accessor that distinguishes value from error; distinct = distinct (receiver, steps, accessor); round 7: Receivers also include children of a concrete int and str that carry the object's own methods, and a map with a key spelled like a property (known finding).; round 8: One try chain written once is evaluated for receivers r1, r2, r1 (132 chains x 4 accessors x 20 receiver pairs); steps are also called with nil arguments.",
		Assumptions: []string{
			"steps named like the Either API itself (val, err, A, or, ...) are not generated; infix operators applied to the wrapper are not of the form v.try.f and are not generated",
		},
		Run:    run,
		Replay: replay,
	})
}

const prelude = `oo := {pair: m{|a, b| "up".p; [a, b]}, div: m{|a, b| "ud".p; 100 / b}, v: 1, f: m{|x| "uf".p; x}, bad: m{"ub".p; raise ValueErr.new("vm")}, w: m{{v: 2}}, err1: m{1.try.{|n| raise TypeErr.new("captured")}.err}, kw: m{|a, k: 0| "uk".p; raise ValueErr.new("kbig") if k > 5; a + k}}
n5 := 5.bear(oo)
sa := "a".bear(oo)
mp := %{"len": 5, "foo": 6}
idf := {|x| "vc".p; x}
altf := {|e| "alternative called".p; 5}
ew := 1.try./(0).err
ev := 5.try
ee := 5.try./(0)
een := nil.try.{|x| raise TypeErr.new("inner")}
`

type step struct {
	Src string `json:"src"`
	Tag string `json:"tag,omitempty"` // wrapper-defined | absent | noncallable | multi-param-literal
	Obj bool   `json:"obj,omitempty"` // only meaningful on the object receiver
}

var errKinds = []string{"Err", "AssertionErr", "FileNotFoundErr", "NameErr", "NoPropErr", "NotImplementedErr", "StopIterErr", "SyntaxErr", "TypeErr", "ValueErr", "ZeroDivisionErr"}

func alphabet() []step {
	a := []step{
		{Src: ".+(1)"}, {Src: "./(0)"}, {Src: ".*(2)"}, {Src: ".len"}, {Src: ".S", Tag: "wrapper-defined"}, {Src: ".keys", Tag: "wrapper-defined"},
		{Src: ".foo", Tag: "absent"}, {Src: ".v", Tag: "noncallable", Obj: true}, {Src: ".bad", Obj: true}, {Src: ".f(7)", Obj: true}, {Src: ".w", Obj: true},
		{Src: `.{|x| "s".p; x}`}, {Src: `.{|x| "s".p; nil}`}, {Src: `.{|x| "s".p; [x]}`}, {Src: `.{|x| "s".p; 1 / 0}`}, {Src: `.{|x| "s".p; x.nosuch}`}, {Src: ".^idf"},
		{Src: `.{|x| "s".p; x + 1}`},
		// a natural failure of a kind no literal raise produces (FileNotFoundErr)
		{Src: `.{|x| "s".p; import("zz_c13_missing_module")}`},
		// a literal with several parameters: an array receiver is spread over them
		{Src: `.{|a, b| "s".p; [b, a]}`, Tag: "multi-param-literal"},
		// a step that SUCCEEDS and returns an error object (an ordinary value); steps returning Either values are not
		// generated: later steps of the plain chain would then run on an Either, which is no plain baseline
		{Src: `.{|x| "s".p; ew}`}, {Src: `.{|x| "s".p; [ew]}`}, {Src: ".err1", Obj: true},
		// steps with keyword arguments (they must reach the callee)
		// nil among the arguments of a step keeps its position
		{Src: ".pair(nil, 2)", Obj: true}, {Src: ".pair(1, nil)", Obj: true}, {Src: ".div(nil, 0)", Obj: true}, {Src: ".pair(nil, nil)", Obj: true},
		{Src: ".kw(1, k: 2)", Obj: true}, {Src: ".kw(1, k: 10)", Obj: true}, {Src: ".kw(1)", Obj: true}, {Src: `.split(sep: ",")`}, {Src: `.join(sep: "-")`},
	}
	for i, k := range errKinds {
		a = append(a, step{Src: fmt.Sprintf(`.{|x| "s".p; raise %s.new("m%d")}`, k, i)})
	}
	// the same error kind with other messages, raised by the interpreter itself and by the program (what was captured is
	// THIS error, not an earlier one of its kind)
	a = append(a, step{Src: `.{|x| []._iter.next}`}, step{Src: `.{|x| raise StopIterErr.new("custom stop")}`}, step{Src: `.{|x| raise ZeroDivisionErr.new("custom zero")}`}, step{Src: `.{|x| nil.zz_c13_other}`})
	return a
}

// deep (thorough tier): 3-step chains over a larger alphabet
var deep bool

func reducedAlphabet() []step {
	if deep {
		a := alphabet()
		var out []step
		for i, s := range a {
			// keep one raise per three error kinds to bound the cube
			if strings.Contains(s.Src, "raise") && i%3 != 0 {
				continue
			}
			out = append(out, s)
		}
		return out
	}
	return reducedAlphabetQuick()
}

func reducedAlphabetQuick() []step {
	return []step{{Src: ".+(1)"}, {Src: "./(0)"}, {Src: ".foo", Tag: "absent"}, {Src: ".S", Tag: "wrapper-defined"}, {Src: `.{|x| "s".p; x}`}, {Src: `.{|x| "s".p; nil}`},
		{Src: `.{|x| "s".p; raise TypeErr.new("m7")}`}, {Src: `.{|x| "s".p; 1 / 0}`}, {Src: ".^idf"}, {Src: ".bad", Obj: true}, {Src: ".v", Tag: "noncallable", Obj: true}}
}

// n5 / sa: children of a concrete int / str that carry oo's own methods (the wrapper reaches a property of the
// value through the value's own indexing, which for ints and strs is not the plain property search)
// mp: a map one of whose keys is spelled like a property of maps (the wrapper indexes the value with the step name)
var receivers = []string{"5", `"a"`, "[1, 2]", "oo", "nil", "ew", "n5", "sa", "mp"}

func hasOwnProps(recv string) bool { return recv == "oo" || recv == "n5" || recv == "sa" }

type accessor struct {
	Src string
	// expected result given the plain outcome
	fn func(isErr bool, v, kind, msg string) (val string, errK, errM string)
}

func ew(kind, msg string) string { return "[" + kind + ": " + msg + "]" }

var accessors = []accessor{
	{".val", func(e bool, v, k, m string) (string, string, string) {
		if e {
			return "nil", "", ""
		}
		return v, "", ""
	}},
	{".err", func(e bool, v, k, m string) (string, string, string) {
		if e {
			return ew(k, m), "", ""
		}
		return "nil", "", ""
	}},
	{".A", func(e bool, v, k, m string) (string, string, string) {
		if e {
			return "[nil, " + ew(k, m) + "]", "", ""
		}
		return "[" + v + ", nil]", "", ""
	}},
	{".or(99)", func(e bool, v, k, m string) (string, string, string) {
		if e {
			return "99", "", ""
		}
		return v, "", ""
	}},
	// the alternative is handed back as it is, also when it is a function (it is not called)
	{".or(altf) == altf", func(e bool, v, k, m string) (string, string, string) { return fmt.Sprint(e), "", "" }},
	{".val?", func(e bool, v, k, m string) (string, string, string) { return fmt.Sprint(!e && v != "nil"), "", "" }},
	{".err?", func(e bool, v, k, m string) (string, string, string) { return fmt.Sprint(e), "", "" }},
	{".catch(TypeErr) {|e| 77}.A", func(e bool, v, k, m string) (string, string, string) {
		if e && k == "TypeErr" {
			return "[77, nil]", "", ""
		}
		if e {
			return "[nil, " + ew(k, m) + "]", "", ""
		}
		return "[" + v + ", nil]", "", ""
	}},
	{".ignore(ZeroDivisionErr).A", func(e bool, v, k, m string) (string, string, string) {
		if e && k == "ZeroDivisionErr" {
			return "[nil, nil]", "", ""
		}
		if e {
			return "[nil, " + ew(k, m) + "]", "", ""
		}
		return "[" + v + ", nil]", "", ""
	}},
	{".abandon", func(e bool, v, k, m string) (string, string, string) {
		if e {
			return "", k, m
		}
		return v, "", ""
	}},
	{".err.msg", func(e bool, v, k, m string) (string, string, string) {
		if e {
			return object.NewPanStr(m).Inspect(), "", "" // printed the way the interpreter prints a str (no escaping of backslashes)
		}
		return "", "NoPropErr", "*"
	}},
	{".end", func(e bool, v, k, m string) (string, string, string) {
		if e {
			return "[nil, " + ew(k, m) + "]", "", ""
		}
		return "[" + v + ", nil]", "", ""
	}},
}

type tcase struct {
	Recv  string `json:"recv"`
	Steps []step `json:"steps"`
	Acc   int    `json:"acc"`
	// again family: the chain is written once inside a function and evaluated for each receiver in turn
	Again []string `json:"again,omitempty"`
}

func (t tcase) againSrc() string {
	var rows []string
	for _, r := range t.Again {
		rows = append(rows, fmt.Sprintf("[nil.try.{|u| g(%s)}.A, nil.try.{|u| f(%s)}.A]", r, r))
	}
	return "f := {|v| v.try" + t.chain() + accessors[t.Acc].Src + "}\ng := {|v| v" + t.chain() + "}\n[" + strings.Join(rows, ", ") + "]"
}

func (t tcase) chain() string {
	var sb strings.Builder
	for _, s := range t.Steps {
		sb.WriteString(s.Src)
	}
	return sb.String()
}

func (t tcase) plain() string   { return t.Recv + t.chain() }
func (t tcase) wrapped() string { return t.Recv + ".try" + t.chain() + accessors[t.Acc].Src }

func keyOf(t tcase, class string, plain, w panrun.Obs) string {
	tag := ""
	// dynamic: the plain chain fails with "property `x` is not defined" and the wrapper reports `call`
	if plain.Kind == "error" && plain.ErrKind == "NoPropErr" && strings.Contains(w.Repr+w.ErrMsg, "property `call` is not defined") &&
		!strings.Contains(plain.ErrMsg, "`call`") {
		tag = "absent-property-step"
	}
	if t.Recv == "mp" {
		for _, s := range t.Steps {
			if s.Src == ".len" || s.Src == ".foo" {
				tag = "value-indexing-finds-an-element"
			}
		}
	}
	for _, s := range t.Steps {
		switch s.Tag {
		case "wrapper-defined":
			tag = "step-name-defined-on-wrapper"
		case "noncallable":
			if tag != "step-name-defined-on-wrapper" {
				tag = "non-callable-property-step"
			}
		case "absent":
			if tag == "" {
				tag = "absent-property-step"
			}
		case "multi-param-literal":
			if tag == "" {
				tag = "multi-parameter-literal-step-on-array"
			}
		}
	}
	if tag == "" && strings.HasPrefix(t.Recv, "{|") && len(t.Steps) == 1 && sweepName.MatchString(strings.TrimPrefix(t.Steps[0].Src, ".")) && plain.Kind == "value" {
		tag = "function-receiver" // a function value cannot be indexed with the step name (known finding)
	}
	if tag != "" {
		return "proxy/" + tag
	}
	return "commutation/" + class + "/" + strings.TrimLeft(strings.SplitN(accessors[t.Acc].Src, "(", 2)[0], ".")
}

func judge(c *core.Ctx, t tcase, plain, w panrun.Obs) {
	c.Validated(1)
	if len(t.Steps) == 0 {
		c.Nontrivial(1)
	}
	if plain.Kind == "syntax" || w.Kind == "syntax" {
		c.HarnessError("generated chain does not parse: %s / %s: %s %s", t.plain(), t.wrapped(), plain.ErrMsg, w.ErrMsg)
		return
	}
	if plain.Kind == "panic" || plain.Kind == "discard" {
		c.Outcome("plain-" + plain.Kind)
		return // the plain chain itself crashed: C01's subject
	}
	isErr := plain.Kind == "error"
	if isErr || t.Acc >= 1 {
		c.Nontrivial(1)
	}
	wantV, wantK, wantM := accessors[t.Acc].fn(isErr, plain.Repr, plain.ErrKind, plain.ErrMsg)
	c.Outcome(fmt.Sprintf("plain-%s:%s", plain.Kind, plain.ErrKind))
	ok := w.Out == plain.Out
	class := "trace"
	if ok {
		class = "outcome"
		if wantK != "" {
			ok = w.Kind == "error" && w.ErrKind == wantK && (wantM == "*" || w.ErrMsg == wantM)
		} else {
			ok = w.Kind == "value" && w.Repr == wantV
		}
	}
	if ok {
		return
	}
	exp := fmt.Sprintf("out=%q ", plain.Out)
	if wantK != "" {
		exp += wantK + ": " + wantM
	} else {
		exp += wantV
	}
	exp += "   (plain chain " + t.plain() + " gives " + plain.Short() + ")"
	c.Violation(core.Violation{Key: keyOf(t, class, plain, w), Case: core.JSON(t), Desc: t.wrapped(), Expected: exp, Observed: fmt.Sprintf("out=%q %s", w.Out, w.Short()),
		Repro: prelude + "zz := {||\n" + t.wrapped() + "\n}\nzz().p\n"})
}

func gen(thorough bool, emit func(tcase)) {
	alpha := alphabet()
	var rec func(recv string, steps []step, alpha []step, max int)
	rec = func(recv string, steps []step, alpha []step, max int) {
		if len(steps) > 0 {
			for a := range accessors {
				emit(tcase{Recv: recv, Steps: append([]step{}, steps...), Acc: a})
			}
		}
		if len(steps) == max {
			return
		}
		for _, s := range alpha {
			if s.Obj && !(len(steps) == 0 && hasOwnProps(recv)) && !(len(steps) > 0 && steps[len(steps)-1].Src == ".w") {
				continue
			}
			rec(recv, append(steps, s), alpha, max)
		}
	}
	for _, r := range receivers {
		rec(r, nil, alpha, 2)
	}
	// chains without any step: v.try holds v, for every receiver - including the results of earlier try chains
	for _, r := range append(append([]string{}, receivers...), "ev", "ee", "een", "[ev, ee]", "{|x| x}", "Int", "Either") {
		for a := range accessors {
			emit(tcase{Recv: r, Acc: a})
		}
	}
	if thorough {
		red := reducedAlphabet()
		for _, r := range receivers {
			var rec3 func(steps []step)
			rec3 = func(steps []step) {
				if len(steps) == 3 {
					for a := range accessors {
						emit(tcase{Recv: r, Steps: append([]step{}, steps...), Acc: a})
					}
					return
				}
				for _, s := range red {
					if s.Obj && !(len(steps) == 0 && hasOwnProps(r)) {
						continue
					}
					rec3(append(steps, s))
				}
			}
			rec3(nil)
		}
	}
}

type pair struct {
	t tcase
	w bool
}

// ---------------------------------------------------------------- one try chain evaluated again with another receiver

// The wrapped chain and the plain chain are each written once (inside functions f and g) and evaluated for the
// receivers r1, r2, r1 in turn; every wrapped result must be what the plain outcome for THAT receiver implies.
func genAgain(emit func(tcase)) {
	recvs := []string{"5", `"a"`, "[1, 2]", "nil", "oo"}
	alpha := reducedAlphabetQuick()
	accs := []int{0, 2, 3, 6} // .val .A .or(99) .err?
	var chains [][]step
	for _, s1 := range alpha {
		if s1.Obj {
			continue
		}
		chains = append(chains, []step{s1})
		for _, s2 := range alpha {
			if s2.Obj {
				continue
			}
			chains = append(chains, []step{s1, s2})
		}
	}
	for _, ch := range chains {
		for _, a := range accs {
			for i, r1 := range recvs {
				for j, r2 := range recvs {
					if i == j {
						continue
					}
					emit(tcase{Steps: ch, Acc: a, Again: []string{r1, r2, r1}})
				}
			}
		}
	}
}

func judgeAgain(c *core.Ctx, t tcase, o panrun.Obs) {
	c.Validated(1)
	c.Nontrivial(1)
	if o.Kind == "syntax" {
		c.HarnessError("again program does not parse: %s: %s", t.againSrc(), o.ErrMsg)
		return
	}
	if o.Kind == "panic" || o.Kind == "discard" {
		c.Outcome("again-" + o.Kind)
		return
	}
	rows, ok := o.Val.(*object.PanArr)
	if o.Kind != "value" || !ok || len(rows.Elems) != len(t.Again) {
		c.HarnessError("again program gave no row per receiver: %s: %s", t.againSrc(), o.Short())
		return
	}
	side := func(v object.PanObject) (isErr bool, val, kind, msg string, good bool) {
		pr, ok := v.(*object.PanArr)
		if !ok || len(pr.Elems) != 2 {
			return false, "", "", "", false
		}
		if ew, ok := pr.Elems[1].(*object.PanErrWrapper); ok {
			return true, "", string(ew.ErrKind), ew.Msg, true
		}
		return false, pr.Elems[0].Repr(), "", "", true
	}
	for i, row := range rows.Elems {
		pr, ok := row.(*object.PanArr)
		if !ok || len(pr.Elems) != 2 {
			c.HarnessError("again row malformed: %s", row.Repr())
			return
		}
		pErr, pVal, pKind, pMsg, g1 := side(pr.Elems[0])
		wErr, wVal, wKind, wMsg, g2 := side(pr.Elems[1])
		if !g1 || !g2 {
			c.HarnessError("again row malformed: %s", row.Repr())
			return
		}
		wantV, wantK, wantM := accessors[t.Acc].fn(pErr, pVal, pKind, pMsg)
		good := false
		if wantK != "" {
			good = wErr && wKind == wantK && (wantM == "*" || wMsg == wantM)
		} else {
			good = !wErr && wVal == wantV
		}
		c.Outcome(fmt.Sprintf("again:%v", good))
		if !good {
			one := tcase{Recv: t.Again[i], Steps: t.Steps, Acc: t.Acc}
			// the known proxy classes keep their keys; everything else is a finding of this family
			pObs, wObs := panrun.Obs{Kind: "value", Repr: pVal}, panrun.Obs{Kind: "value", Repr: wVal, ErrMsg: wMsg}
			if pErr {
				pObs = panrun.Obs{Kind: "error", ErrKind: pKind, ErrMsg: pMsg}
			}
			key := keyOf(one, "outcome", pObs, wObs)
			if !strings.HasPrefix(key, "proxy/") {
				key = "evaluated-again/" + key
			}
			c.Violation(core.Violation{Key: key, Case: core.JSON(t), Desc: strings.ReplaceAll(t.againSrc(), "\n", "; "),
				Expected: fmt.Sprintf("evaluation %d (receiver %s): %s %s %s", i+1, t.Again[i], wantV, wantK, wantM), Observed: pr.Elems[1].Repr() + "  (plain: " + pr.Elems[0].Repr() + ")",
				Repro: prelude + t.againSrc() + ".p\n"})
			return
		}
	}
}

// ---------------------------------------------------------------- one Either continued more than once

// `e := r.try` is a value: continuing it with one step leaves e - and what was continued from it earlier - as they
// were. e is continued with s1, then with s2; a, b, e and a again are compared with the plain outcomes.
type storedCase struct {
	Mode   string `json:"mode"` // "stored"
	Recv   string `json:"recv"`
	S1, S2 step
}

func (t storedCase) src() string {
	row := func(plain, wrapped string) string {
		return "[nil.try.{|u| " + plain + "}.A, nil.try.{|u| " + wrapped + ".A}.A]"
	}
	return "e := " + t.Recv + ".try\na := e" + t.S1.Src + "\nb := e" + t.S2.Src + "\n[" + row(t.Recv+t.S1.Src, "a") + ", " + row(t.Recv+t.S2.Src, "b") + ", " + row(t.Recv, "e") + ", " + row(t.Recv+t.S1.Src, "a") + "]"
}

func genStored(emit func(storedCase)) {
	alpha := reducedAlphabetQuick()
	for _, r := range []string{"5", `"a"`, "[1, 2]", "oo"} {
		for _, s1 := range alpha {
			for _, s2 := range alpha {
				if (s1.Obj || s2.Obj) && r != "oo" {
					continue
				}
				if s1.Tag != "" || s2.Tag != "" {
					continue // the known proxy classes are the subject of the main family
				}
				emit(storedCase{Mode: "stored", Recv: r, S1: s1, S2: s2})
			}
		}
	}
}

func judgeStored(c *core.Ctx, t storedCase, o panrun.Obs) {
	c.Validated(1)
	c.Nontrivial(1)
	if o.Kind == "syntax" {
		c.HarnessError("stored program does not parse: %s: %s", t.src(), o.ErrMsg)
		return
	}
	rows, ok := o.Val.(*object.PanArr)
	if o.Kind != "value" || !ok || len(rows.Elems) != 4 {
		c.Outcome("stored-" + o.Kind)
		return // the set-up itself failed (a step that raises outside try): nothing to compare
	}
	names := []string{"a (e continued with s1)", "b (e continued with s2)", "e itself", "a after e was continued again"}
	for i, row := range rows.Elems {
		pr, ok := row.(*object.PanArr)
		if !ok || len(pr.Elems) != 2 {
			c.HarnessError("stored row malformed: %s", row.Repr())
			return
		}
		plain, okp := pr.Elems[0].(*object.PanArr)
		if !okp || len(plain.Elems) != 2 {
			c.HarnessError("stored row malformed: %s", row.Repr())
			return
		}
		want := ""
		if ew, isErr := plain.Elems[1].(*object.PanErrWrapper); isErr {
			want = "[[nil, [" + string(ew.ErrKind) + ": " + ew.Msg + "]], nil]"
			if strings.Contains(ew.Msg, "is not defined") && ew.ErrKind == "NoPropErr" {
				continue // absent-property class (known finding of the main family)
			}
		} else {
			want = "[[" + plain.Elems[0].Repr() + ", nil], nil]"
		}
		got := pr.Elems[1].Repr()
		c.Outcome(fmt.Sprintf("stored:%v", got == want))
		if got != want {
			c.Violation(core.Violation{Key: "either-changed-by-continuing-it/" + []string{"first-continuation", "second-continuation", "the-either-itself", "first-continuation-afterwards"}[i], Case: core.JSON(t), Desc: strings.ReplaceAll(t.src(), "\n", "; "),
				Expected: names[i] + ": " + want, Observed: got, Repro: prelude + t.src() + ".p\n"})
			return
		}
	}
}

// ---------------------------------------------------------------- every property name of the receiver as a step

// Names that the Either objects answer themselves on the unchanged tree (own properties of EitherVal/EitherErr/Either
// incl. the Wrappable mix-in, Obj incl. Iterable, BaseObj): a step of such a name runs on the wrapper (known finding
// proxy/step-name-defined-on-wrapper). The list is fixed here on purpose: a name that is ADDED to the wrapper later
// starts to shadow a step that used to reach the value, and must not be excused.
var wrapperNamesToday = map[string]bool{}

func init() {
	for _, n := range strings.Fields("A abandon catch err fmap ignore or val end err? newErr newVal val? B S acc all? ancestors any? append asFor? avg bro callProp case chain chunk del digest doUntil doWhile empty? exclude find first flipflop index indices items keyBy keys kindOf? last lazyMap map max min new nil? p patch prepend print puts reduce repr rindex select std sum tally tap traverse try until values which while withI zip at bear proto") {
		wrapperNamesToday[n] = true
	}
}

var sweepSkip = map[string]bool{"p": true, "puts": true, "print": true, "doWhile": true, "doUntil": true, "while": true, "until": true, "import": true, "invite!": true, "read": true, "exit": true, "eval": true, "evalEnv": true, "argv": true, "try": true, "assert": true, "assertEq": true, "assertRaises": true}

var sweepName = regexp.MustCompile(`^[a-zA-Z][a-zA-Z0-9]*[?!]?$`)

func genSweep(c *core.Ctx, emit func(tcase)) {
	r := c.R()
	for _, recv := range []string{"[5]", "[1, 2]", `"ab"`, "5", "1.5", "(1:3)", "%{1: 2}", "{a: 1}", "nil", "{|x| x}"} {
		o := r.EvalSrc(recv, "")
		if o.Kind != "value" {
			c.HarnessError("sweep receiver %s does not evaluate: %s", recv, o.Short())
			return
		}
		seen := map[string]bool{}
		var names []string
		for v := o.Val; v != nil; v = v.Proto() {
			po, ok := v.(*object.PanObj)
			if !ok {
				continue
			}
			for h := range *po.Pairs {
				s, ok := object.SymHash2Str(h)
				if !ok {
					continue
				}
				n := s.(*object.PanStr).Value
				if _, isFn := (*po.Pairs)[h].Value.(*object.PanFunc); !isFn {
					if _, isBuiltIn := (*po.Pairs)[h].Value.(*object.PanBuiltIn); !isBuiltIn {
						continue // a property that is not callable: the known class proxy/non-callable-property-step (receivers oo, n5, sa)
					}
				}
				if sweepName.MatchString(n) && !seen[n] && !sweepSkip[n] {
					seen[n] = true
					names = append(names, n)
				}
			}
		}
		sort.Strings(names)
		for _, n := range names {
			st := step{Src: "." + n}
			if wrapperNamesToday[n] {
				st.Tag = "wrapper-defined"
			}
			for a := range accessors {
				emit(tcase{Recv: recv, Steps: []step{st}, Acc: a})
			}
		}
	}
}

func run(c *core.Ctx) {
	n := 0
	// every case contributes two thunks (plain, wrapped); plain results are reused inside a batch
	var pending *tcase
	var plainObs panrun.Obs
	total := tk.Batched(c, 1000, prelude, func(emit func(pair)) {
		deep = c.Thorough()
		gen(true, func(t tcase) {
			emit(pair{t, false})
			emit(pair{t, true})
		})
		genSweep(c, func(t tcase) {
			emit(pair{t, false})
			emit(pair{t, true})
		})
	}, func(p pair) string {
		if p.w {
			return p.t.wrapped()
		}
		return p.t.plain()
	}, func(p pair, o panrun.Obs) {
		if !p.w {
			tt := p.t
			pending = &tt
			plainObs = o
			return
		}
		if pending == nil {
			c.HarnessError("wrapped case without its plain twin")
			return
		}
		n++
		if n%2500 == 1 {
			c.Sample(map[string]string{"wrapped": p.t.wrapped(), "plain": p.t.plain(), "plain_outcome": plainObs.Short()})
		}
		judge(c, p.t, plainObs, o)
		pending = nil
	})
	c.Note("thunks_total", total)
	tk.Batched(c, 200, prelude, func(emit func(storedCase)) { genStored(emit) }, func(t storedCase) string { return t.src() }, func(t storedCase, o panrun.Obs) { judgeStored(c, t, o) })
	tk.Batched(c, 300, prelude, func(emit func(tcase)) { genAgain(emit) }, func(t tcase) string { return t.againSrc() }, func(t tcase, o panrun.Obs) { judgeAgain(c, t, o) })
}

func replay(c *core.Ctx, raw json.RawMessage) {
	var t tcase
	if err := json.Unmarshal(raw, &t); err != nil {
		c.HarnessError("bad case: %v", err)
		return
	}
	var st storedCase
	if json.Unmarshal(raw, &st) == nil && st.Mode == "stored" {
		obs := c.R().Thunks(prelude, []string{st.src()}, "")
		c.Eval(1)
		judgeStored(c, st, obs[0])
		return
	}
	if len(t.Again) > 0 {
		obs := c.R().Thunks(prelude, []string{t.againSrc()}, "")
		c.Eval(1)
		judgeAgain(c, t, obs[0])
		return
	}
	obs := c.R().Thunks(prelude, []string{t.plain(), t.wrapped()}, "")
	c.Eval(2)
	judge(c, t, obs[0], obs[1])
}
