module panmc

go 1.21

require github.com/Syuparn/pangaea v0.0.0

require (
	github.com/dlclark/regexp2 v1.4.0 // indirect
	github.com/labstack/echo/v4 v4.10.2
	github.com/labstack/gommon v0.4.0 // indirect
	github.com/lithammer/dedent v1.1.0 // indirect
	github.com/macrat/simplexer v0.0.0-20180110131648-bce8e0661570 // indirect
	github.com/mattn/go-colorable v0.1.13 // indirect
	github.com/mattn/go-isatty v0.0.17 // indirect
	github.com/tanaton/dtoa v0.0.0-20190918101016-f12936c87cdb // indirect
	github.com/valyala/bytebufferpool v1.0.0 // indirect
	github.com/valyala/fasttemplate v1.2.2 // indirect
	golang.org/x/crypto v0.14.0 // indirect
	golang.org/x/net v0.17.0 // indirect
	golang.org/x/sys v0.13.0 // indirect
	golang.org/x/text v0.13.0 // indirect
)

replace github.com/Syuparn/pangaea => /repo

replace github.com/macrat/simplexer v0.0.0-20180110131648-bce8e0661570 => /repo/third_party/simplexer
